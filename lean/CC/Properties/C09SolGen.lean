/-
  Property C09 (and C03 / C05 through the two classes), translator tie — `TimeDomainSolution` and
  `FrequencyDomainSolution` of Circuit/solution.py: `__post_init__`, `_series`, the getters.

  harness/extract_solution.py translates these methods statement by statement into the GENERATED trees
  `Gen.Sol.methodTable` (CC/Gen/Solution.lean, rewritten from the source on every run); CC/Model/SolutionEval.lean
  part (A) is the reading of such a tree (`evalP`, `runMethod`, `closureAt`; names `frequency_components`, `transform`,
  `ComplexSolution`, `self.solver`, `solution.get_q` bound to `Gen.Freq.frequency_components`, `CC.transform`,
  `transformCircuit` + solver, `Net.quantity` / `cxGet`).  The hand transcriptions of CC/Properties/C09Line.lean, on
  which `C09_line_*` rest, are proved to be EXACTLY that reading — for every circuit, `w_max`, solver, id, exceptions
  included:

    C09_gen_td_init_shape / C09_gen_fd_init_shape / C09_gen_series_shape / C09_gen_getters_shape
                              the generated trees, literally (`decide`);
    C09_gen_td_post_init      reading of `TimeDomainSolution.__post_init__` = generated `frequency_components`, then
                              `tdSolutions`, then the empty-list guard;
    C09_gen_fd_post_init      reading of `FrequencyDomainSolution.__post_init__` = the same frequencies, `fdSolutions`
                              (one `ComplexSolution(…, peak_values=True)` per frequency), the guard;
    C09_gen_td_getters        reading of `get_voltage / get_current / get_potential` of `TimeDomainSolution`, the
                              returned closure evaluated at an instant = `tdValue` (lines `tdLines`, sum `timeValue`);
    C09_gen_fd_series         reading of `_series` = the hand model's `series` (one- and two-sided, `mirrorW`, `mirrorX`, `dcCount`);
    C09_gen_fd_getters        reading of the three getters of `FrequencyDomainSolution` = `fdGet` (`fdLines`, then `series`).

  A changed call, argument, keyword (`peak_values`), iteration source, slice, sign, `conj`, factor or summand in these
  methods changes the generated tree (or is refused by the translator) and the `_shape` theorem — on which the
  others rest — no longer compiles.
  Trusted: the reading (CC/Model/SolutionEval.lean), in particular `closureAt`, which recognises the Fourier synthesis
  sum as a whole and reads its summand `np.abs(X)*np.cos(w*t+np.angle(X))` as `lineValue` (identity over ℂ:
  `CC.C09_time_function`); `fc` / `C` as the two readings of one circuit.  NOT read: the identifier guards
  (`Gen.Sol.requireTable`, C19), `get_power` of either class beyond its literal tree, dataclass field defaults.
-/
import CC.Model.SolutionEval
import CC.Properties.C09Line
import CC.Properties.C09Gen
set_option linter.unusedSimpArgs false
set_option linter.unusedSectionVars false
set_option linter.unusedVariables false
namespace CC
open Gen Gen.Sol SolEval

/-- `if len(self.w) == 0: transform(self.circuit, w=[0])` -/
def emptyGuardStmt : PStmt :=
  .ifExpr (.cmp "==" (.call "len" (.pos (.self "w") .nil)) (.nat 0))
    (.call "transform" (.pos (.self "circuit") (.kw "w" (.list (.pos (.nat 0) .nil)) .nil)))

/-- `frequency_components(self.circuit, self.w_max)` -/
def freqCallExpr : PExpr := .call "frequency_components" (.pos (.self "circuit") (.pos (.self "w_max") .nil))

theorem C09_gen_td_init_shape :
    findMethod "TimeDomainSolution" "__post_init__" = some
      { cls := "TimeDomainSolution", name := "__post_init__", params := [],
        body := [
          .assign (.self "w") freqCallExpr,
          .assign (.name "networks") (.call "transform" (.pos (.self "circuit") (.kw "w" (.self "w") .nil))),
          .assign (.self "_solutions") (.comp (.apply (.self "solver") (.pos (.name "network") .nil)) (.name "network") (.name "networks")),
          emptyGuardStmt] } := by
  decide

theorem C09_gen_fd_init_shape :
    findMethod "FrequencyDomainSolution" "__post_init__" = some
      { cls := "FrequencyDomainSolution", name := "__post_init__", params := [],
        body := [
          .assign (.self "w") (.call "np.array" (.pos freqCallExpr .nil)),
          .assign (.self "_solutions") (.call "np.array" (.pos (.comp
            (.call "ComplexSolution" (.kw "circuit" (.self "circuit") (.kw "solver" (.self "solver") (.kw "w" (.name "w") (.kw "peak_values" .tt .nil)))))
            (.name "w") (.self "w")) .nil)),
          emptyGuardStmt] } := by
  decide

/-- the dataclass fields of both classes when `__post_init__` starts -/
def selfFields (wmax : Rat) (oneSided : Bool) : List (String × PVal) :=
  [("circuit", .circuit), ("w_max", .rat wmax), ("solver", .solverFn), ("one_sided", .bool oneSided)]

theorem mapM_asRat_rats (ws : List Rat) : List.mapM (asRat ∘ PVal.rat) ws = .ok ws := by
  induction ws with
  | nil => rfl
  | cons w ws ih => simp [List.mapM_cons, ih, asRat, bind, Except.bind, pure, Except.pure]

theorem mapM_ok_map {α β : Type} (F : α → Except Err β) (f : α → β) (hF : ∀ a, F a = .ok (f a)) (l : List α) :
    List.mapM F l = .ok (l.map f) := by
  induction l with
  | nil => rfl
  | cons a l ih => simp [List.mapM_cons, ih, hF, bind, Except.bind, pure, Except.pure]

/-- what `__post_init__` of either class leaves behind, given the frequencies and the per-frequency objects -/
def initEnv (wmax : Rat) (b : Bool) (ws : List Rat) (sols : List PVal) (locals : List (String × PVal)) : PEnv × Option PVal :=
  (⟨("_solutions", .list sols) :: ("w", .list (ws.map .rat)) :: selfFields wmax b, locals⟩, none)

/-- `if len(self.w) == 0: transform(self.circuit, w=[0])`: with no frequency to analyse the circuit is still transformed once
(so that an ill-formed circuit raises) -/
def emptyGuard (W : World) (ws : List Rat) : Except Err Unit :=
  if ws = [] then (do let _ ← transform tables W.trig W.harm W.C [0] defaultWResTransform; pure ()) else pure ()

/-- **C09 (generated `TimeDomainSolution.__post_init__`).**  The reading of the generated tree — for every circuit,
`w_max`, solver — is: `self.w` = the GENERATED `frequency_components` of the circuit at `w_max` and the default
resolution (= the hand model `frequencyComponents`: `C09_gen_frequency_components`), `self._solutions` = the hand
transcription `tdSolutions` of C09Line.lean at those frequencies (one `transform` of the circuit over the whole list at
the default resolution, the solver applied to each network, in order), then the empty-list guard; exceptions included
(the first one raised wins).  So `tdSolutions` IS the reading of the generated description.
Not said: what `transform` / the solver compute (C07, C01); solver exceptions. -/
theorem C09_gen_td_post_init (W : World) (wmax : Rat) (b : Bool) :
    runMethod W "TimeDomainSolution" 1 (selfFields wmax b) "__post_init__" [] = (do
      let ws ← Freq.frequency_components W.fc wmax Freq.default_w_resolution
      let sols ← tdSolutions W.trig W.harm W.solve W.C ws
      emptyGuard W ws
      pure (initEnv wmax b ws (sols.map fun s => .sol s.1 s.2) [("networks", .list (sols.map fun s => .net s.1))])) := by
  unfold runMethod
  rw [C09_gen_td_init_shape]
  simp [runBody, evalP, selfFields, freqCallExpr, emptyGuardStmt, List.lookup_cons, bind, Except.bind, pure, Except.pure, asList, callNamedP,
    bindP]
  cases Freq.frequency_components W.fc wmax Freq.default_w_resolution with
  | error e => rfl
  | ok ws =>
    simp only [Except.map, tdSolutions, mapM_asRat_rats, List.mapM_map, bind, Except.bind, pure, Except.pure]
    cases hT : transform tables W.trig W.harm W.C ws defaultWResTransform with
    | error e => rfl
    | ok nets =>
      simp only [List.mapM_map]
      rw [mapM_ok_map _ (fun N => PVal.sol N (W.solve N)) (fun N => by simp [applyP]) nets]
      cases ws with
      | nil => simp [cmpP, emptyGuard, asRat, bind, Except.bind, pure, Except.pure, initEnv, selfFields, List.map_map, Function.comp_def]
               cases transform tables W.trig W.harm W.C [0] defaultWResTransform <;> rfl
      | cons w ws => simp [cmpP, emptyGuard, initEnv, selfFields, List.map_map, Function.comp_def, pure, Except.pure]

theorem mapM_cx (W : World) (F : PVal → Except Err PVal)
    (hF : ∀ w, F (.rat w) = (cxSolution W.trig W.harm W.solve W.C w).map fun s => PVal.cx true s.1 s.2) (ws : List Rat) :
    List.mapM (F ∘ PVal.rat) ws
      = (fdSolutions W.trig W.harm W.solve W.C ws).map fun sols => sols.map fun s => PVal.cx true s.1 s.2 := by
  unfold fdSolutions
  induction ws with
  | nil => rfl
  | cons w ws ih =>
    rw [List.mapM_cons, List.mapM_cons, ih]
    simp only [Function.comp, hF]
    cases cxSolution W.trig W.harm W.solve W.C w with
    | error e => rfl
    | ok s => cases List.mapM (cxSolution W.trig W.harm W.solve W.C) ws <;> rfl

/-- **C09 (generated `FrequencyDomainSolution.__post_init__`).**  The reading of the generated tree: `self.w` = the
GENERATED `frequency_components` at `w_max` (as an array), `self._solutions` = one
`ComplexSolution(circuit=self.circuit, solver=self.solver, w=w, peak_values=True)` per listed frequency, in order —
the hand transcription `fdSolutions` of C09Line.lean (each object: `cxSolution` = the network `cxNet … w` of C02 and the
solver's vector), all with `peak_values = True` — then the empty-list guard; exceptions included.
A changed keyword (`peak_values=False`, another `w`, another solver), iteration source or constructor changes the
generated tree (`C09_gen_fd_init_shape`) or the reading. -/
theorem C09_gen_fd_post_init (W : World) (wmax : Rat) (b : Bool) :
    runMethod W "FrequencyDomainSolution" 1 (selfFields wmax b) "__post_init__" [] = (do
      let ws ← Freq.frequency_components W.fc wmax Freq.default_w_resolution
      let sols ← fdSolutions W.trig W.harm W.solve W.C ws
      emptyGuard W ws
      pure (initEnv wmax b ws (sols.map fun s => .cx true s.1 s.2) [])) := by
  unfold runMethod
  rw [C09_gen_fd_init_shape]
  simp [runBody, evalP, selfFields, freqCallExpr, emptyGuardStmt, List.lookup_cons, bind, Except.bind, pure, Except.pure, asList, callNamedP,
    bindP]
  cases Freq.frequency_components W.fc wmax Freq.default_w_resolution with
  | error e => rfl
  | ok ws =>
    simp only [Except.map, List.mapM_map, bind, Except.bind, pure, Except.pure]
    rw [mapM_cx W _ (fun w => by
      simp [mkComplexSolution, kwLookupP, asRat, cxSolution, cxNet, bind, Except.bind, pure, Except.pure, Except.map]
      cases transformCircuit tables W.trig W.harm W.C w defaultWResTransform <;> rfl) ws]
    cases fdSolutions W.trig W.harm W.solve W.C ws with
    | error e => rfl
    | ok sols =>
      cases ws with
      | nil => simp [Except.map, cmpP, emptyGuard, asRat, bind, Except.bind, pure, Except.pure, initEnv, selfFields]
               cases transform tables W.trig W.harm W.C [0] defaultWResTransform <;> rfl
      | cons w ws => simp [Except.map, cmpP, emptyGuard, initEnv, selfFields, pure, Except.pure]

/-- `ac = slice(1, None) if len(self.w) > 0 and self.w[0] == 0 else slice(0, None)` -/
def acExpr : PExpr :=
  .ifexp (.and_ (.cmp ">" (.call "len" (.pos (.self "w") .nil)) (.nat 0)) (.cmp "==" (.index (.self "w") (.nat 0)) (.nat 0)))
    (.call "slice" (.pos (.nat 1) (.pos .none_ .nil))) (.call "slice" (.pos (.nat 0) (.pos .none_ .nil)))

/-- `x[ac][::-1]` -/
def acRev (x : PExpr) : PExpr := .index (.index x (.name "ac")) (.slice .none_ .none_ (.neg (.nat 1)))

/-- **the generated tree of `FrequencyDomainSolution._series`, literally** -/
theorem C09_gen_series_shape :
    findMethod "FrequencyDomainSolution" "_series" = some
      { cls := "FrequencyDomainSolution", name := "_series", params := ["values"],
        body := [
          .ifReturn (.self "one_sided") (.tuple (.pos (.call "np.array" (.pos (.self "w") .nil)) (.pos (.name "values") .nil))),
          .assign (.name "ac") acExpr,
          .assign (.name "w") (.call "np.concatenate" (.pos (.tuple (.pos (.neg (acRev (.self "w"))) (.pos (.self "w") .nil))) .nil)),
          .ret (.tuple (.pos (.name "w") (.pos (.call "np.concatenate" (.pos (.tuple
            (.pos (.bin "/" (.call "np.conj" (.pos (acRev (.name "values")) .nil)) (.nat 2))
            (.pos (.index (.name "values") (.slice .none_ (.bin "-" (.call "len" (.pos (.self "w") .nil)) (.call "len" (.pos (.index (.self "w") (.name "ac")) .nil))) .none_))
            (.pos (.bin "/" (.index (.name "values") (.name "ac")) (.nat 2)) .nil)))) .nil)) .nil)))] } := by
  decide

theorem mapM_asRat_rats' (ws : List Rat) : List.mapM asRat (ws.map PVal.rat) = .ok ws := by
  rw [List.mapM_map]; exact mapM_asRat_rats ws

theorem mapM_asGQ_gqs (X : List GQ) : List.mapM asGQ (X.map PVal.gq) = .ok X := by
  rw [List.mapM_map]
  induction X with
  | nil => rfl
  | cons w ws ih => simp [List.mapM_cons, ih, asGQ, bind, Except.bind, pure, Except.pure]

/-- the attributes of a `FrequencyDomainSolution` / `TimeDomainSolution` object after `__post_init__` -/
def objAttrs (wmax : Rat) (oneSided : Bool) (ws : List Rat) (sols : List PVal) : List (String × PVal) :=
  ("_solutions", .list sols) :: ("w", .list (ws.map .rat)) :: selfFields wmax oneSided

theorem mapM_asGQ_comp (f : GQ → GQ) (X : List GQ) : List.mapM (asGQ ∘ fun z => PVal.gq (f z)) X = .ok (X.map f) :=
  mapM_ok_map _ f (fun z => rfl) X
theorem mapM_asGQ_comp' (X : List GQ) : List.mapM (asGQ ∘ PVal.gq) X = .ok X := by
  have := mapM_ok_map (asGQ ∘ PVal.gq) id (fun z => rfl) X
  simpa using this
theorem mapM_asRat_comp (f : Rat → Rat) (X : List Rat) : List.mapM (asRat ∘ fun z => PVal.rat (f z)) X = .ok (X.map f) :=
  mapM_ok_map _ f (fun z => rfl) X
theorem mapM_asGQ_fun (f : GQ → GQ) (X : List GQ) : List.mapM (fun z => asGQ (PVal.gq (f z))) X = .ok (X.map f) :=
  mapM_ok_map _ f (fun z => rfl) X
theorem mapM_asGQ_fun' (X : List GQ) : List.mapM (fun z => asGQ (PVal.gq z)) X = .ok X := by
  simpa using mapM_asGQ_fun id X
theorem mapM_asRat_fun (f : Rat → Rat) (X : List Rat) : List.mapM (fun z => asRat (PVal.rat (f z))) X = .ok (X.map f) :=
  mapM_ok_map _ f (fun z => rfl) X
theorem mapM_asRat_fun' (X : List Rat) : List.mapM (fun z => asRat (PVal.rat z)) X = .ok X := by
  simpa using mapM_asRat_fun id X
theorem mapM_asList_two (a b : List PVal) : List.mapM asList [PVal.list a, PVal.list b] = .ok [a, b] := rfl
theorem mapM_asList_three (a b c : List PVal) : List.mapM asList [PVal.list a, PVal.list b, PVal.list c] = .ok [a, b, c] := rfl

/-- **C09 (generated `_series`).**  The reading of the generated tree of `FrequencyDomainSolution._series` on an object whose
`self.w` lists the frequencies `ws`, applied to the array of per-frequency values `X` — every `ws`, every `X`, both values of
`one_sided` — returns the pair `series one_sided ws X` of the hand model (CC/Model/MultiFreq.lean): one-sided `(w, values)`
unchanged; two-sided the mirrored axis `mirrorW` (negated reversed AC part, then `w`) and `mirrorX` (`conj(X[ac][::-1])/2`, the
DC entry once, `X[ac]/2`), with `ac` dropping the first entry exactly when the list starts with `0` (`dcCount`).
`/ 2` on an array is read as multiplication by `GQ.ofRat (1/2)`.  Not said: dtypes; `values` of another length than `w` is
sliced as numpy slices it (no error). -/
theorem C09_gen_fd_series (W : World) (wmax : Rat) (oneSided : Bool) (ws : List Rat) (sols : List PVal) (X : List GQ) :
    (runMethod W "FrequencyDomainSolution" 1 (objAttrs wmax oneSided ws sols) "_series" [.list (X.map .gq)]).map (·.2)
      = .ok (some (.list [.list ((series oneSided ws X).1.map .rat), .list ((series oneSided ws X).2.map .gq)])) := by
  unfold runMethod
  rw [C09_gen_series_shape]
  cases oneSided with
  | true =>
    simp [runBody, evalP, objAttrs, selfFields, List.lookup_cons, bind, Except.bind, pure, Except.pure, asList, callNamedP, series, Except.map]
  | false =>
    have hd : ∀ cs d, d = dcCount ws →
        evalP W cs ⟨objAttrs wmax false ws sols, [("values", .list (X.map .gq))]⟩ acExpr = .ok (.slice d) := by
      intro cs d hd
      cases ws with
      | nil => simp [hd, evalP, objAttrs, acExpr, List.lookup_cons, bind, Except.bind, pure, Except.pure, asList, callNamedP, cmpP, dcCount]
      | cons w ws =>
        by_cases hw : w = 0 <;>
        simp [hd, hw, evalP, objAttrs, acExpr, List.lookup_cons, bind, Except.bind, pure, Except.pure, asList, callNamedP, cmpP, dcCount, indexP]
    have l1 : (objAttrs wmax false ws sols).lookup "one_sided" = some (.bool false) := by
      simp [objAttrs, selfFields, List.lookup_cons]
    have l2 : (objAttrs wmax false ws sols).lookup "w" = some (.list (ws.map .rat)) := by
      simp [objAttrs, selfFields, List.lookup_cons]
    simp [runBody, evalP, l1, l2, hd _ _ rfl, bindP, acRev, List.lookup_cons, bind, Except.bind, pure, Except.pure, asList, callNamedP,
        series, Except.map, cmpP, indexP, negP, binP, mirrorW, mirrorX, ← List.map_drop, ← List.map_reverse, ← List.map_take,
        mapM_asGQ_comp, mapM_asGQ_comp', mapM_asRat_comp, mapM_asGQ_fun, mapM_asGQ_fun', mapM_asRat_fun, mapM_asRat_fun', mapM_asRat_rats, mapM_asList_two, mapM_asList_three, Function.comp_def]

/-! ### the getters -/

/-- `[solution.<getter>(<id>) for solution in self._solutions]` -/
def linesExpr (getter id : String) : PExpr :=
  .comp (.apply (.attr (.name "solution") getter) (.pos (.name id) .nil)) (.name "solution") (.self "_solutions")

/-- a getter of `TimeDomainSolution`: guard, the list of per-frequency values, the vectorised Fourier synthesis closure -/
def tdGetterBody (guard getter id lines V : String) : List PStmt :=
  [.expr (.call guard (.pos (.self "circuit") (.pos (.name id) .nil))),
   .assign (.name lines) (linesExpr getter id),
   .ret (.call "np.vectorize" (.pos (.lam "t" (timeSumExpr V "w" "t" lines)) .nil))]

/-- a getter of `FrequencyDomainSolution`: guard, the array of per-frequency values, `self._series` of it -/
def fdGetterBody (guard getter id lines : String) : List PStmt :=
  [.expr (.call guard (.pos (.self "circuit") (.pos (.name id) .nil))),
   .assign (.name lines) (.call "np.array" (.pos (linesExpr getter id) .nil)),
   .ret (.apply (.self "_series") (.pos (.name lines) .nil))]

/-- **the generated trees of the getters, literally** (`TimeDomainSolution.get_power` is the product of the two closures;
`FrequencyDomainSolution.get_power` is `_series` of the `get_power` values of the `ComplexSolution` objects) -/
theorem C09_gen_getters_shape :
    findMethod "TimeDomainSolution" "get_voltage" = some ⟨"TimeDomainSolution", "get_voltage", ["component_id"],
      tdGetterBody "_require_component" "get_voltage" "component_id" "voltages" "V"⟩ ∧
    findMethod "TimeDomainSolution" "get_current" = some ⟨"TimeDomainSolution", "get_current", ["component_id"],
      tdGetterBody "_require_component" "get_current" "component_id" "currents" "V"⟩ ∧
    findMethod "TimeDomainSolution" "get_potential" = some ⟨"TimeDomainSolution", "get_potential", ["node_id"],
      tdGetterBody "_require_node" "get_potential" "node_id" "potentials" "phi"⟩ ∧
    findMethod "TimeDomainSolution" "get_power" = some ⟨"TimeDomainSolution", "get_power", ["component_id"],
      [.assign (.name "voltage") (.apply (.self "get_voltage") (.pos (.name "component_id") .nil)),
       .assign (.name "current") (.apply (.self "get_current") (.pos (.name "component_id") .nil)),
       .ret (.lam "t" (.bin "*" (.call "np.array" (.pos (.call "voltage" (.pos (.name "t") .nil)) .nil))
         (.call "np.array" (.pos (.call "current" (.pos (.name "t") .nil)) .nil))))]⟩ ∧
    findMethod "FrequencyDomainSolution" "get_voltage" = some ⟨"FrequencyDomainSolution", "get_voltage", ["component_id"],
      fdGetterBody "_require_component" "get_voltage" "component_id" "voltages"⟩ ∧
    findMethod "FrequencyDomainSolution" "get_current" = some ⟨"FrequencyDomainSolution", "get_current", ["component_id"],
      fdGetterBody "_require_component" "get_current" "component_id" "currents"⟩ ∧
    findMethod "FrequencyDomainSolution" "get_potential" = some ⟨"FrequencyDomainSolution", "get_potential", ["node_id"],
      fdGetterBody "_require_node" "get_potential" "node_id" "potentials"⟩ ∧
    findMethod "FrequencyDomainSolution" "get_power" = some ⟨"FrequencyDomainSolution", "get_power", ["component_id"],
      fdGetterBody "_require_component" "get_power" "component_id" "power"⟩ := by
  decide

/-- the name of the getter of quantity `q` -/
def getterName : Quantity → String
  | .voltage => "get_voltage"
  | .current => "get_current"
  | .potential => "get_potential"

theorem quantityOf_getterName (q : Quantity) : quantityOf (getterName q) = some q := by
  cases q <;> decide

theorem mapM_lines_td (W : World) (F : PVal → Except Err PVal) (q : Quantity) (id : String)
    (hF : ∀ N x, F (.sol N x) = (N.quantity x q id).map PVal.gq) (sols : List (Net String GQ × List GQ)) :
    List.mapM (F ∘ fun s => PVal.sol s.1 s.2) sols = (tdLines sols q id).map fun X => X.map PVal.gq := by
  unfold tdLines
  induction sols with
  | nil => rfl
  | cons s sols ih =>
    rw [List.mapM_cons, List.mapM_cons, ih]
    simp only [Function.comp, hF]
    cases s.1.quantity s.2 q id with
    | error e => rfl
    | ok z => cases List.mapM (fun s => s.1.quantity s.2 q id) sols <;> rfl

theorem mapM_lines_fd (W : World) (F : PVal → Except Err PVal) (q : Quantity) (id : String)
    (hF : ∀ N x, F (.cx true N x) = (cxGet true W.r2 N x q id).map PVal.gq) (sols : List (Net String GQ × List GQ)) :
    List.mapM (F ∘ fun s => PVal.cx true s.1 s.2) sols = (fdLines W.r2 sols q id).map fun X => X.map PVal.gq := by
  unfold fdLines
  induction sols with
  | nil => rfl
  | cons s sols ih =>
    rw [List.mapM_cons, List.mapM_cons, ih]
    simp only [Function.comp, hF]
    cases cxGet true W.r2 s.1 s.2 q id with
    | error e => rfl
    | ok z => cases List.mapM (fun s => cxGet true W.r2 s.1 s.2 q id) sols <;> rfl

theorem matchTimeSum_v : matchTimeSum "t" (timeSumExpr "V" "w" "t" "voltages") = some "voltages" := by decide
theorem matchTimeSum_i : matchTimeSum "t" (timeSumExpr "V" "w" "t" "currents") = some "currents" := by decide
theorem matchTimeSum_p : matchTimeSum "t" (timeSumExpr "phi" "w" "t" "potentials") = some "potentials" := by decide

/-- **C09 (generated `TimeDomainSolution` getters).**  For `q` = voltage / current / potential: the reading of the generated
tree of `get_q` on an object whose `self._solutions` holds the raw network solutions `sols` and `self.w` the frequencies
`ws` returns a closure, and the value of that closure at the instant with units `u w = (cos(w t), sin(w t))` is the
hand transcription `tdValue sols q id (ws.map u)` of C09Line.lean: the list comprehension is `tdLines` (the raw
accessor `Net.quantity` of every solution, in order, first exception wins), the closure is the Fourier synthesis sum over
`zip(lines, self.w)` whose summand `np.abs(X)*np.cos(w*t+np.angle(X))` is read as `lineValue` (`CC.C09_time_function`).
Not read: the identifier guard (its presence and kind is `Gen.Sol.requireTable`), `get_power` (its tree is in
`C09_gen_getters_shape`: the product of the two closures, formula `Gen.Sol.td_get_power`). -/
theorem C09_gen_td_getters (W : World) (wmax : Rat) (b : Bool) (ws : List Rat) (sols : List (Net String GQ × List GQ))
    (q : Quantity) (id : String) (u : Rat → Rat × Rat) :
    (do let r ← runMethod W "TimeDomainSolution" 1 (objAttrs wmax b ws (sols.map fun s => .sol s.1 s.2)) (getterName q) [.str id]
        closureAt u ws (r.2.getD .none_))
      = tdValue sols q id (ws.map u) := by
  have key : ∀ cs, ∀ g, quantityOf g = some q → ∀ idn (locals : List (String × PVal)), (idn == "solution") = false →
      evalP W cs ⟨objAttrs wmax b ws (sols.map fun s => .sol s.1 s.2), (idn, .str id) :: locals⟩ (linesExpr g idn)
        = (tdLines sols q id).map fun X => .list (X.map PVal.gq) := by
    intro cs g hg idn locals hidn
    simp only [linesExpr, evalP, objAttrs, List.lookup_cons, bind, Except.bind, pure, Except.pure, asList]
    simp only [beq_self_eq_true, List.mapM_map]
    rw [mapM_lines_td W _ q id (fun N x => by simp [applyP, hg, hidn, List.lookup_cons, asList, bind, Except.bind, pure, Except.pure]) sols]
    cases tdLines sols q id <;> rfl
  unfold runMethod tdValue
  cases q with
  | voltage =>
    rw [show getterName .voltage = "get_voltage" from rfl, C09_gen_getters_shape.1]
    simp only [tdGetterBody, List.length_cons, List.length_nil, if_true, List.zip_cons_cons, List.zip_nil_right, runBody]
    rw [key _ "get_voltage" (by decide) "component_id" [] (by decide)]
    simp [evalP, callNamedP, asList, bindP, bind, Except.bind, pure, Except.pure, List.lookup_cons, objAttrs, selfFields]
    cases tdLines sols .voltage id with
    | error e => rfl
    | ok X => simp [Except.map, closureAt, matchTimeSum_v, List.lookup_cons, mapM_asGQ_fun', mapM_asGQ_comp', bind, Except.bind, pure, Except.pure]
  | current =>
    rw [show getterName .current = "get_current" from rfl, C09_gen_getters_shape.2.1]
    simp only [tdGetterBody, List.length_cons, List.length_nil, if_true, List.zip_cons_cons, List.zip_nil_right, runBody]
    rw [key _ "get_current" (by decide) "component_id" [] (by decide)]
    simp [evalP, callNamedP, asList, bindP, bind, Except.bind, pure, Except.pure, List.lookup_cons, objAttrs, selfFields]
    cases tdLines sols .current id with
    | error e => rfl
    | ok X => simp [Except.map, closureAt, matchTimeSum_i, List.lookup_cons, mapM_asGQ_fun', mapM_asGQ_comp', bind, Except.bind, pure, Except.pure]
  | potential =>
    rw [show getterName .potential = "get_potential" from rfl, C09_gen_getters_shape.2.2.1]
    simp only [tdGetterBody, List.length_cons, List.length_nil, if_true, List.zip_cons_cons, List.zip_nil_right, runBody]
    rw [key _ "get_potential" (by decide) "node_id" [] (by decide)]
    simp [evalP, callNamedP, asList, bindP, bind, Except.bind, pure, Except.pure, List.lookup_cons, objAttrs, selfFields]
    cases tdLines sols .potential id with
    | error e => rfl
    | ok X => simp [Except.map, closureAt, matchTimeSum_p, List.lookup_cons, mapM_asGQ_fun', mapM_asGQ_comp', bind, Except.bind, pure, Except.pure]

theorem map_eq_ok {α β : Type} {f : α → β} {x : Except Err α} {y : β} (h : x.map f = .ok y) : ∃ a, x = .ok a ∧ f a = y := by
  cases x with
  | error e => simp [Except.map] at h
  | ok a => exact ⟨a, rfl, by simpa [Except.map] using h⟩

/-- **C09 (generated `FrequencyDomainSolution` getters).**  For `q` = voltage / current / potential: the reading of the
generated tree of `get_q` on an object whose `self._solutions` holds `ComplexSolution(…, peak_values=True)` objects for the
pairs `sols` and `self.w` the frequencies `ws` is the hand transcription `fdGet one_sided r2 ws sols q id` of
C09Line.lean: the array of the peak accessors (`fdLines` = `cxGet true`), handed to `self._series`
(`C09_gen_fd_series`: the hand model's `series`).  Not read: the identifier guard (`Gen.Sol.requireTable`);
`get_power` (tree: `C09_gen_getters_shape`, the `get_power` values of the objects, formula `Gen.Sol.cx_get_power`). -/
theorem C09_gen_fd_getters (W : World) (wmax : Rat) (oneSided : Bool) (ws : List Rat) (sols : List (Net String GQ × List GQ))
    (q : Quantity) (id : String) :
    (runMethod W "FrequencyDomainSolution" 2 (objAttrs wmax oneSided ws (sols.map fun s => .cx true s.1 s.2)) (getterName q)
        [.str id]).map (·.2)
      = (fdGet oneSided W.r2 ws sols q id).map fun out => some (.list [.list (out.1.map .rat), .list (out.2.map .gq)]) := by
  have key : ∀ cs, ∀ g, quantityOf g = some q → ∀ idn (locals : List (String × PVal)), (idn == "solution") = false →
      evalP W cs ⟨objAttrs wmax oneSided ws (sols.map fun s => .cx true s.1 s.2), (idn, .str id) :: locals⟩ (linesExpr g idn)
        = (fdLines W.r2 sols q id).map fun X => .list (X.map PVal.gq) := by
    intro cs g hg idn locals hidn
    simp only [linesExpr, evalP, objAttrs, List.lookup_cons, bind, Except.bind, pure, Except.pure, asList]
    simp only [beq_self_eq_true, List.mapM_map]
    rw [mapM_lines_fd W _ q id (fun N x => by simp [applyP, hg, hidn, List.lookup_cons, asList, bind, Except.bind, pure, Except.pure]) sols]
    cases fdLines W.r2 sols q id <;> rfl
  have hser : ∀ X : List GQ, ∃ env,
      runMethod W "FrequencyDomainSolution" 1 (objAttrs wmax oneSided ws (sols.map fun s => .cx true s.1 s.2)) "_series" [.list (X.map .gq)]
        = .ok (env, some (.list [.list ((series oneSided ws X).1.map .rat), .list ((series oneSided ws X).2.map .gq)])) := by
    intro X
    obtain ⟨a, ha, h2⟩ := map_eq_ok (C09_gen_fd_series W wmax oneSided ws (sols.map fun s => .cx true s.1 s.2) X)
    exact ⟨a.1, by rw [ha]; cases a; simp at h2; simp [h2]⟩
  unfold runMethod fdGet
  cases q with
  | voltage =>
    rw [show getterName .voltage = "get_voltage" from rfl, C09_gen_getters_shape.2.2.2.2.1]
    simp only [fdGetterBody, List.length_cons, List.length_nil, if_true, List.zip_cons_cons, List.zip_nil_right, runBody,
      evalP, bind, Except.bind, pure, Except.pure, asList]
    rw [key _ "get_voltage" (by decide) "component_id" [] (by decide)]
    cases fdLines W.r2 sols .voltage id with
    | error e =>
      simp [evalP, callNamedP, asList, bindP, bind, Except.bind, pure, Except.pure, List.lookup_cons, objAttrs, selfFields, Except.map]
    | ok X =>
      simp [evalP, callNamedP, asList, bindP, bind, Except.bind, pure, Except.pure, List.lookup_cons, objAttrs, selfFields, Except.map,
        applyP]
      obtain ⟨env, h⟩ := hser X
      simp only [objAttrs, selfFields] at h
      simp [h, bind, Except.bind, pure, Except.pure]
  | current =>
    rw [show getterName .current = "get_current" from rfl, C09_gen_getters_shape.2.2.2.2.2.1]
    simp only [fdGetterBody, List.length_cons, List.length_nil, if_true, List.zip_cons_cons, List.zip_nil_right, runBody,
      evalP, bind, Except.bind, pure, Except.pure, asList]
    rw [key _ "get_current" (by decide) "component_id" [] (by decide)]
    cases fdLines W.r2 sols .current id with
    | error e =>
      simp [evalP, callNamedP, asList, bindP, bind, Except.bind, pure, Except.pure, List.lookup_cons, objAttrs, selfFields, Except.map]
    | ok X =>
      simp [evalP, callNamedP, asList, bindP, bind, Except.bind, pure, Except.pure, List.lookup_cons, objAttrs, selfFields, Except.map,
        applyP]
      obtain ⟨env, h⟩ := hser X
      simp only [objAttrs, selfFields] at h
      simp [h, bind, Except.bind, pure, Except.pure]
  | potential =>
    rw [show getterName .potential = "get_potential" from rfl, C09_gen_getters_shape.2.2.2.2.2.2.1]
    simp only [fdGetterBody, List.length_cons, List.length_nil, if_true, List.zip_cons_cons, List.zip_nil_right, runBody,
      evalP, bind, Except.bind, pure, Except.pure, asList]
    rw [key _ "get_potential" (by decide) "node_id" [] (by decide)]
    cases fdLines W.r2 sols .potential id with
    | error e =>
      simp [evalP, callNamedP, asList, bindP, bind, Except.bind, pure, Except.pure, List.lookup_cons, objAttrs, selfFields, Except.map]
    | ok X =>
      simp [evalP, callNamedP, asList, bindP, bind, Except.bind, pure, Except.pure, List.lookup_cons, objAttrs, selfFields, Except.map,
        applyP]
      obtain ⟨env, h⟩ := hser X
      simp only [objAttrs, selfFields] at h
      simp [h, bind, Except.bind, pure, Except.pure]

end CC
