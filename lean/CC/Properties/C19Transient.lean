/-
  C19 / C12, translator tie — the getters of `TransientSolution` (Circuit/solution.py).

  harness/extract_solution.py translates the four getters of `class TransientSolution` into the GENERATED
  `Gen.Sol.transientTable` (CC/Gen/Solution.lean, rewritten from the source on every run): per getter the parameter
  name, the time axis and the returned value as an expression tree (`TExpr`).  CC/Model/TransientGetters.lean is
  the reading of such a tree (`transientGetter`: evaluate left to right in the exception monad, accessor NAMES bound
  to the generated functions of CC/Gen/StateSpace.lean).  Proved here:

    C19_transient_table_shape         the generated table IS: three rows `reshape(c_row_q(p) @ x + d_row_q(p) @ u)` for
                                      q = potential / voltage / current, `get_power = get_voltage(p)[1] * get_current(p)[1]`;
    C19_transient_getters_call_rows   for EVERY row of the generated table: every `self._ssm.…` call names one of the six
                                      generated row accessors, of the getter's own quantity, C-row against `_x` and D-row
                                      against `_u`, and passes the getter's parameter unchanged; `get_power` calls exactly
                                      the voltage and the current getter with its parameter;
    C19_transient_unknown_getter      for every model object, every `_x`, `_u`: an unknown id makes every getter raise
                                      (`KeyError`; current: the exception of its C row) — closes "the link getter → row
                                      accessor is read from the source" of C19More;
    C19_transient_unknown_getter_built the same for the object `nodal_state_space_model` builds;
    C12_getter_is_row_output          the series a getter returns is, sample by sample, `dot(c_row, x_t) + dot(d_row, u_t)`
                                      for the rows of the hand-written model (tied by `C10_gen_row_*`), the power series is
                                      the generated `tr_get_power` of the two series;
    C12_getter_samples_report         hence (with `C10_rows_*`, the conjuncts of `C10_output_rows`) sample `t` of every
                                      getter is the potential / voltage / current / v·i of the report read from
                                      `y_t = C x_t + D u_t` — the report `C12_sample_circuit` proves to solve the circuit.

  A getter that stops calling its row accessor, wraps it (try/except, default), flips the sign, transposes, uses only
  `C`, passes another argument, or a `get_power` that multiplies other series: the translator refuses or the
  generated table changes and `C19_transient_table_shape` (on which everything here rests) no longer compiles.
  NOT covered: what `__post_init__` stores in `_x`, `_u`, `_tout` (solver call, order of `_u`: model `transientU` +
  correspondence `ss_transient`, property C12) — `X`, `U` are arbitrary here; numpy shape errors; the binding of
  accessor names to generated functions (`ssmAccessor`) and the evaluator are hand-written (they are the reading of
  the table, documented in CC/Model/TransientGetters.lean).
-/
import CC.Model.TransientGetters
import CC.Properties.C19More
import CC.Properties.C10Rows
import CC.Properties.C10Gen
import CC.Properties.C12
import CC.Properties.C05Gen
set_option linter.unusedSimpArgs false
set_option linter.unusedSectionVars false
set_option linter.unusedVariables false
namespace CC
open Gen Gen.Core Gen.State Gen.Sol

/-- **the generated getter table, literally.**  Whatever `Circuit/solution.py` says, the translator's output is
compared here with the four rows the other theorems reason about; `rowOutputExpr c d p` is
`np.reshape(self._ssm.c(p) @ self._x + self._ssm.d(p) @ self._u, (-1,))`.  A changed accessor, argument, sign,
operand order, transpose or a dropped `D` term in any getter changes the left-hand side and `decide` fails. -/
theorem C19_transient_table_shape :
    Gen.Sol.transientTable =
      [⟨"get_potential", "node_id", "self._tout", rowOutputExpr "c_row_for_potential" "d_row_for_potential" "node_id"⟩,
       ⟨"get_voltage", "component_id", "self._tout", rowOutputExpr "c_row_voltage" "d_row_voltage" "component_id"⟩,
       ⟨"get_current", "component_id", "self._tout", rowOutputExpr "c_row_current" "d_row_current" "component_id"⟩,
       ⟨"get_power", "component_id", "self._tout",
         .mul (.series "get_voltage" "component_id") (.series "get_current" "component_id")⟩] := by
  decide

/-- **C19 (the transient getters call the rows), quantified over the rows of the GENERATED table.**  The table has
one row per getter, in the order of the source; for every row: the time axis is `self._tout`; every
`self._ssm.<m>(<a>)` sub-term passes the getter's own parameter (`a = param`: the queried id, unchanged) and `<m>` is one
of the six row accessors (`accessorKind`, for which `C19_transient_accessors_bound` shows a generated function of
CC/Gen/StateSpace.lean is bound) delivering the getter's own quantity; every `self.get_*(<a>)[1]` sub-term passes the
parameter and is the voltage or current getter; a getter other than `get_power` IS `rowOutputExpr c d param` with `c` a
`C`-row and `d` a `D`-row accessor of that quantity; `get_power` IS voltage series `*` current series.
Says nothing about `__post_init__` (what `_x`, `_u`, `_tout` hold). -/
theorem C19_transient_getters_call_rows :
    Gen.Sol.transientTable.map (·.getter) = ["get_potential", "get_voltage", "get_current", "get_power"] ∧
    (∀ r ∈ Gen.Sol.transientTable, r.time = "self._tout" ∧
      (∀ c ∈ ssmCalls r.value, c.2 = r.param ∧ (accessorKind c.1).isSome ∧
        (r.getter ≠ "get_power" → (accessorKind c.1).map (·.2) = some (getterQuantity r.getter))) ∧
      (∀ c ∈ getterCalls r.value, c.2 = r.param ∧ c.1 ∈ ["get_voltage", "get_current"]) ∧
      (r.getter ≠ "get_power" → ∃ c d, r.value = rowOutputExpr c d r.param ∧
        accessorKind c = some ("C", getterQuantity r.getter) ∧ accessorKind d = some ("D", getterQuantity r.getter)) ∧
      (r.getter = "get_power" → r.value = .mul (.series "get_voltage" r.param) (.series "get_current" r.param))) := by
  refine ⟨by decide, ?_⟩
  intro r hr
  rw [C19_transient_table_shape] at hr
  simp only [List.mem_cons, List.not_mem_nil, or_false] at hr
  rcases hr with rfl | rfl | rfl | rfl
  · exact ⟨rfl, by decide, by decide, fun _ => ⟨_, _, rfl, by decide, by decide⟩, fun h => absurd h (by decide)⟩
  · exact ⟨rfl, by decide, by decide, fun _ => ⟨_, _, rfl, by decide, by decide⟩, fun h => absurd h (by decide)⟩
  · exact ⟨rfl, by decide, by decide, fun _ => ⟨_, _, rfl, by decide, by decide⟩, fun h => absurd h (by decide)⟩
  · exact ⟨rfl, by decide, by decide, fun h => absurd rfl h, fun _ => rfl⟩


section
variable {K : Type} [Zero K] [One K] [Add K] [Mul K] [Neg K] [Sub K] [Inv K] [Div K] [DecidableEq K]

/-- a name has a generated function bound to it (`ssmAccessor`, the hand-written name binding) exactly when
`accessorKind` knows it -/
theorem C19_transient_accessors_bound (g : NodalStateSpaceModel String K) (name : String) :
    (ssmAccessor g name).isSome = (accessorKind name).isSome := by
  unfold ssmAccessor accessorKind
  repeat' split
  all_goals rfl

theorem bindParam_self (p id : String) : bindParam p id p = .ok id := by simp [bindParam]

/-- ANY table row of shape `rowOutputExpr c d param` is read as: C-row accessor, then D-row accessor (each with the
queried id), then `reshape(a @ X + b @ U)` — the first exception wins -/
theorem evalGetter_rowOutput (table : List TransientRow) (g : NodalStateSpaceModel String K) (X U : Py.Mat K)
    (fuel : Nat) (name id : String) (r : TransientRow) (c d : String)
    (hf : table.find? (fun r => r.getter == name) = some r) (hv : r.value = rowOutputExpr c d r.param) :
    evalGetter table g X U (fuel + 1) name id = rowOutputValue g X U c d id := by
  simp only [evalGetter, hf, hv, rowOutputExpr, evalT, bindParam_self, rowOutputValue]
  cases h1 : callSsm g c id with
  | error e => simp [bind, Except.bind, h1]
  | ok a =>
    cases h2 : TVal.matmul (TVal.ofArr a) (.mat X) with
    | error e => simp [bind, Except.bind, pure, Except.pure, h1, h2]
    | ok va =>
      cases h3 : callSsm g d id with
      | error e => simp [bind, Except.bind, pure, Except.pure, h1, h2, h3]
      | ok b =>
        cases h4 : TVal.matmul (TVal.ofArr b) (.mat U) with
        | error e => simp [bind, Except.bind, pure, Except.pure, h1, h2, h3, h4]
        | ok vb => simp [bind, Except.bind, pure, Except.pure, h1, h2, h3, h4]

theorem transientTable_find_potential : Gen.Sol.transientTable.find? (fun r => r.getter == "get_potential")
    = some ⟨"get_potential", "node_id", "self._tout", rowOutputExpr "c_row_for_potential" "d_row_for_potential" "node_id"⟩ := by
  decide
theorem transientTable_find_voltage : Gen.Sol.transientTable.find? (fun r => r.getter == "get_voltage")
    = some ⟨"get_voltage", "component_id", "self._tout", rowOutputExpr "c_row_voltage" "d_row_voltage" "component_id"⟩ := by
  decide
theorem transientTable_find_current : Gen.Sol.transientTable.find? (fun r => r.getter == "get_current")
    = some ⟨"get_current", "component_id", "self._tout", rowOutputExpr "c_row_current" "d_row_current" "component_id"⟩ := by
  decide
theorem transientTable_find_power : Gen.Sol.transientTable.find? (fun r => r.getter == "get_power")
    = some ⟨"get_power", "component_id", "self._tout",
        .mul (.series "get_voltage" "component_id") (.series "get_current" "component_id")⟩ := by
  decide

theorem callSsm_names (g : NodalStateSpaceModel String K) (id : String) :
    callSsm g "c_row_for_potential" id = NodalStateSpaceModel.c_row_for_potential g id ∧
    callSsm g "d_row_for_potential" id = NodalStateSpaceModel.d_row_for_potential g id ∧
    callSsm g "c_row_voltage" id = NodalStateSpaceModel.c_row_voltage g id ∧
    callSsm g "d_row_voltage" id = NodalStateSpaceModel.d_row_voltage g id ∧
    callSsm g "c_row_current" id = NodalStateSpaceModel.c_row_current g id ∧
    callSsm g "d_row_current" id = NodalStateSpaceModel.d_row_current g id := by
  refine ⟨?_, ?_, ?_, ?_, ?_, ?_⟩ <;> simp [callSsm, ssmAccessor]

/-- the three row getters, for every fuel ≥ 1, are "C-row accessor, D-row accessor, combine" -/
theorem transientGetter_rows (g : NodalStateSpaceModel String K) (X U : Py.Mat K) (fuel : Nat) (id : String) :
    evalGetter Gen.Sol.transientTable g X U (fuel + 1) "get_potential" id
      = rowOutputValue g X U "c_row_for_potential" "d_row_for_potential" id ∧
    evalGetter Gen.Sol.transientTable g X U (fuel + 1) "get_voltage" id
      = rowOutputValue g X U "c_row_voltage" "d_row_voltage" id ∧
    evalGetter Gen.Sol.transientTable g X U (fuel + 1) "get_current" id
      = rowOutputValue g X U "c_row_current" "d_row_current" id :=
  ⟨evalGetter_rowOutput _ g X U fuel _ id _ _ _ transientTable_find_potential rfl,
   evalGetter_rowOutput _ g X U fuel _ id _ _ _ transientTable_find_voltage rfl,
   evalGetter_rowOutput _ g X U fuel _ id _ _ _ transientTable_find_current rfl⟩

/-- `get_power`: the voltage getter, then the current getter, then the elementwise product -/
theorem transientGetter_power (g : NodalStateSpaceModel String K) (X U : Py.Mat K) (id : String) :
    transientGetter g X U "get_power" id = (do
      let v ← transientGetter g X U "get_voltage" id
      let i ← transientGetter g X U "get_current" id
      pure (TVal.zipOp (· * ·) v i)) := by
  have hv := (transientGetter_rows g X U 0 id).2.1
  have hi := (transientGetter_rows g X U 0 id).2.2
  have hv1 := (transientGetter_rows g X U 1 id).2.1
  have hi1 := (transientGetter_rows g X U 1 id).2.2
  unfold transientGetter
  rw [hv1, hi1, ← hv, ← hi]
  conv => lhs; unfold evalGetter
  simp only [transientTable_find_power, evalT, bindParam_self]
  rfl

theorem rowOutputValue_error_c (g : NodalStateSpaceModel String K) (X U : Py.Mat K) (c d id : String) (e : Err)
    (h : callSsm g c id = .error e) : rowOutputValue g X U c d id = .error e := by
  simp [rowOutputValue, h, bind, Except.bind]

/-- **C19 (unknown query, the getters of `TransientSolution`).**  `transientGetter g X U name id` is the getter `name`
of the GENERATED table evaluated on the model object `g = self._ssm` and arbitrary `X = self._x`, `U = self._u`.  For
every such object and arrays: `get_potential` of a label that is neither a mapped node nor the reference raises
`KeyError`; `get_voltage` and `get_power` of an id that is no branch raise `KeyError` (the exception of
`c_row_voltage`, evaluated first; `get_power` evaluates the voltage getter first); `get_current` of an id that is no
branch, capacitor key or mapped source raises (the exception of `c_row_current`).  No default value, no empty series.
Through `C19_transient_unknown_voltage / _potential / _current` (about the generated accessors) and the generated
table.  Hypotheses: only "the id is unknown".  Not claimed: that the exception class the CODE shows is `KeyError`
rather than numpy's `IndexError` (both carry the `KeyError` tag in the model). -/
theorem C19_transient_unknown_getter (g : NodalStateSpaceModel String K) (X U : Py.Mat K) :
    (∀ n : String, n ∉ g.node_index_mapping.keys → n ≠ g.network.zero →
      transientGetter g X U "get_potential" n = .error .keyError) ∧
    (∀ id : String, id ∉ g.network.ids → transientGetter g X U "get_voltage" id = .error .keyError) ∧
    (∀ id : String, id ∉ g.network.ids → id ∉ (g.c_values).keys → id ∉ g.voltage_source_index_mapping.keys →
      id ∉ g.current_source_index_mapping.keys → ∃ e, transientGetter g X U "get_current" id = .error e) ∧
    (∀ id : String, id ∉ g.network.ids → transientGetter g X U "get_power" id = .error .keyError) := by
  have hV : ∀ id : String, id ∉ g.network.ids → transientGetter g X U "get_voltage" id = .error .keyError := by
    intro id h
    unfold transientGetter
    rw [(transientGetter_rows g X U 1 id).2.1]
    exact rowOutputValue_error_c g X U _ _ id _
      ((callSsm_names g id).2.2.1.trans (C19_transient_unknown_voltage g id h).1)
  refine ⟨?_, hV, ?_, ?_⟩
  · intro n h hz
    unfold transientGetter
    rw [(transientGetter_rows g X U 1 n).1]
    exact rowOutputValue_error_c g X U _ _ n _
      ((callSsm_names g n).1.trans (C19_transient_unknown_potential g n h hz).1)
  · intro id h hc hv hs
    obtain ⟨e, he⟩ := (C19_transient_unknown_current g id h hc hv hs).1
    refine ⟨e, ?_⟩
    unfold transientGetter
    rw [(transientGetter_rows g X U 1 id).2.2]
    exact rowOutputValue_error_c g X U _ _ id _ ((callSsm_names g id).2.2.2.2.1.trans he)
  · intro id h
    rw [transientGetter_power, hV id h]
    rfl

/-- **… for the object the code builds.**  For `g = nodal_state_space_model(N, c_values, l_values)` (generated; the
constructor the generated `transientSsm` records for `self._ssm`): every getter raises for an id that is no branch of
`N` (current: and no capacitor key; potential: a label no branch touches, other than the reference).  Hypothesis
left: the model was built (`hg`). -/
theorem C19_transient_unknown_getter_built (inv : Py.Mat K → Py.Mat K) (re : K → K) (N : Net String K)
    (cv lv : ValDict K) (g : NodalStateSpaceModel String K) (hg : nodal_state_space_model inv re N cv lv = .ok g)
    (X U : Py.Mat K) :
    (∀ n : String, n ≠ N.zero → (∀ b ∈ N.branches, b.n1 ≠ n ∧ b.n2 ≠ n) →
      transientGetter g X U "get_potential" n = .error .keyError) ∧
    (∀ id : String, id ∉ N.ids → transientGetter g X U "get_voltage" id = .error .keyError) ∧
    (∀ id : String, id ∉ N.ids → id ∉ cv.keys → ∃ e, transientGetter g X U "get_current" id = .error e) ∧
    (∀ id : String, id ∉ N.ids → transientGetter g X U "get_power" id = .error .keyError) := by
  obtain ⟨hv, hc, hp⟩ := C19_transient_unknown_built inv re N cv lv g hg
  have hV : ∀ id : String, id ∉ N.ids → transientGetter g X U "get_voltage" id = .error .keyError := by
    intro id h
    unfold transientGetter
    rw [(transientGetter_rows g X U 1 id).2.1]
    exact rowOutputValue_error_c g X U _ _ id _ ((callSsm_names g id).2.2.1.trans (hv id h).1)
  refine ⟨?_, hV, ?_, ?_⟩
  · intro n hz hb
    unfold transientGetter
    rw [(transientGetter_rows g X U 1 n).1]
    exact rowOutputValue_error_c g X U _ _ n _ ((callSsm_names g n).1.trans (hp n hz hb).1)
  · intro id h hcv
    obtain ⟨e, he⟩ := (hc id h hcv).1
    refine ⟨e, ?_⟩
    unfold transientGetter
    rw [(transientGetter_rows g X U 1 id).2.2]
    exact rowOutputValue_error_c g X U _ _ id _ ((callSsm_names g id).2.2.2.2.1.trans he)
  · intro id h
    rw [transientGetter_power, hV id h]
    rfl

end

/-! ## C12: the value a getter returns is the row output, sample by sample -/

section
variable {K : Type} [Field K] [DecidableEq K]

theorem rowTimes_add (rc rd : List K) (X U : Py.Mat K) (hT : U.ncols = X.ncols) :
    List.zipWith (· + ·) (rowTimes rc X) (rowTimes rd U) = transientOutput X.ncols rc rd X.rows U.rows := by
  simp [rowTimes, transientOutput, hT, List.zipWith_map, List.zipWith_self]

/-- two accessor results that are one row each (1-d, or 2-d `1×n`), combined as the getters combine them -/
theorem rowOutput_combine (a b : Py.Arr K) (rc rd : List K) (X U : Py.Mat K) (hT : U.ncols = X.ncols)
    (ha : a.toRows = [rc]) (hb : b.toRows = [rd]) :
    (do let va ← TVal.matmul (TVal.ofArr a) (.mat X)
        let vb ← TVal.matmul (TVal.ofArr b) (.mat U)
        pure (TVal.flatten (TVal.zipOp (· + ·) va vb)) : Except Err (TVal K))
      = .ok (.vec (transientOutput X.ncols rc rd X.rows U.rows)) := by
  rw [← rowTimes_add rc rd X U hT]
  cases a with
  | vec v =>
    cases b with
    | vec w =>
      simp only [Py.Arr.toRows, List.cons.injEq, and_true] at ha hb
      subst ha; subst hb
      rfl
    | mat rows =>
      simp only [Py.Arr.toRows, List.cons.injEq, and_true] at ha hb
      subst ha; subst hb
      simp [TVal.ofArr, TVal.matmul, TVal.zipOp, TVal.flatten, bind, Except.bind, pure, Except.pure]
  | mat rows =>
    cases b with
    | vec w =>
      simp only [Py.Arr.toRows, List.cons.injEq, and_true] at ha hb
      subst ha; subst hb
      simp [TVal.ofArr, TVal.matmul, TVal.zipOp, TVal.flatten, bind, Except.bind, pure, Except.pure]
    | mat rows2 =>
      simp only [Py.Arr.toRows] at ha hb
      subst ha; subst hb
      simp [TVal.ofArr, TVal.matmul, TVal.zipOp, TVal.flatten, bind, Except.bind, pure, Except.pure]

theorem rowOutputValue_ok (g : NodalStateSpaceModel String K) (X U : Py.Mat K) (hT : U.ncols = X.ncols)
    (c d id : String) (a b : Py.Arr K) (rc rd : List K)
    (hc : callSsm g c id = .ok a) (hd : callSsm g d id = .ok b) (ha : a.toRows = [rc]) (hb : b.toRows = [rd]) :
    rowOutputValue g X U c d id = .ok (.vec (transientOutput X.ncols rc rd X.rows U.rows)) := by
  rw [← rowOutput_combine a b rc rd X U hT ha hb]
  unfold rowOutputValue
  cases h1 : TVal.matmul (TVal.ofArr a) (.mat X) with
  | error e => simp [bind, Except.bind, hc, hd, h1]
  | ok va => simp [bind, Except.bind, hc, hd, h1]

theorem bind_toRows_ok {x : Except Err (Py.Arr K)} {r : List K}
    (h : (do let a ← x; pure a.toRows : Except Err (List (List K))) = .ok [r]) :
    ∃ a, x = .ok a ∧ a.toRows = [r] := by
  cases x with
  | error e => simp [bind, Except.bind] at h
  | ok a =>
    simp only [bind, Except.bind, pure, Except.pure, Except.ok.injEq] at h
    exact ⟨a, rfl, h⟩

/-- **C12 (the getters return the row output).**  `g` the generated model object, `m` the hand-written one the C10 /
C12 theorems are about, `SSRel g m` (they describe the same model: `C10_gen_rel` for every object the builder
returns), `X = self._x`, `U = self._u` with the same number of samples.  Whenever the hand-written rows exist, the
getter of the GENERATED table returns the 1-d series `transientOutput` — whose sample `t` is
`dot(c_row, x_t) + dot(d_row, u_t)` (last conjunct; `x_t`, `u_t` = column `t`) — for potential, voltage and current
(1-d or `1×n` rows, all four combinations), and `get_power` returns the generated `tr_get_power` (elementwise
product) of the voltage and current series.  Hypotheses: `SSRel`, distinct branch ids, `U.ncols = X.ncols`.
Not claimed: numpy's error for mismatched shapes. -/
theorem C12_getter_is_row_output {g : NodalStateSpaceModel String K} {m : NSSM String K} (h : SSRel g m)
    (hids : m.net.ids.Nodup) (X U : Py.Mat K) (hT : U.ncols = X.ncols) :
    (∀ (n : String) (rc rd : List K), m.cRowPotential n = .ok rc → m.dRowPotential n = .ok rd →
      transientGetter g X U "get_potential" n = .ok (.vec (transientOutput X.ncols rc rd X.rows U.rows))) ∧
    (∀ (id : String) (rc rd : List K), m.cRowVoltage id = .ok rc → m.dRowVoltage id = .ok rd →
      transientGetter g X U "get_voltage" id = .ok (.vec (transientOutput X.ncols rc rd X.rows U.rows))) ∧
    (∀ (id : String) (rc rd : List K), m.cRowCurrent id = .ok rc → m.dRowCurrent id = .ok rd →
      transientGetter g X U "get_current" id = .ok (.vec (transientOutput X.ncols rc rd X.rows U.rows))) ∧
    (∀ (id : String) (vser iser : List K), transientGetter g X U "get_voltage" id = .ok (.vec vser) →
      transientGetter g X U "get_current" id = .ok (.vec iser) →
      transientGetter g X U "get_power" id = .ok (.vec (Gen.Sol.tr_get_power vser iser))) ∧
    (∀ (rc rd : List K) (t : Nat), t < X.ncols →
      (transientOutput X.ncols rc rd X.rows U.rows).getD t 0
        = dotL rc (sampleCol X.rows t) + dotL rd (sampleCol U.rows t)) := by
  refine ⟨?_, ?_, ?_, ?_, ?_⟩
  · intro n rc rd h1 h2
    unfold transientGetter
    rw [(transientGetter_rows g X U 1 n).1]
    have e := C10_gen_row_potential h n
    rw [h1, h2] at e
    exact rowOutputValue_ok g X U hT _ _ n _ _ rc rd ((callSsm_names g n).1.trans e.1)
      ((callSsm_names g n).2.1.trans e.2) rfl rfl
  · intro id rc rd h1 h2
    unfold transientGetter
    rw [(transientGetter_rows g X U 1 id).2.1]
    have e := C10_gen_row_voltage h id
    rw [h1, h2] at e
    exact rowOutputValue_ok g X U hT _ _ id _ _ rc rd ((callSsm_names g id).2.2.1.trans e.1)
      ((callSsm_names g id).2.2.2.1.trans e.2) rfl rfl
  · intro id rc rd h1 h2
    unfold transientGetter
    rw [(transientGetter_rows g X U 1 id).2.2]
    have e := C10_gen_row_current h hids id
    rw [h1, h2] at e
    obtain ⟨a, ha, ha'⟩ := bind_toRows_ok e.1
    obtain ⟨b, hb, hb'⟩ := bind_toRows_ok e.2
    exact rowOutputValue_ok g X U hT _ _ id a b rc rd ((callSsm_names g id).2.2.2.2.1.trans ha)
      ((callSsm_names g id).2.2.2.2.2.trans hb) ha' hb'
  · intro id vser iser hv hi
    rw [transientGetter_power, hv, hi]
    rfl
  · intro rc rd t ht
    exact C12_output_sample X.ncols rc rd X.rows U.rows t ht

/-- the accessor report of sample `t`: the per-sample network (capacitor `k` ↦ current source `C_k·ẋ_k`, inductor
`k` ↦ voltage source `L_k·ẋ_k`, sources at `u_t`) read from `y_t = C x_t + D u_t`, `ẋ_t = A x_t + B u_t`, where `x_t`,
`u_t` are column `t` of `self._x`, `self._u` — the report `C10_output_rows` / `C12_sample_circuit` speak about -/
def transientSampleReport (N : Net String K) (cvals lvals : ValDict K) (m : NSSM String K) (X U : Py.Mat K)
    (t : Nat) : Report String K :=
  (sampleNet N cvals lvals (ssSources N lvals) (sampleCol U.rows t)
    (Mx.vecAdd (matVec m.mats.A (sampleCol X.rows t)) (matVec m.mats.B (sampleCol U.rows t)))).reportOf
    (Mx.vecAdd (matVec m.mats.C (sampleCol X.rows t)) (matVec m.mats.D (sampleCol U.rows t)))

theorem transientOutput_length (n : Nat) (rc rd : List K) (X U : List (List K)) :
    (transientOutput n rc rd X U).length = n := by simp [transientOutput]

theorem tr_get_power_getD (v i : List K) (t : Nat) (h1 : t < v.length) (h2 : t < i.length) :
    (Gen.Sol.tr_get_power v i).getD t 0 = v.getD t 0 * i.getD t 0 := by
  rw [List.getD_eq_getElem?_getD, (C05_gen_transient_power v i).2 t h1 h2]
  simp [List.getD_eq_getElem?_getD, List.getElem?_eq_getElem h1, List.getElem?_eq_getElem h2]

/-- **C12 (the getters' samples are the report read from `y = C x + D u`).**  For the `w = 0` network of an RLC +
ideal-source circuit, the model built from it (any certificates), the generated object `g` related to it, and ANY
sample arrays `X`, `U` (same number of samples, one row of `U` per published source) — hence for every integrator:
every `get_potential(n)`, `get_voltage(b)`, `get_current(b)`, `get_power(b)` of the GENERATED getter table succeeds
for every node label / branch and returns one value per sample, and sample `t` IS the potential / voltage / current /
`v·i` in `transientSampleReport … t`, the accessor report of the per-sample network read from `y_t = C x_t + D u_t`
(`C10_rows_potential / _voltage / _current`, the conjuncts of `C10_output_rows`).  By `C12_sample_circuit` that report
satisfies KCL, KVL and every element law of the circuit at that sample.  Not claimed: that `X` is the solution of
`ẋ = A x + B u` (lsim is trusted, see the open statements of C12). -/
theorem C12_getter_samples_report {N : Net String K} {cvals lvals : ValDict K} {Ainv S : List (List K)}
    {m : NSSM String K} {g : NodalStateSpaceModel String K}
    (hr : RLC N cvals lvals) (hm : nodalStateSpaceModel N cvals lvals Ainv S = .ok m) (h : SSRel g m)
    (X U : Py.Mat K) (hT : U.ncols = X.ncols) (hU : U.rows.length = ssNInputs N lvals) :
    (∀ n ∈ N.nodeLabels, ∃ ser, transientGetter g X U "get_potential" n = .ok (.vec ser) ∧ ser.length = X.ncols ∧
      ∀ t < X.ncols, ser.getD t 0 = (transientSampleReport N cvals lvals m X U t).pot n) ∧
    (∀ b ∈ N.branches, ∃ ser, transientGetter g X U "get_voltage" b.id = .ok (.vec ser) ∧ ser.length = X.ncols ∧
      ∀ t < X.ncols, ser.getD t 0 = (transientSampleReport N cvals lvals m X U t).v b.id) ∧
    (∀ b ∈ N.branches, ∃ ser, transientGetter g X U "get_current" b.id = .ok (.vec ser) ∧ ser.length = X.ncols ∧
      ∀ t < X.ncols, ser.getD t 0 = (transientSampleReport N cvals lvals m X U t).i b.id) ∧
    (∀ b ∈ N.branches, ∃ ser, transientGetter g X U "get_power" b.id = .ok (.vec ser) ∧
      ∀ t < X.ncols, ser.getD t 0 = (transientSampleReport N cvals lvals m X U t).v b.id
        * (transientSampleReport N cvals lvals m X U t).i b.id) := by
  have hnet : m.net = N := by
    obtain ⟨mats, _, rfl⟩ := rows_model_ok hm
    rfl
  have hids : m.net.ids.Nodup := hnet ▸ hr.wf.ids_nodup
  obtain ⟨gP, gV, gI, gW, _⟩ := C12_getter_is_row_output h hids X U hT
  have hlen : ∀ t, (sampleCol U.rows t).length = ssNInputs N lvals := by
    intro t; simp [sampleCol, hU]
  have hV : ∀ b ∈ N.branches, ∃ ser, transientGetter g X U "get_voltage" b.id = .ok (.vec ser) ∧ ser.length = X.ncols ∧
      ∀ t < X.ncols, ser.getD t 0 = (transientSampleReport N cvals lvals m X U t).v b.id := by
    intro b hb
    obtain ⟨rc, rd, h1, h2, _⟩ := C10_rows_voltage hr.wf.ids_nodup hm [] [] b hb
    refine ⟨_, gV b.id rc rd h1 h2, transientOutput_length _ _ _ _ _, ?_⟩
    intro t ht
    obtain ⟨rc', rd', h1', h2', e⟩ := C10_rows_voltage hr.wf.ids_nodup hm (sampleCol X.rows t) (sampleCol U.rows t) b hb
    rw [h1] at h1'; rw [h2] at h2'
    cases h1'; cases h2'
    rw [C12_output_sample _ _ _ _ _ t ht, e]
    rfl
  have hI : ∀ b ∈ N.branches, ∃ ser, transientGetter g X U "get_current" b.id = .ok (.vec ser) ∧ ser.length = X.ncols ∧
      ∀ t < X.ncols, ser.getD t 0 = (transientSampleReport N cvals lvals m X U t).i b.id := by
    intro b hb
    obtain ⟨rc, rd, h1, h2, _⟩ := C10_rows_current hr hm [] (sampleCol U.rows 0) (hlen 0) b hb
    refine ⟨_, gI b.id rc rd h1 h2, transientOutput_length _ _ _ _ _, ?_⟩
    intro t ht
    obtain ⟨rc', rd', h1', h2', e⟩ := C10_rows_current hr hm (sampleCol X.rows t) (sampleCol U.rows t) (hlen t) b hb
    rw [h1] at h1'; rw [h2] at h2'
    cases h1'; cases h2'
    rw [C12_output_sample _ _ _ _ _ t ht, e]
    rfl
  refine ⟨?_, hV, hI, ?_⟩
  · intro n hn
    obtain ⟨rc, rd, h1, h2, _⟩ := C10_rows_potential hm [] [] n hn
    refine ⟨_, gP n rc rd h1 h2, transientOutput_length _ _ _ _ _, ?_⟩
    intro t ht
    obtain ⟨rc', rd', h1', h2', e⟩ := C10_rows_potential hm (sampleCol X.rows t) (sampleCol U.rows t) n hn
    rw [h1] at h1'; rw [h2] at h2'
    cases h1'; cases h2'
    rw [C12_output_sample _ _ _ _ _ t ht, e]
    rfl
  · intro b hb
    obtain ⟨vs, hv, hvl, hvt⟩ := hV b hb
    obtain ⟨is_, hi, hil, hit⟩ := hI b hb
    refine ⟨_, gW b.id vs is_ hv hi, ?_⟩
    intro t ht
    rw [tr_get_power_getD vs is_ t (hvl ▸ ht) (hil ▸ ht), hvt t ht, hit t ht]

end

/-! ## non-vacuity -/

/-- an unknown id against a model object: the hypotheses of `C19_transient_unknown_getter` (voltage / power) -/
example : transientGetter (K := Rat)
    ⟨⟨0, 0, []⟩, ⟨0, 0, []⟩, ⟨0, 0, []⟩, ⟨0, 0, []⟩, ⟨[⟨"1", "0", "R", "", .norton 1 0⟩], "0"⟩, [], [], ⟨["1"]⟩, ⟨[]⟩, ⟨[]⟩⟩
    ⟨0, 3, []⟩ ⟨0, 3, []⟩ "get_power" "nope" = .error .keyError :=
  (C19_transient_unknown_getter _ _ _).2.2.2 "nope" (by decide)

/-- the series circuit `V(1,0) – R=1 (1,2) – C=1 (2,0)` of CC/Properties/C10Rows.lean, its generated model object
`ssToGen …`, two samples `x = (2, 3)`, `u = (3, 1)`: every hypothesis of `C12_getter_samples_report` /
`C12_getter_is_row_output` is met -/
example : ∃ (m : NSSM String ℚ) (g : NodalStateSpaceModel String ℚ) (X U : Py.Mat ℚ),
    RLC netRC [("C", 1)] [] ∧ nodalStateSpaceModel netRC [("C", 1)] [] rcAinv rcS = .ok m ∧ SSRel g m ∧
    m.net.ids.Nodup ∧ U.ncols = X.ncols ∧ U.rows.length = ssNInputs netRC [] ∧ 0 < X.ncols :=
  ⟨_, ssToGen netRC [("C", 1)] [] _, ⟨1, 2, [[2, 3]]⟩, ⟨1, 2, [[3, 1]]⟩, netRC_rlc, netRC_model,
    C10_gen_rel netRC netRC_rlc.wf.ids_nodup [("C", 1)] [] rcAinv rcS _ netRC_mats, netRC_rlc.wf.ids_nodup, rfl,
    by simp [ssNInputs, netRC_colsS], by decide⟩

/-- … and there the getter of the generated table, evaluated: the resistor voltage is `−x + u` per sample,
`(−2 + 3, −3 + 1) = (1, −2)` -/
example : transientGetter (ssToGen netRC [("C", 1)] [] ⟨[[-1]], [[1]], [[0], [1], [1]], [[1], [0], [-1]]⟩)
    (⟨1, 2, [[2, 3]]⟩ : Py.Mat ℚ) ⟨1, 2, [[3, 1]]⟩ "get_voltage" "R" = .ok (.vec [1, -2]) := by
  have hrel := C10_gen_rel netRC netRC_rlc.wf.ids_nodup [("C", 1)] [] rcAinv rcS _ netRC_mats
  have hrows : (⟨⟨[[-1]], [[1]], [[0], [1], [1]], [[1], [0], [-1]]⟩, netRC, [("C", 1)], []⟩ : NSSM String ℚ).cRowVoltage "R" = .ok [-1]
      ∧ (⟨⟨[[-1]], [[1]], [[0], [1], [1]], [[1], [0], [-1]]⟩, netRC, [("C", 1)], []⟩ : NSSM String ℚ).dRowVoltage "R" = .ok [1] := by
    constructor
    · simp [NSSM.cRowVoltage, netRC_getR, NSSM.cRowPotential, NSSM.rowForPotential, netRC_nodes, idxOf?, Mx.vecSub,
        bind, Except.bind, pure, Except.pure]
    · simp [NSSM.dRowVoltage, netRC_getR, NSSM.dRowPotential, NSSM.rowForPotential, netRC_nodes, idxOf?, Mx.vecSub,
        bind, Except.bind, pure, Except.pure]
  rw [(C12_getter_is_row_output hrel netRC_rlc.wf.ids_nodup ⟨1, 2, [[2, 3]]⟩ ⟨1, 2, [[3, 1]]⟩ rfl).2.1 "R" [-1] [1]
    hrows.1 hrows.2]
  simp [transientOutput, dotL, sampleCol, List.range_succ]
  norm_num

end CC
