/-
  Property C03 — results are independent of names, listing order, reference node and
  terminal order.

  Approach: the Spec `CircuitEqs` is invariant under each transformation (theorems below,
  any network, any field, any injective renaming, any permutation, any subset of reversed
  branches, any new reference node); C01 says the code reports a solution of the Spec and,
  for well-posed networks, the Spec has exactly one solution (`C01_unique`).  Hence the
  reported quantities of a transformed description are the transformed quantities.
-/
import CC.Proofs.SpecLemmas
import CC.Properties.C16
import CC.Properties.C01
set_option linter.unusedSectionVars false

namespace CC
variable {L L' K : Type} [DecidableEq L] [DecidableEq L'] [Field K] [DecidableEq K]

/-- **C03 (listing order).** -/
theorem C03_perm (N N' : Net L K) (hz : N.zero = N'.zero) (hp : N.branches.Perm N'.branches)
    (R : Report L K) : CircuitEqs N R ↔ CircuitEqs N' R :=
  circuitEqs_perm N N' hz hp R

/-! ### renaming of nodes and elements -/

def Branch.rename (σ : L → L') (τ : String → String) (b : Branch L K) : Branch L' K :=
  { n1 := σ b.n1, n2 := σ b.n2, id := τ b.id, ty := b.ty, e := b.e }

def Net.rename (σ : L → L') (τ : String → String) (N : Net L K) : Net L' K :=
  { branches := N.branches.map (Branch.rename σ τ), zero := σ N.zero }

/-- the report of the renamed network, read through the renaming -/
def Report.comap (σ : L → L') (τ : String → String) (R' : Report L' K) : Report L K :=
  { pot := fun n => R'.pot (σ n), v := fun id => R'.v (τ id), i := fun id => R'.i (τ id) }

theorem incidence_rename (σ : L → L') (hσ : Function.Injective σ) (τ : String → String)
    (b : Branch L K) (n : L) : incidence (b.rename σ τ) (σ n) = incidence b n := by
  unfold incidence Branch.rename
  simp [hσ.eq_iff]

/-- **C03 (renaming).**  For every injective renaming `σ` of node labels and any renaming `τ`
of identifiers, a report solves the renamed network iff, read through the renaming, it
solves the original one. -/
theorem C03_rename (σ : L → L') (hσ : Function.Injective σ) (τ : String → String)
    (N : Net L K) (R' : Report L' K) :
    CircuitEqs (N.rename σ τ) R' ↔ CircuitEqs N (R'.comap σ τ) := by
  have hk : ∀ n, kclResidual (N.rename σ τ) R' (σ n) = kclResidual N (R'.comap σ τ) n := by
    intro n
    unfold kclResidual Net.rename
    simp only [List.map_map]
    apply congrArg; apply List.map_congr_left
    intro b _
    simp only [Function.comp_apply, incidence_rename σ hσ τ b n]
    rfl
  constructor
  · intro h
    refine ⟨h.ref_zero, ?_, ?_, ?_⟩
    · intro b hb
      exact h.volt (b.rename σ τ) (List.mem_map.mpr ⟨b, hb, rfl⟩)
    · intro b hb
      exact h.law (b.rename σ τ) (List.mem_map.mpr ⟨b, hb, rfl⟩)
    · intro n _
      rw [← hk]; exact h.kcl_all (σ n)
  · intro h
    refine ⟨h.ref_zero, ?_, ?_, ?_⟩
    · intro b' hb'
      obtain ⟨b, hb, rfl⟩ := List.mem_map.mp hb'
      exact h.volt b hb
    · intro b' hb'
      obtain ⟨b, hb, rfl⟩ := List.mem_map.mp hb'
      exact h.law b hb
    · intro n' hn'
      have : ∃ n, σ n = n' := by
        unfold Net.allLabels Net.rename at hn'
        simp only [List.map_map, List.mem_cons, List.mem_append, List.mem_map, Function.comp_apply] at hn'
        rcases hn' with rfl | ⟨b, _, rfl⟩ | ⟨b, _, rfl⟩
        · exact ⟨N.zero, rfl⟩
        · exact ⟨b.n1, rfl⟩
        · exact ⟨b.n2, rfl⟩
      obtain ⟨n, rfl⟩ := this
      rw [hk]; exact h.kcl_all n

/-! ### reversing the terminal order of a subset of branches -/

/-- the record seen from the other terminal: same immittance, source value negated -/
def Elem.reversed : Elem K → Elem K
  | .norton Z V => .norton Z (-V)
  | .thevenin Y I => .thevenin Y (-I)

def Branch.flip (f : String → Bool) (b : Branch L K) : Branch L K :=
  if f b.id then { b with n1 := b.n2, n2 := b.n1, e := b.e.reversed } else b

def Net.flip (f : String → Bool) (N : Net L K) : Net L K :=
  { N with branches := N.branches.map (Branch.flip f) }

def Report.flip (f : String → Bool) (R : Report L K) : Report L K :=
  { pot := R.pot, v := fun id => if f id then -R.v id else R.v id,
    i := fun id => if f id then -R.i id else R.i id }

theorem lawResidual_reversed (e : Elem K) (v i : K) :
    e.reversed.lawResidual (-v) (-i) = -e.lawResidual v i := by
  cases e with
  | norton Z V =>
    by_cases hZ : Z = 0 <;> by_cases hV : V = 0 <;> simp [Elem.reversed, Elem.lawResidual, hZ, hV] <;> ring
  | thevenin Y I =>
    by_cases hY : Y = 0 <;> by_cases hI : I = 0 <;> simp [Elem.reversed, Elem.lawResidual, hY, hI] <;> ring

theorem isLossy_reversed (e : Elem K) : e.reversed.isLossy = e.isLossy := by
  cases e with
  | norton Z V => by_cases hZ : Z = 0 <;> by_cases hV : V = 0 <;> simp [Elem.reversed, Elem.isLossy, Elem.kind, hZ, hV]
  | thevenin Y I => by_cases hY : Y = 0 <;> by_cases hI : I = 0 <;> simp [Elem.reversed, Elem.isLossy, Elem.kind, hY, hI]

/-- **C03 (terminal order).**  Reversing the terminals of any subset of branches and
negating their source values negates exactly those branches' own voltage and current and
changes nothing else. -/
theorem C03_reverse (f : String → Bool) (N : Net L K) (R : Report L K) (h : CircuitEqs N R) :
    CircuitEqs (N.flip f) (R.flip f) := by
  refine ⟨h.ref_zero, ?_, ?_, ?_⟩
  · intro b' hb'
    obtain ⟨b, hb, rfl⟩ := List.mem_map.mp hb'
    have := h.volt b hb
    unfold voltResidual at this ⊢
    unfold Branch.flip Report.flip
    by_cases hf : f b.id = true
    · simp only [hf, if_true]; linear_combination -this
    · simp only [hf, Bool.false_eq_true, if_false]; exact this
  · intro b' hb'
    obtain ⟨b, hb, rfl⟩ := List.mem_map.mp hb'
    have := h.law b hb
    unfold Branch.flip Report.flip
    by_cases hf : f b.id = true
    · simp only [hf, if_true]; rw [lawResidual_reversed, this, neg_zero]
    · simp only [hf, Bool.false_eq_true, if_false]; exact this
  · intro n _
    have := h.kcl_all n
    unfold kclResidual at this ⊢
    rw [← this]
    unfold Net.flip
    simp only [List.map_map]
    apply congrArg; apply List.map_congr_left
    intro b _
    simp only [Function.comp_apply]
    unfold Branch.flip Report.flip
    by_cases hf : f b.id = true
    · simp only [hf, if_true, incidence, Elem.physCurrent, isLossy_reversed]
      by_cases hl : b.e.isLossy = true <;> simp [hl] <;> ring
    · simp only [hf, Bool.false_eq_true, if_false]

/-- **C03 (reference node).**  Choosing a different reference node shifts all potentials by
one common constant and changes nothing else. -/
theorem C03_reref [LabelOrd L] (N N' : Net L K) (g : L) (R : Report L K)
    (hr : switchGround N g = .ok N') (h : CircuitEqs N R) :
    CircuitEqs N' (R.shift (R.pot g)) ∧ N'.branches = N.branches ∧ N'.zero = g :=
  C16_switch_ground N N' g R hr h

end CC

/-! ### the same statements about the numbers the code reports

`C01_sound` says the accessors report a solution of the Spec and `C01_reported_is_the_solution`
that a well-posed network has no other; with the invariance theorems above, the reported
quantities of a transformed description are the transformed reported quantities.  `x` and
`x'` are *any* vectors satisfying the two matrix equations (certificates). -/

namespace CC
variable {L K : Type} [DecidableEq L] [LabelOrd L] [Field K] [DecidableEq K]

/-- **C03 (reported values, terminal order).** -/
theorem C03_reported_reverse (f : String → Bool) (N : Net L K) (wf : N.WF) (wf' : (N.flip f).WF)
    (hw' : WellPosed (N.flip f)) (x x' : List K)
    (hx : x.length = N.nodes.length + N.vsIds.length)
    (hx' : x'.length = (N.flip f).nodes.length + (N.flip f).vsIds.length)
    (h : matVec N.mnaA x = N.mnaB) (h' : matVec (N.flip f).mnaA x' = (N.flip f).mnaB) :
    ((N.flip f).reportOf x').AgreeOn (N.flip f) ((N.reportOf x).flip f) :=
  C01_reported_is_the_solution (N.flip f) wf' hw' x' hx' h' _
    (C03_reverse f N _ (C01_sound N x wf hx h).2.2)

/-- **C03 (reported values, listing order).** -/
theorem C03_reported_perm (N N' : Net L K) (hz : N.zero = N'.zero) (hp : N.branches.Perm N'.branches)
    (wf : N.WF) (wf' : N'.WF) (hw' : WellPosed N') (x x' : List K)
    (hx : x.length = N.nodes.length + N.vsIds.length)
    (hx' : x'.length = N'.nodes.length + N'.vsIds.length)
    (h : matVec N.mnaA x = N.mnaB) (h' : matVec N'.mnaA x' = N'.mnaB) :
    (N'.reportOf x').AgreeOn N' (N.reportOf x) :=
  C01_reported_is_the_solution N' wf' hw' x' hx' h' _
    ((C03_perm N N' hz hp _).mp (C01_sound N x wf hx h).2.2)

/-- **C03 (reported values, reference node).** -/
theorem C03_reported_reref (N N' : Net L K) (g : L) (hr : switchGround N g = .ok N')
    (wf : N.WF) (wf' : N'.WF) (hw' : WellPosed N') (x x' : List K)
    (hx : x.length = N.nodes.length + N.vsIds.length)
    (hx' : x'.length = N'.nodes.length + N'.vsIds.length)
    (h : matVec N.mnaA x = N.mnaB) (h' : matVec N'.mnaA x' = N'.mnaB) :
    (N'.reportOf x').AgreeOn N' ((N.reportOf x).shift ((N.reportOf x).pot g)) :=
  C01_reported_is_the_solution N' wf' hw' x' hx' h' _
    (C03_reref N N' g _ hr (C01_sound N x wf hx h).2.2).1

/-- **C03 (reported values, renaming).**  Reading the report of the renamed network back
through the renaming gives the report of the original network. -/
theorem C03_reported_rename {L' : Type} [DecidableEq L'] [LabelOrd L'] (σ : L → L')
    (hσ : Function.Injective σ) (τ : String → String) (N : Net L K) (wf : N.WF) (hw : WellPosed N)
    (wf' : (N.rename σ τ).WF) (x x' : List K)
    (hx : x.length = N.nodes.length + N.vsIds.length)
    (hx' : x'.length = (N.rename σ τ).nodes.length + (N.rename σ τ).vsIds.length)
    (h : matVec N.mnaA x = N.mnaB) (h' : matVec (N.rename σ τ).mnaA x' = (N.rename σ τ).mnaB) :
    (N.reportOf x).AgreeOn N (((N.rename σ τ).reportOf x').comap σ τ) :=
  C01_reported_is_the_solution N wf hw x hx h _
    ((C03_rename σ hσ τ N _).mp (C01_sound (N.rename σ τ) x' wf' hx' h').2.2)

end CC
