/-
  C16 — converse direction for open-circuit removal and element removal of an open branch:
  every solution of the simplified network extends to a solution of the original network that
  agrees with it on everything that survives.  Together with `C16_open` the two networks have
  the same solutions on the surviving part — an electrical identity in both directions, with no
  well-posedness hypothesis.
    Report.withOpens      the extension: an open branch gets current 0 and the voltage n1 − n2
    C16_open_converse     CircuitEqs N' R → CircuitEqs N (R.withOpens N), survivors unchanged
    C16_open_iff          solutions of N restricted to survivors = solutions of N'
-/
import CC.Properties.C16

set_option linter.unusedSectionVars false

namespace CC
variable {L K : Type} [DecidableEq L] [LabelOrd L] [Field K] [DecidableEq K]

/-- extend a report of the simplified network to the removed open branches -/
def Report.withOpens (R : Report L K) (N : Net L K) : Report L K :=
  { pot := R.pot
    v := fun id => match N.get? id with
      | some b => if b.e.isOpen then R.pot b.n1 - R.pot b.n2 else R.v id
      | none => R.v id
    i := fun id => match N.get? id with
      | some b => if b.e.isOpen then 0 else R.i id
      | none => R.i id }

theorem withOpens_v_open (R : Report L K) (N : Net L K) (hid : N.ids.Nodup) {b : Branch L K}
    (hb : b ∈ N.branches) (ho : b.e.isOpen = true) : (R.withOpens N).v b.id = R.pot b.n1 - R.pot b.n2 := by
  simp [Report.withOpens, get?_of_mem N hid hb, ho]

theorem withOpens_i_open (R : Report L K) (N : Net L K) (hid : N.ids.Nodup) {b : Branch L K}
    (hb : b ∈ N.branches) (ho : b.e.isOpen = true) : (R.withOpens N).i b.id = 0 := by
  simp [Report.withOpens, get?_of_mem N hid hb, ho]

theorem withOpens_v_keep (R : Report L K) (N : Net L K) (hid : N.ids.Nodup) {b : Branch L K}
    (hb : b ∈ N.branches) (ho : ¬ b.e.isOpen = true) : (R.withOpens N).v b.id = R.v b.id := by
  simp [Report.withOpens, get?_of_mem N hid hb, ho]

theorem withOpens_i_keep (R : Report L K) (N : Net L K) (hid : N.ids.Nodup) {b : Branch L K}
    (hb : b ∈ N.branches) (ho : ¬ b.e.isOpen = true) : (R.withOpens N).i b.id = R.i b.id := by
  simp [Report.withOpens, get?_of_mem N hid hb, ho]

/-- **C16 (open removal, converse).**  Every solution of the network without its open branches
extends — current 0 and voltage `φ(n1) − φ(n2)` on each removed branch, everything else unchanged —
to a solution of the original network. -/
theorem C16_open_converse (N N' : Net L K) (R : Report L K) (hid : N.ids.Nodup)
    (hr : removeOpen N = .ok N') (h : CircuitEqs N' R) :
    CircuitEqs N (R.withOpens N) ∧
      (∀ n, (R.withOpens N).pot n = R.pot n) ∧
      (∀ b ∈ N'.branches, (R.withOpens N).v b.id = R.v b.id ∧ (R.withOpens N).i b.id = R.i b.id) := by
  have hN' := mk?_ok hr
  subst hN'
  have hA := (circuitEqsAll_iff _ R).mpr h
  refine ⟨?_, fun _ => rfl, ?_⟩
  · rw [← circuitEqsAll_iff]
    refine ⟨hA.ref_zero, ?_, ?_, ?_⟩
    · intro b hb
      by_cases ho : b.e.isOpen = true
      · unfold voltResidual
        rw [withOpens_v_open R N hid hb ho]
        show R.pot b.n1 - R.pot b.n2 - (R.pot b.n1 - R.pot b.n2) = 0
        ring
      · have hb' : b ∈ N.branches.filter (fun b => !b.e.isOpen) :=
          List.mem_filter.mpr ⟨hb, by simpa using ho⟩
        have := hA.volt b hb'
        unfold voltResidual at this ⊢
        rw [withOpens_v_keep R N hid hb ho]
        exact this
    · intro b hb
      by_cases ho : b.e.isOpen = true
      · rw [withOpens_i_open R N hid hb ho]
        cases he : b.e with
        | norton Z V => rw [he] at ho; simp [Elem.isOpen] at ho
        | thevenin Y I =>
          rw [he] at ho
          simp only [Elem.isOpen, Bool.and_eq_true, decide_eq_true_eq] at ho
          simp [Elem.lawResidual, ho.1, ho.2]
      · have hb' : b ∈ N.branches.filter (fun b => !b.e.isOpen) :=
          List.mem_filter.mpr ⟨hb, by simpa using ho⟩
        rw [withOpens_v_keep R N hid hb ho, withOpens_i_keep R N hid hb ho]
        exact hA.law b hb'
    · intro n
      have := hA.kcl n
      unfold kclResidual at this ⊢
      simp only at this ⊢
      rw [sum_filter_eq_sum_ite] at this
      rw [← this]
      apply congrArg; apply List.map_congr_left
      intro b hb
      by_cases ho : b.e.isOpen = true
      · rw [withOpens_i_open R N hid hb ho]
        simp [ho, Elem.physCurrent]
      · rw [withOpens_i_keep R N hid hb ho]
        simp [ho]
  · intro b hb
    have hb' := List.mem_filter.mp hb
    have ho : ¬ b.e.isOpen = true := by simpa using hb'.2
    exact ⟨withOpens_v_keep R N hid hb'.1 ho, withOpens_i_keep R N hid hb'.1 ho⟩

/-- **C16 (open removal is an identity on solutions).**  A report solves the simplified network
iff its extension solves the original one. -/
theorem C16_open_iff (N N' : Net L K) (R : Report L K) (hid : N.ids.Nodup)
    (hr : removeOpen N = .ok N') :
    CircuitEqs N' R ↔ CircuitEqs N (R.withOpens N) := by
  constructor
  · exact fun h => (C16_open_converse N N' R hid hr h).1
  · intro h
    have h1 := (C16_open N N' _ hr h).1
    have hN' := mk?_ok hr
    subst hN'
    -- the extension agrees with R on all survivors, and the equations of N' only read survivors
    rw [← circuitEqsAll_iff] at h1 ⊢
    refine ⟨h1.ref_zero, ?_, ?_, ?_⟩
    · intro b hb
      have hb' := List.mem_filter.mp hb
      have ho : ¬ b.e.isOpen = true := by simpa using hb'.2
      have := h1.volt b hb
      unfold voltResidual at this ⊢
      rw [withOpens_v_keep R N hid hb'.1 ho] at this
      exact this
    · intro b hb
      have hb' := List.mem_filter.mp hb
      have ho : ¬ b.e.isOpen = true := by simpa using hb'.2
      have := h1.law b hb
      rw [withOpens_v_keep R N hid hb'.1 ho, withOpens_i_keep R N hid hb'.1 ho] at this
      exact this
    · intro n
      have := h1.kcl n
      unfold kclResidual at this ⊢
      simp only at this ⊢
      rw [← this]
      apply congrArg; apply List.map_congr_left
      intro b hb
      have hb' := List.mem_filter.mp hb
      have ho : ¬ b.e.isOpen = true := by simpa using hb'.2
      rw [withOpens_i_keep R N hid hb'.1 ho]

end CC
