/-
  Property C12, translator tie — `TransientSolution.__post_init__` (Circuit/solution.py).

  harness/extract_solution.py translates the method statement by statement into the GENERATED tree
  `Gen.Sol.methodTable` (CC/Gen/Solution.lean, rewritten from the source on every run);
  CC/Model/SolutionEval.lean part (B) is the reading of that tree (`evalI`, `transientInit`: `self._ssm` = the generated
  `NodalStateSpaceModel` object, `self.input` = a dict of time functions, `self.solver` = an arbitrary function of
  the record `SolverCall` of its arguments).  Proved here:

    C12_gen_init_shape    the generated tree IS: the `w = 0` network, the two value dictionaries (verbatim), `self._ssm = …`,
                          `self._u = np.array([self.input[input_id](self.tin) for input_id in self._ssm.sources])`,
                          `self._tout, self._x, _ = self.solver(StateSpaceModel(A=, B=, C=np.eye(n), D=np.zeros((n, m))),
                          self._u.T, self.tin, np.zeros((n, 1)))`, `self._x = np.reshape(self._x, (self._x.shape[0], n)).T`;
    C12_gen_input_rows    the reading of the `_u` expression is the hand model's `transientU` over the generated `sources`
                          (= `ssSources` for an object related to the hand model): row i = input function of `sources[i]` on
                          the requested time vector; a missing function is `KeyError`;
    C12_gen_solver_call   the reading of the rest: the solver is called once with exactly (A, B, I, 0, `_u`ᵀ, tin, zero
                          column), `_tout` / `_x` are its first / second result, `_x` reshaped to one row per state.

  The seeded changes C12-5B / C12-3A (`np.empty_like(self.tin, …)` / `np.zeros_like` + a row loop) are refused by the
  translator (`for` statement); C11-4B / C12-2B / C20-4A (shifted time axis) change the generated tree and
  `C12_gen_init_shape` no longer compiles.  NOT covered: the statements before `self._ssm = …` beyond their literal
  shape; what the solver computes; dtypes; user functions that raise or broadcast.
-/
import CC.Model.SolutionEval
import CC.Properties.C12
import CC.Properties.C10Gen
import CC.Properties.C10Rows
set_option linter.unusedSimpArgs false
set_option linter.unusedSectionVars false
set_option linter.unusedVariables false
namespace CC
open Gen Gen.Core Gen.State Gen.Sol SolEval

/-- `np.array([self.input[input_id](self.tin) for input_id in self._ssm.sources])` -/
def uExpr : PExpr :=
  .call "np.array" (.pos (.comp (.apply (.index (.self "input") (.name "input_id")) (.pos (.self "tin") .nil))
    (.name "input_id") (.attr (.self "_ssm") "sources")) .nil)

/-- `self._ssm.A.shape[0]` -/
def nStatesExpr : PExpr := .index (.attr (.attr (.self "_ssm") "A") "shape") (.nat 0)

/-- `self.solver(StateSpaceModel(A=self._ssm.A, B=self._ssm.B, C=np.eye(n), D=np.zeros((n, self._ssm.B.shape[1]))),
self._u.T, self.tin, np.zeros((n, 1)))` with `n = self._ssm.A.shape[0]` -/
def solverCallExpr : PExpr :=
  .apply (.self "solver")
    (.pos (.call "StateSpaceModel"
        (.kw "A" (.attr (.self "_ssm") "A") (.kw "B" (.attr (.self "_ssm") "B")
        (.kw "C" (.call "np.eye" (.pos nStatesExpr .nil))
        (.kw "D" (.call "np.zeros" (.pos (.tuple (.pos nStatesExpr
            (.pos (.index (.attr (.attr (.self "_ssm") "B") "shape") (.nat 1)) .nil))) .nil)) .nil)))))
      (.pos (.attr (.self "_u") "T") (.pos (.self "tin")
        (.pos (.call "np.zeros" (.pos (.tuple (.pos nStatesExpr (.pos (.nat 1) .nil))) .nil)) .nil))))

/-- `np.reshape(self._x, (self._x.shape[0], self._ssm.A.shape[0])).T` -/
def xPostExpr : PExpr :=
  .attr (.call "np.reshape" (.pos (.self "_x") (.pos (.tuple (.pos (.index (.attr (.self "_x") "shape") (.nat 0))
    (.pos nStatesExpr .nil))) .nil))) "T"

/-- **the generated tree of `TransientSolution.__post_init__`, literally.** -/
theorem C12_gen_init_shape :
    findMethod "TransientSolution" "__post_init__" = some
      { cls := "TransientSolution", name := "__post_init__", params := [],
        body := [
          .assign (.name "network") (.index (.call "transform" (.pos (.self "circuit") (.kw "w" (.list (.pos (.nat 0) .nil)) .nil))) (.nat 0)),
          .verbatim "C_values" "{c.id: float(c.value['C']) for c in self.circuit.components if c.type == 'capacitor'}",
          .verbatim "L_values" "{c.id: float(c.value['L']) for c in self.circuit.components if c.type == 'inductance'}",
          .assign (.self "_ssm") (.call "nodal_state_space_model" (.pos (.name "network") (.kw "c_values" (.name "C_values") (.kw "l_values" (.name "L_values") .nil)))),
          .assign (.self "_u") uExpr,
          .assign (.tuple (.pos (.self "_tout") (.pos (.self "_x") (.pos (.name "_") .nil)))) solverCallExpr,
          .assign (.self "_x") xPostExpr] } := by
  decide


section
variable {K : Type} [Zero K] [One K]

theorem mapM_asVec (U : List (List K)) : List.mapM (asVec ∘ IVal.vec) U = (.ok U : Except Err (List (List K))) := by
  induction U with
  | nil => rfl
  | cons r U ih => simp [List.mapM_cons, ih, asVec, bind, Except.bind, pure, Except.pure]

theorem mapM_rows (input : String → Option (List K → List K)) (tin : List K) (F : IVal K → Except Err (IVal K))
    (hF : ∀ s, F (.str s) = match input s with | some f => .ok (.vec (f tin)) | none => .error .keyError)
    (sources : List String) :
    List.mapM (F ∘ IVal.str) sources
      = (transientU sources (fun s => (input s).map (· tin))).map (fun U => U.map IVal.vec) := by
  induction sources with
  | nil => rfl
  | cons s rest ih =>
    unfold transientU at ih ⊢
    rw [List.mapM_cons, List.mapM_cons, ih]
    simp only [Function.comp, hF]
    cases hs : input s with
    | none => simp [bind, Except.bind, Except.map]
    | some f =>
      simp only [Option.map_some, bind, Except.bind, pure, Except.pure]
      cases List.mapM (fun s => match Option.map (fun x => x tin) (input s) with
        | some row => Except.ok row | none => Except.error Err.keyError) rest <;> rfl

/-- the value of the generated `_u` expression -/
theorem evalI_uExpr (g : NodalStateSpaceModel String K) (lsim : SolverCall K → List K × IVal K × IVal K)
    (input : String → Option (List K → List K)) (tin : List K) :
    evalI g lsim (env0 input tin) uExpr = (transientU g.sources (fun s => (input s).map (· tin))).map ofRows := by
  unfold uExpr
  simp [evalI, env0, getAttr, callNamed, List.lookup_cons, bind, Except.bind, pure, Except.pure]
  rw [mapM_rows input tin _ (fun s => by cases h : input s <;> simp [getItem, applyVal, h]) g.sources]
  cases transientU g.sources (fun s => (input s).map (· tin)) with
  | error e => rfl
  | ok U => simp [Except.map, mapM_asVec]

/-- `self._u.T` for `self._u = np.array(rows)` -/
def uT (U : List (List K)) : IVal K :=
  match U with
  | [] => .vec []
  | r :: _ => .mat (Py.Mat.T ⟨U.length, r.length, U⟩)

theorem getAttr_T_ofRows (g : NodalStateSpaceModel String K) (U : List (List K)) :
    getAttr g (ofRows U) "T" = .ok (uT U) := by
  cases U <;> simp [ofRows, getAttr, uT]

/-- what the model hands to the solver: `(A, B)` of `self._ssm`, identity `C`, zero `D`, the transposed input samples,
the requested time vector, the zero column as initial state -/
def modelCall (g : NodalStateSpaceModel String K) (U : List (List K)) (tin : List K) : SolverCall K :=
  { A := g.A, B := g.B, C := Py.Mat.identity g.A.nrows, D := Py.Mat.zeros g.A.nrows g.B.ncols,
    u := uT U, t := tin, x0 := Py.Mat.zeros g.A.nrows 1 }

/-- `a.shape[0]` -/
def shape0 : IVal K → Option Nat
  | .mat M => some M.nrows
  | .vec v => some v.length
  | _ => none

theorem solver_stmt (g : NodalStateSpaceModel String K) (lsim : SolverCall K → List K × IVal K × IVal K)
    (input : String → Option (List K → List K)) (tin : List K) (U : List (List K)) :
    evalI g lsim ⟨("_u", ofRows U) :: (env0 input tin).self, (env0 input tin).locals⟩ solverCallExpr
      = .ok (.list [.vec (lsim (modelCall g U tin)).1, (lsim (modelCall g U tin)).2.1, (lsim (modelCall g U tin)).2.2]) := by
  unfold solverCallExpr nStatesExpr
  cases U <;>
  simp [evalI, env0, getAttr, callNamed, List.lookup_cons, bind, Except.bind, pure, Except.pure, getItem, mkModel,
    kwLookup, applyVal, modelCall, ofRows, uT]

theorem xpost_stmt (g : NodalStateSpaceModel String K) (lsim : SolverCall K → List K × IVal K × IVal K)
    (x : IVal K) (rest locals : List (String × IVal K)) (T : Nat) (Xr : Py.Mat K)
    (hssm : rest.lookup "_ssm" = some .ssm) (hT : shape0 x = some T) (hX : reshape2 x T g.A.nrows = .ok (.mat Xr)) :
    evalI g lsim ⟨("_x", x) :: rest, locals⟩ xPostExpr = .ok (.mat Xr.T) := by
  unfold xPostExpr nStatesExpr
  cases x <;> simp [shape0] at hT <;> subst hT <;>
  simp [evalI, getAttr, callNamed, List.lookup_cons, hssm, bind, Except.bind, pure, Except.pure, getItem, hX]

end

section
variable {K : Type} [Field K] [DecidableEq K]

/-- **C12 (generated `_u`).**  In the tree generated from `TransientSolution.__post_init__` the first statement after
`self._ssm = …` assigns `self._u`, and — for every model object `g` (= `self._ssm`), every dict `input` of time
functions and every requested time vector `tin` — the reading of its right-hand side is the 2-d array whose rows are
the hand model's `transientU` over `g.sources` (the GENERATED `sources` of CC/Gen/StateSpace.lean) with the input of
source `s` being `input[s](tin)`; a source without input function is a `KeyError`.  Hence (third conjunct) row `i`
is the input function of `sources[i]` evaluated on `tin`, in the order of `sources` — which for an object related to
the hand model (`SSRel`, `C10_gen_rel`) is `ssSources`: current sources, then the voltage sources that are no
inductor (second conjunct).
Says about the code: a changed iteration source, per-row expression (`self.input[input_id](self.tin)`), array
constructor, keyword (`dtype=`) or a row loop instead of the comprehension changes the generated tree (or is refused)
and `C12_gen_init_shape` / this proof fails.  Does not say: what the user's functions return (total maps here),
numpy dtype / broadcasting, that `sources` matches the columns of `B` (C10 / C12: `C10_gen_sources`, `C12_sample_rhs`). -/
theorem C12_gen_input_rows (g : NodalStateSpaceModel String K) (lsim : SolverCall K → List K × IVal K × IVal K)
    (input : String → Option (List K → List K)) (tin : List K) :
    (∃ m e, findMethod "TransientSolution" "__post_init__" = some m ∧
      (afterSsm m.body).head? = some (.assign (.self "_u") e) ∧
      evalI g lsim (env0 input tin) e
        = (transientU g.sources (fun s => (input s).map (· tin))).map ofRows) ∧
    (∀ {m : NSSM String K}, SSRel g m → g.sources = ssSources m.net m.lvals) ∧
    (∀ U, transientU g.sources (fun s => (input s).map (· tin)) = .ok U →
      U.length = g.sources.length ∧
      ∀ i (hi : i < g.sources.length) (hi' : i < U.length), ∃ f, input g.sources[i] = some f ∧ U[i] = f tin) := by
  refine ⟨⟨_, uExpr, C12_gen_init_shape, by decide, evalI_uExpr g lsim input tin⟩, fun h => C10_gen_sources h, ?_⟩
  intro U hU
  have h := C12_input_order hU
  have hl : U.length = g.sources.length := by simpa using congrArg List.length h
  refine ⟨hl, fun i hi hi' => ?_⟩
  have hi2 := congrArg (fun l => l[i]?) h
  simp only [List.getElem?_map, List.getElem?_eq_getElem hi, List.getElem?_eq_getElem hi', Option.map_some] at hi2
  cases hf : input g.sources[i] with
  | none => simp [hf] at hi2
  | some f => exact ⟨f, rfl, by simpa [hf] using hi2⟩

/-- **C12 (generated solver call).**  Reading the generated tree of `TransientSolution.__post_init__` from the
statement after `self._ssm = …` to its end: when every source has an input function (`transientU … = ok U`), the
solver is called ONCE, with exactly `modelCall g U tin` — `A`, `B` of the model object, `C = I_n`, `D = 0_{n×m}`
(`n = A.shape[0]`, `m = B.shape[1]`), the transposed array of the input rows `U` (row `i` = input of `sources[i]` on
`tin`: `C12_gen_input_rows`), the requested time vector `tin` itself, and the zero column `np.zeros((n, 1))` as
initial state (its entries are the hand model's `transientX0 n`) — and its three results are bound to `self._tout`
(first, unchanged), `self._x` (second) and a discarded local; `self._x` is then re-assigned
`np.reshape(self._x, (self._x.shape[0], n)).T`, one row per state.  `lsim` is arbitrary, so the statement pins every
argument.  A missing input function aborts with `KeyError` before the solver is called (second conjunct).
Hypotheses: the solver's second result is an array (`shape0`) that reshapes to `(T, n)` (`hX`) — numpy's `ValueError`
otherwise.  Does not say: what the solver computes (C12 assumption), dtypes. -/
theorem C12_gen_solver_call (g : NodalStateSpaceModel String K) (lsim : SolverCall K → List K × IVal K × IVal K)
    (input : String → Option (List K → List K)) (tin : List K) :
    (∀ U T Xr, transientU g.sources (fun s => (input s).map (· tin)) = .ok U →
      shape0 (lsim (modelCall g U tin)).2.1 = some T →
      reshape2 (lsim (modelCall g U tin)).2.1 T g.A.nrows = .ok (.mat Xr) →
      transientInit g lsim input tin = .ok
        ⟨("_x", .mat Xr.T) :: ("_x", (lsim (modelCall g U tin)).2.1) :: ("_tout", .vec (lsim (modelCall g U tin)).1)
            :: ("_u", ofRows U) :: (env0 input tin).self,
          [("_", (lsim (modelCall g U tin)).2.2)]⟩) ∧
    (∀ e, transientU g.sources (fun s => (input s).map (· tin)) = .error e →
      transientInit g lsim input tin = .error e) ∧
    (∀ U, (modelCall g U tin).x0.rows.flatten = (transientX0 g.A.nrows : List K)) := by
  refine ⟨?_, ?_, ?_⟩
  · intro U T Xr hU hT hX
    unfold transientInit
    rw [C12_gen_init_shape]
    simp only [afterSsm, if_true, if_false, runStmts, runStmt, evalI_uExpr, hU, Except.map, bind, Except.bind, bindTarget,
      bind1, solver_stmt, bindChain, pure, Except.pure]
    rw [xpost_stmt g lsim _ _ _ T Xr (by simp [env0, List.lookup_cons]) hT hX]
    rfl
  · intro e hU
    unfold transientInit
    rw [C12_gen_init_shape]
    simp only [afterSsm, if_true, if_false, runStmts, runStmt, evalI_uExpr, hU, Except.map, bind, Except.bind]
  · intro U
    simp [modelCall, Py.Mat.zeros, transientX0, Mx.zeroVec]
end

/-! ## non-vacuity -/

/-- the series circuit `V(1,0) – R=1 (1,2) – C=1 (2,0)` of CC/Properties/C10.lean as generated model object (one state,
one source `V`) -/
def exG : NodalStateSpaceModel String ℚ := ssToGen netRC [("C", 1)] [] ⟨[[-1]], [[1]], [[0], [1], [1]], [[1], [0], [-1]]⟩

theorem exG_sources : exG.sources = ["V"] := by decide +kernel

/-- input `V ↦ (t ↦ 2t)` on the grid `[0, 1]`, a solver returning the states `(0, 1)` as a `2×1` array: the
hypotheses of `C12_gen_solver_call` are met (`U = [[0, 2]]`, `T = 2`, `_x = [[0, 1]]`) … -/
example : ∃ (lsim : SolverCall ℚ → List ℚ × IVal ℚ × IVal ℚ) (input : String → Option (List ℚ → List ℚ)),
    transientU exG.sources (fun s => (input s).map (· [0, 1])) = .ok [[0, 2]] ∧
    shape0 (lsim (modelCall exG [[0, 2]] [0, 1])).2.1 = some 2 ∧
    reshape2 (lsim (modelCall exG [[0, 2]] [0, 1])).2.1 2 exG.A.nrows = .ok (.mat ⟨2, 1, [[0], [1]]⟩) :=
  ⟨fun c => (c.t, .mat ⟨2, 1, [[0], [1]]⟩, .mat ⟨2, 1, [[0], [0]]⟩),
   fun s => if s = "V" then some (fun t => t.map (2 * ·)) else none,
   by rw [exG_sources]; decide +kernel, rfl, by
     have h : exG.A.nrows = 1 := by decide +kernel
     rw [h]; simp [reshape2, flatOf, List.range_succ]⟩

/-- … and a dict without the source's function aborts with `KeyError` (second conjunct of `C12_gen_solver_call`) -/
example (lsim : SolverCall ℚ → List ℚ × IVal ℚ × IVal ℚ) :
    transientInit exG lsim (fun _ => none) [0, 1] = .error .keyError :=
  (C12_gen_solver_call exG lsim (fun _ => none) [0, 1]).2.1 _ (by rw [exG_sources]; rfl)

end CC
