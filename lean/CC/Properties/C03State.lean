/-
  Property C03, state-space and transient level — the input/output behaviour of the state-space model
  is independent of names, listing order, reference node and terminal orientation.

  Setting (`StateModelOK`): `N` is the `w = 0` network of an RLC + ideal-source circuit (`RLC`), the
  four matrices `m` are what `stateSpaceMatrices` returns for certificates `Ainv`, `S` that satisfy the
  certificate equations (`ModelCert`).  Two such settings `(N, cv, lv, …)` and `(N', cv', lv', …)` are
  related by one of the C03 transformations of CC/Properties/C03.lean (`Net.rename σ τ` with `σ`
  injective, a permutation of the branch list, `Net.flip f`, `switchGround`), their dictionaries give
  the same capacitance / inductance to the same (renamed) element (`SameValues`, any dictionary
  order), and the inputs give the same amplitude to the same (renamed) source, negated for a reversed
  source (`SameInput`; the position of a source in `sources` may differ).

  (a) TRANSFER LEVEL (`C03_transfer_*`): for every `s`, every `x = (s − A)⁻¹ B u` and
      `x' = (s − A')⁻¹ B' u'` (written `s·x = A x + B u`): when the phasor network of the target
      setting at `s` is well-posed, the two reports (`y = C x + D u` read through the accessors — every
      potential, every element's voltage and current) coincide up to the transformation: equal
      (listing order), equal after renaming, negated on the reversed elements, potentials shifted by
      one common constant (reference node).  Proof: `C10_transfer` (each report solves its phasor
      network), the Spec-level invariance `C03_perm / _rename / _reverse` / re-referencing, and
      `C10_transfer_unique` (= `C01_unique`).
  (b) SAMPLE LEVEL (`C03_sample_*`): for EVERY pair of states related by the induced state map
      (`SameState`: same capacitor voltage / inductor current for the same renamed element, negated for
      a reversed one) and inputs as above — hence for every integrator —, the per-sample reports
      (`y = C x + D u`, `ẋ = A x + B u`) coincide up to the transformation, provided the circuit with
      its states imposed (`stateNet`: capacitors ↦ voltage sources `x_k`, inductors ↦ current sources)
      is well-posed for the target setting.  Proof: `C03_sample_state` (the sample report solves
      `stateNet`, from `C12_sample_circuit` + `C12_state_is_output`), invariance, `C01_unique`.
      The reports contain the capacitor currents `C_k·ẋ_k` and the inductor voltages `L_k·ẋ_k`, so the
      agreement includes the derivative `ẋ = A x + B u` of every state (values are non-zero, `ModelCert`).
  Non-vacuity: the example at the end instantiates every hypothesis of `C03_transfer_reverse` and
  `C03_sample_reverse` (RC circuit, capacitor terminals swapped, `s = 1`, `u = 1`, `x = 1/2`, `x' = -1/2`);
  the other six theorems share `StateModelOK`, `SameValues`, `SameInput`, `SameState` and the two
  well-posedness hypotheses with it (no separate example).

  NOT proved here: that the state TRAJECTORIES of two related models stay related under the integrator
  (`lsim` is a parameter of the model); the theorems are per sample, for related states.  The output
  ROWS are still `C10_output_rows_statement` (open in C10).  Well-posedness of the target network is a
  hypothesis, not derived from that of the original (as in `C03_reported_*`).
-/
import CC.Proofs.StateInvariance
import CC.Properties.C10
import CC.Properties.C12

set_option linter.unusedSectionVars false

namespace CC
open Matrix Mx

section defs
variable {L K : Type} [DecidableEq L] [LabelOrd L] [Field K] [DecidableEq K]

/-- the hypotheses of `C10_transfer` / `C12_sample_circuit`, bundled -/
structure StateModelOK (N : Net L K) (cv lv : ValDict K) (Ainv S Delta : List (List K)) (m : SSMats K) : Prop where
  rlc : RLC N cv lv
  delta : ssDelta N cv = .ok Delta
  mats : stateSpaceMatrices N cv lv Ainv S = .ok m
  cert : ModelCert id N cv lv Ainv S Delta

/-- the phasor network of the setting at `s`, driven by `u` (in the order of `ssSources`) -/
def phasorOf (N : Net L K) (cv lv : ValDict K) (u : Fin (ssNInputs N lv) → K) (s : K) : Net L K :=
  phasorNet N cv lv (ssSources N lv) (List.ofFn u) s

/-- the circuit with its states imposed: capacitor `k` ↦ ideal voltage source `x_k`, inductor `k` ↦ ideal
current source `x_{nc+k}`, sources at `u` -/
def stateNet (N : Net L K) (cv lv : ValDict K) (u : Fin (ssNInputs N lv) → K)
    (x : Fin (ssNStates N cv lv) → K) : Net L K :=
  N.mapElems (stateElem cv lv (ssSources N lv) (List.ofFn u) (List.ofFn x))

/-- the report `C10_transfer` speaks about: `y = C x + D u` read through the accessors, `ẋ = s·x` -/
def transferReport (N : Net L K) (cv lv : ValDict K) (m : SSMats K) (s : K)
    (x : Fin (ssNStates N cv lv) → K) (u : Fin (ssNInputs N lv) → K) : Report L K :=
  (sampleNet N cv lv (ssSources N lv) (List.ofFn u) (List.ofFn (s • x))).reportOf
    (List.ofFn (toM N.nY (ssNStates N cv lv) m.C *ᵥ x + toM N.nY (ssNInputs N lv) m.D *ᵥ u))

/-- the report `C12_sample_circuit` speaks about: `y = C x + D u` read through the accessors,
`ẋ = A x + B u` -/
def sampleReport (N : Net L K) (cv lv : ValDict K) (m : SSMats K)
    (x : Fin (ssNStates N cv lv) → K) (u : Fin (ssNInputs N lv) → K) : Report L K :=
  (sampleNet N cv lv (ssSources N lv) (List.ofFn u)
      (List.ofFn (toM (ssNStates N cv lv) (ssNStates N cv lv) m.A *ᵥ x
        + toM (ssNStates N cv lv) (ssNInputs N lv) m.B *ᵥ u))).reportOf
    (List.ofFn (toM N.nY (ssNStates N cv lv) m.C *ᵥ x + toM N.nY (ssNInputs N lv) m.D *ᵥ u))

theorem phasorOf_eq (N : Net L K) (cv lv : ValDict K) (u : Fin (ssNInputs N lv) → K) (s : K) :
    phasorOf N cv lv u s = N.mapElems (phasorElem cv lv (ssSources N lv) (List.ofFn u) s) := rfl

/-- **C03 (sample level, the states are reported).**  For every state `x` and input `u` the sample
report solves the circuit with the states imposed: reported capacitor voltage = `x_k`, reported inductor
current = `x_{nc+k}`, sources at `u`, Kirchhoff's laws, every other element law. -/
theorem C03_sample_state {N : Net L K} {cv lv : ValDict K} {Ainv S Delta : List (List K)} {m : SSMats K}
    (ok : StateModelOK N cv lv Ainv S Delta m)
    (x : Fin (ssNStates N cv lv) → K) (u : Fin (ssNInputs N lv) → K) :
    CircuitEqs (stateNet N cv lv u x) (sampleReport N cv lv m x u) :=
  state_circuit ok.rlc ok.delta ok.mats ok.cert x u

theorem C03_transfer_solves {N : Net L K} {cv lv : ValDict K} {Ainv S Delta : List (List K)} {m : SSMats K}
    (ok : StateModelOK N cv lv Ainv S Delta m) (s : K)
    (x : Fin (ssNStates N cv lv) → K) (u : Fin (ssNInputs N lv) → K)
    (hx : s • x = toM _ _ m.A *ᵥ x + toM _ _ m.B *ᵥ u) :
    CircuitEqs (phasorOf N cv lv u s) (transferReport N cv lv m s x u) :=
  C10_transfer ok.rlc ok.delta ok.mats ok.cert s x u hx

end defs

/-! ### the two cores: invariance of the Spec + uniqueness -/

section core
variable {L L' K : Type} [DecidableEq L] [LabelOrd L] [DecidableEq L'] [LabelOrd L'] [Field K] [DecidableEq K]
variable {N : Net L K} {cv lv : ValDict K} {Ainv S Delta : List (List K)} {m : SSMats K}
variable {N' : Net L' K} {cv' lv' : ValDict K} {Ainv' S' Delta' : List (List K)} {m' : SSMats K}

theorem transfer_core (ok : StateModelOK N cv lv Ainv S Delta m) (ok' : StateModelOK N' cv' lv' Ainv' S' Delta' m')
    (s : K) (x : Fin (ssNStates N cv lv) → K) (u : Fin (ssNInputs N lv) → K)
    (x' : Fin (ssNStates N' cv' lv') → K) (u' : Fin (ssNInputs N' lv') → K)
    (hx : s • x = toM _ _ m.A *ᵥ x + toM _ _ m.B *ᵥ u)
    (hx' : s • x' = toM _ _ m'.A *ᵥ x' + toM _ _ m'.B *ᵥ u')
    (Φ : Report L K → Report L' K)
    (hΦ : ∀ R, CircuitEqs (phasorOf N cv lv u s) R → CircuitEqs (phasorOf N' cv' lv' u' s) (Φ R))
    (hw' : WellPosed (phasorOf N' cv' lv' u' s)) :
    (transferReport N' cv' lv' m' s x' u').AgreeOn (phasorOf N' cv' lv' u' s)
      (Φ (transferReport N cv lv m s x u)) :=
  C10_transfer_unique ok'.rlc ok'.delta ok'.mats ok'.cert s x' u' hx' hw' _
    (hΦ _ (C03_transfer_solves ok s x u hx))

theorem sample_core (ok : StateModelOK N cv lv Ainv S Delta m) (ok' : StateModelOK N' cv' lv' Ainv' S' Delta' m')
    (x : Fin (ssNStates N cv lv) → K) (u : Fin (ssNInputs N lv) → K)
    (x' : Fin (ssNStates N' cv' lv') → K) (u' : Fin (ssNInputs N' lv') → K)
    (Φ : Report L K → Report L' K)
    (hΦ : ∀ R, CircuitEqs (stateNet N cv lv u x) R → CircuitEqs (stateNet N' cv' lv' u' x') (Φ R))
    (hw' : WellPosed (stateNet N' cv' lv' u' x')) :
    (sampleReport N' cv' lv' m' x' u').AgreeOn (stateNet N' cv' lv' u' x')
      (Φ (sampleReport N cv lv m x u)) := by
  have hids : (stateNet N' cv' lv' u' x').ids.Nodup := by
    unfold stateNet; rw [mapElems_ids]; exact ok'.rlc.wf.ids_nodup
  exact C01_unique _ hids hw' _ _ (C03_sample_state ok' x' u') (hΦ _ (C03_sample_state ok x u))

end core

/-! ### (a) transfer level -/

section transfer
variable {L K : Type} [DecidableEq L] [LabelOrd L] [Field K] [DecidableEq K]
variable {N N' : Net L K} {cv lv cv' lv' : ValDict K} {Ainv S Delta Ainv' S' Delta' : List (List K)} {m m' : SSMats K}

theorem flip_id (f : String → Bool) (b : Branch L K) : (b.flip f).id = b.id := by
  unfold Branch.flip; split <;> rfl

theorem flip_e (f : String → Bool) (b : Branch L K) : (b.flip f).e = Elem.rev (f b.id) b.e := by
  unfold Branch.flip Elem.rev; split <;> rfl

/-- **C03 (state-space transfer, listing order).**  Branch list permuted (and dictionaries / source order
possibly different): the two models' responses at `s` are the same report. -/
theorem C03_transfer_perm (ok : StateModelOK N cv lv Ainv S Delta m) (ok' : StateModelOK N' cv' lv' Ainv' S' Delta' m')
    (hz : N.zero = N'.zero) (hp : N.branches.Perm N'.branches)
    (hv : SameValues id N cv lv cv' lv')
    (s : K) (x : Fin (ssNStates N cv lv) → K) (u : Fin (ssNInputs N lv) → K)
    (x' : Fin (ssNStates N' cv' lv') → K) (u' : Fin (ssNInputs N' lv') → K)
    (hu : SameInput id (fun _ => false) N (ssSources N lv) (List.ofFn u) (ssSources N' lv') (List.ofFn u'))
    (hx : s • x = toM _ _ m.A *ᵥ x + toM _ _ m.B *ᵥ u)
    (hx' : s • x' = toM _ _ m'.A *ᵥ x' + toM _ _ m'.B *ᵥ u')
    (hw' : WellPosed (phasorOf N' cv' lv' u' s)) :
    (transferReport N' cv' lv' m' s x' u').AgreeOn (phasorOf N' cv' lv' u' s) (transferReport N cv lv m s x u) := by
  refine transfer_core ok ok' s x u x' u' hx hx' (fun R => R) ?_ hw'
  intro R hR
  refine (C03_perm (phasorOf N cv lv u s) (phasorOf N' cv' lv' u' s) hz ?_ R).mp hR
  rw [phasorOf_eq, phasorOf_eq]
  exact mapElems_perm N N' _ _ hp fun b hb => phasorElem_rel id (fun _ => false) s hv hu b hb b rfl rfl

/-- **C03 (state-space transfer, reference node).**  Another reference node: same voltages and currents,
all potentials shifted by the potential of the new reference. -/
theorem C03_transfer_reref (ok : StateModelOK N cv lv Ainv S Delta m) (ok' : StateModelOK N' cv' lv' Ainv' S' Delta' m')
    (g : L) (hr : switchGround N g = .ok N')
    (hv : SameValues id N cv lv cv' lv')
    (s : K) (x : Fin (ssNStates N cv lv) → K) (u : Fin (ssNInputs N lv) → K)
    (x' : Fin (ssNStates N' cv' lv') → K) (u' : Fin (ssNInputs N' lv') → K)
    (hu : SameInput id (fun _ => false) N (ssSources N lv) (List.ofFn u) (ssSources N' lv') (List.ofFn u'))
    (hx : s • x = toM _ _ m.A *ᵥ x + toM _ _ m.B *ᵥ u)
    (hx' : s • x' = toM _ _ m'.A *ᵥ x' + toM _ _ m'.B *ᵥ u')
    (hw' : WellPosed (phasorOf N' cv' lv' u' s)) :
    (transferReport N' cv' lv' m' s x' u').AgreeOn (phasorOf N' cv' lv' u' s)
      ((transferReport N cv lv m s x u).shift ((transferReport N cv lv m s x u).pot g)) := by
  have hN' : N' = ⟨N.branches, g⟩ := mk?_ok hr
  refine transfer_core ok ok' s x u x' u' hx hx' (fun R => R.shift (R.pot g)) ?_ hw'
  intro R hR
  have hzero : (phasorOf N' cv' lv' u' s).zero = g := by show N'.zero = g; rw [hN']
  have := circuitEqs_reref (phasorOf N cv lv u s) (phasorOf N' cv' lv' u' s) ?_ R hR
  · rw [hzero] at this; exact this
  · rw [phasorOf_eq, phasorOf_eq]
    exact mapElems_branches_congr N N' _ _ (by rw [hN'])
      fun b hb => phasorElem_rel id (fun _ => false) s hv hu b hb b rfl rfl

/-- **C03 (state-space transfer, terminal order).**  Elements `f` reversed (reactive elements and
resistors swapped, sources swapped with negated amplitude — `SameInput`): their own voltage and current
are negated, nothing else changes. -/
theorem C03_transfer_reverse (f : String → Bool) (ok : StateModelOK N cv lv Ainv S Delta m)
    (ok' : StateModelOK (N.flip f) cv' lv' Ainv' S' Delta' m')
    (hv : SameValues id N cv lv cv' lv')
    (s : K) (x : Fin (ssNStates N cv lv) → K) (u : Fin (ssNInputs N lv) → K)
    (x' : Fin (ssNStates (N.flip f) cv' lv') → K) (u' : Fin (ssNInputs (N.flip f) lv') → K)
    (hu : SameInput id f N (ssSources N lv) (List.ofFn u) (ssSources (N.flip f) lv') (List.ofFn u'))
    (hx : s • x = toM _ _ m.A *ᵥ x + toM _ _ m.B *ᵥ u)
    (hx' : s • x' = toM _ _ m'.A *ᵥ x' + toM _ _ m'.B *ᵥ u')
    (hw' : WellPosed (phasorOf (N.flip f) cv' lv' u' s)) :
    (transferReport (N.flip f) cv' lv' m' s x' u').AgreeOn (phasorOf (N.flip f) cv' lv' u' s)
      ((transferReport N cv lv m s x u).flip f) := by
  refine transfer_core ok ok' s x u x' u' hx hx' (fun R => R.flip f) ?_ hw'
  intro R hR
  have : phasorOf (N.flip f) cv' lv' u' s = (phasorOf N cv lv u s).flip f := by
    rw [phasorOf_eq, phasorOf_eq]
    exact mapElems_flip f N _ _ fun b hb =>
      phasorElem_rel id f s hv hu b hb (b.flip f) (flip_id f b) (flip_e f b)
  rw [this]
  exact C03_reverse f _ R hR

end transfer

section transferRename
variable {L L' K : Type} [DecidableEq L] [LabelOrd L] [DecidableEq L'] [LabelOrd L'] [Field K] [DecidableEq K]
variable {N : Net L K} {cv lv cv' lv' : ValDict K} {Ainv S Delta Ainv' S' Delta' : List (List K)} {m m' : SSMats K}

/-- **C03 (state-space transfer, renaming).**  Nodes renamed by an injective `σ`, identifiers by `τ`
(dictionary keys and source names follow `τ` — `SameValues τ`, `SameInput τ`): the response of the
renamed model, read back through the renaming, is the response of the original model.  As in
`C03_reported_rename` the well-posedness hypothesis is that of the ORIGINAL phasor network. -/
theorem C03_transfer_rename (σ : L → L') (hσ : Function.Injective σ) (τ : String → String)
    (ok : StateModelOK N cv lv Ainv S Delta m)
    (ok' : StateModelOK (N.rename σ τ) cv' lv' Ainv' S' Delta' m')
    (hv : SameValues τ N cv lv cv' lv')
    (s : K) (x : Fin (ssNStates N cv lv) → K) (u : Fin (ssNInputs N lv) → K)
    (x' : Fin (ssNStates (N.rename σ τ) cv' lv') → K) (u' : Fin (ssNInputs (N.rename σ τ) lv') → K)
    (hu : SameInput τ (fun _ => false) N (ssSources N lv) (List.ofFn u)
            (ssSources (N.rename σ τ) lv') (List.ofFn u'))
    (hx : s • x = toM _ _ m.A *ᵥ x + toM _ _ m.B *ᵥ u)
    (hx' : s • x' = toM _ _ m'.A *ᵥ x' + toM _ _ m'.B *ᵥ u')
    (hw : WellPosed (phasorOf N cv lv u s)) :
    (transferReport N cv lv m s x u).AgreeOn (phasorOf N cv lv u s)
      ((transferReport (N.rename σ τ) cv' lv' m' s x' u').comap σ τ) := by
  refine transfer_core ok' ok s x' u' x u hx' hx (fun R' => R'.comap σ τ) ?_ hw
  intro R' hR'
  have : phasorOf (N.rename σ τ) cv' lv' u' s = (phasorOf N cv lv u s).rename σ τ := by
    rw [phasorOf_eq, phasorOf_eq]
    exact mapElems_rename σ τ N _ _ fun b hb =>
      phasorElem_rel τ (fun _ => false) s hv hu b hb (b.rename σ τ) rfl rfl
  rw [this] at hR'
  exact (C03_rename σ hσ τ _ R').mp hR'

end transferRename

/-! ### (b) sample level -/

section sample
variable {L K : Type} [DecidableEq L] [LabelOrd L] [Field K] [DecidableEq K]
variable {N N' : Net L K} {cv lv cv' lv' : ValDict K} {Ainv S Delta Ainv' S' Delta' : List (List K)} {m m' : SSMats K}

/-- **C03 (transient sample, listing order).**  For states related by the induced state map (same
capacitor voltage / inductor current for the same element, whatever its position in the dictionaries)
and the same source values, the two sample reports coincide. -/
theorem C03_sample_perm (ok : StateModelOK N cv lv Ainv S Delta m) (ok' : StateModelOK N' cv' lv' Ainv' S' Delta' m')
    (hz : N.zero = N'.zero) (hp : N.branches.Perm N'.branches)
    (x : Fin (ssNStates N cv lv) → K) (u : Fin (ssNInputs N lv) → K)
    (x' : Fin (ssNStates N' cv' lv') → K) (u' : Fin (ssNInputs N' lv') → K)
    (hs : SameState id (fun _ => false) N cv lv cv' lv' (List.ofFn x) (List.ofFn x'))
    (hu : SameInput id (fun _ => false) N (ssSources N lv) (List.ofFn u) (ssSources N' lv') (List.ofFn u'))
    (hw' : WellPosed (stateNet N' cv' lv' u' x')) :
    (sampleReport N' cv' lv' m' x' u').AgreeOn (stateNet N' cv' lv' u' x') (sampleReport N cv lv m x u) := by
  refine sample_core ok ok' x u x' u' (fun R => R) ?_ hw'
  intro R hR
  refine (C03_perm (stateNet N cv lv u x) (stateNet N' cv' lv' u' x') hz ?_ R).mp hR
  exact mapElems_perm N N' _ _ hp fun b hb => stateElem_rel id (fun _ => false) hs hu b hb b rfl rfl

/-- **C03 (transient sample, reference node).** -/
theorem C03_sample_reref (ok : StateModelOK N cv lv Ainv S Delta m) (ok' : StateModelOK N' cv' lv' Ainv' S' Delta' m')
    (g : L) (hr : switchGround N g = .ok N')
    (x : Fin (ssNStates N cv lv) → K) (u : Fin (ssNInputs N lv) → K)
    (x' : Fin (ssNStates N' cv' lv') → K) (u' : Fin (ssNInputs N' lv') → K)
    (hs : SameState id (fun _ => false) N cv lv cv' lv' (List.ofFn x) (List.ofFn x'))
    (hu : SameInput id (fun _ => false) N (ssSources N lv) (List.ofFn u) (ssSources N' lv') (List.ofFn u'))
    (hw' : WellPosed (stateNet N' cv' lv' u' x')) :
    (sampleReport N' cv' lv' m' x' u').AgreeOn (stateNet N' cv' lv' u' x')
      ((sampleReport N cv lv m x u).shift ((sampleReport N cv lv m x u).pot g)) := by
  have hN' : N' = ⟨N.branches, g⟩ := mk?_ok hr
  refine sample_core ok ok' x u x' u' (fun R => R.shift (R.pot g)) ?_ hw'
  intro R hR
  have hzero : (stateNet N' cv' lv' u' x').zero = g := by show N'.zero = g; rw [hN']
  have := circuitEqs_reref (stateNet N cv lv u x) (stateNet N' cv' lv' u' x') ?_ R hR
  · rw [hzero] at this; exact this
  · exact mapElems_branches_congr N N' _ _ (by rw [hN'])
      fun b hb => stateElem_rel id (fun _ => false) hs hu b hb b rfl rfl

/-- **C03 (transient sample, terminal order).**  Reversed reactive elements carry the negated state,
reversed sources the negated value; then exactly the reversed elements' own voltage and current are
negated. -/
theorem C03_sample_reverse (f : String → Bool) (ok : StateModelOK N cv lv Ainv S Delta m)
    (ok' : StateModelOK (N.flip f) cv' lv' Ainv' S' Delta' m')
    (x : Fin (ssNStates N cv lv) → K) (u : Fin (ssNInputs N lv) → K)
    (x' : Fin (ssNStates (N.flip f) cv' lv') → K) (u' : Fin (ssNInputs (N.flip f) lv') → K)
    (hs : SameState id f N cv lv cv' lv' (List.ofFn x) (List.ofFn x'))
    (hu : SameInput id f N (ssSources N lv) (List.ofFn u) (ssSources (N.flip f) lv') (List.ofFn u'))
    (hw' : WellPosed (stateNet (N.flip f) cv' lv' u' x')) :
    (sampleReport (N.flip f) cv' lv' m' x' u').AgreeOn (stateNet (N.flip f) cv' lv' u' x')
      ((sampleReport N cv lv m x u).flip f) := by
  refine sample_core ok ok' x u x' u' (fun R => R.flip f) ?_ hw'
  intro R hR
  have : stateNet (N.flip f) cv' lv' u' x' = (stateNet N cv lv u x).flip f :=
    mapElems_flip f N _ _ fun b hb =>
      stateElem_rel id f hs hu b hb (b.flip f) (flip_id f b) (flip_e f b)
  rw [this]
  exact C03_reverse f _ R hR

end sample

section sampleRename
variable {L L' K : Type} [DecidableEq L] [LabelOrd L] [DecidableEq L'] [LabelOrd L'] [Field K] [DecidableEq K]
variable {N : Net L K} {cv lv cv' lv' : ValDict K} {Ainv S Delta Ainv' S' Delta' : List (List K)} {m m' : SSMats K}

/-- **C03 (transient sample, renaming).**  Well-posedness hypothesis: the ORIGINAL circuit with its states
imposed. -/
theorem C03_sample_rename (σ : L → L') (hσ : Function.Injective σ) (τ : String → String)
    (ok : StateModelOK N cv lv Ainv S Delta m)
    (ok' : StateModelOK (N.rename σ τ) cv' lv' Ainv' S' Delta' m')
    (x : Fin (ssNStates N cv lv) → K) (u : Fin (ssNInputs N lv) → K)
    (x' : Fin (ssNStates (N.rename σ τ) cv' lv') → K) (u' : Fin (ssNInputs (N.rename σ τ) lv') → K)
    (hs : SameState τ (fun _ => false) N cv lv cv' lv' (List.ofFn x) (List.ofFn x'))
    (hu : SameInput τ (fun _ => false) N (ssSources N lv) (List.ofFn u)
            (ssSources (N.rename σ τ) lv') (List.ofFn u'))
    (hw : WellPosed (stateNet N cv lv u x)) :
    (sampleReport N cv lv m x u).AgreeOn (stateNet N cv lv u x)
      ((sampleReport (N.rename σ τ) cv' lv' m' x' u').comap σ τ) := by
  refine sample_core ok' ok x' u' x u (fun R' => R'.comap σ τ) ?_ hw
  intro R' hR'
  have : stateNet (N.rename σ τ) cv' lv' u' x' = (stateNet N cv lv u x).rename σ τ :=
    mapElems_rename σ τ N _ _ fun b hb =>
      stateElem_rel τ (fun _ => false) hs hu b hb (b.rename σ τ) rfl rfl
  rw [this] at hR'
  exact (C03_rename σ hσ τ _ R').mp hR'

end sampleRename

namespace C03ex

/-! ### non-vacuity: the series circuit `V(1,0) – R=1 (1,2) – C=1 (2,0)` and the same circuit with the
capacitor listed as `C (0,2)` -/

def fC : String → Bool := fun id => id == "C"

def netRCf : Net String ℚ := { zero := "0", branches := [
  { n1 := "1", n2 := "0", id := "V", e := .norton 0 1 },
  { n1 := "1", n2 := "2", id := "R", e := .norton 1 0 },
  { n1 := "0", n2 := "2", id := "C", e := .thevenin 0 0 }] }

theorem netRC_flip : netRC.flip fC = netRCf := by
  simp [netRC, netRCf, Net.flip, Branch.flip, fC, Elem.reversed]

theorem netRCf_nodes : netRCf.nodes = ["1", "2"] := by
  simp [netRCf, Net.nodes, Net.nodeLabels, dedupL, sortL, List.mergeSort, LabelOrd.le, List.MergeSort.Internal.splitInTwo]
theorem netRCf_vsIds : netRCf.vsIds = ["V"] := by
  simp [netRCf, Net.vsIds, Net.vs, Elem.isIdealVS, sortL]
theorem netRCf_csIds : netRCf.csIds = [] := by
  simp [netRCf, Net.csIds, Net.cs, Elem.isCS, Elem.Ival, sortL]
theorem netRCf_At : ssAtilde id netRCf = [[1, -1, 1], [-1, 1, 0], [1, 0, 0]] := by
  simp only [ssAtilde, Net.mnaA, Net.vsSorted, Net.byIds, netRCf_nodes, netRCf_vsIds]
  simp [Net.get?, Net.Yentry, Net.nonVS, Branch.dir, Elem.isIdealVS, Elem.Yfin, netRCf]
theorem netRCf_getC : netRCf.get? "C" = some { n1 := "0", n2 := "2", id := "C", e := .thevenin 0 0 } := by
  simp [Net.get?, netRCf]
theorem netRCf_Delta : ssDelta netRCf [("C", 1)] = .ok [[0, -1, 0]] := by
  simp only [ssDelta, ValDict.keys, List.map_cons, List.map_nil, List.mapM_cons, List.mapM_nil, netRCf_nodes,
    netRCf_getC, ssDeltaRow, Net.nV, netRCf_vsIds]
  simp [bind, Except.bind, pure, Except.pure]
theorem netRCf_colsL : ssColsL netRCf [] = [] := by
  simp [ssColsL, ValDict.keys]
theorem netRCf_colsS : ssColsS netRCf [] = [0] := by
  simp [ssColsS, netRCf_csIds, netRCf_vsIds, Net.nC, ValDict.has, ValDict.keys, idxOf?]
theorem netRCf_nY : netRCf.nY = 3 := by simp [Net.nY, Net.nN, Net.nV, netRCf_nodes, netRCf_vsIds]
theorem netRCf_ns : ssNStates netRCf [("C", 1)] [] = 1 := by simp [ssNStates, netRCf_colsL]
theorem netRCf_nu : ssNInputs netRCf [] = 1 := by simp [ssNInputs, netRCf_colsS]
theorem netRC_nu : ssNInputs netRC [] = 1 := by simp [ssNInputs, netRC_colsS]
theorem netRCf_DQ : ssDQ netRCf [("C", 1)] [] [[0, -1, 0]] = [[0], [-1], [0]] := by
  simp only [ssDQ, netRCf_nY, netRCf_colsL, ssQL]
  simp [Mx.hstack, Mx.transpose, Mx.ofFn, Mx.get, Mx.selectCols, List.range_succ]

theorem netRCf_cert : ModelCert id netRCf [("C", 1)] [] rcAinv rcS [[0, -1, 0]] where
  hA := by
    apply C10_certificate_check
    rw [netRCf_nY, netRCf_At]
    simp [Mx.mul, Mx.one, Mx.ofFn, Mx.sumTo, Mx.get, rcAinv, List.range_succ]
  hre := rfl
  hS := by
    rw [netRCf_nY, netRCf_ns, netRCf_DQ, ← toM_transpose, ← toM_mul, ← toM_mul]
    apply C10_certificate_check
    simp [Mx.mul, Mx.one, Mx.ofFn, Mx.sumTo, Mx.get, Mx.transpose, rcAinv, rcS, List.range_succ]
  hnz := by simp [ssLambda, ValDict.vals]

theorem netRCf_rlc : RLC netRCf [("C", 1)] [] where
  wf := { ids_nodup := by simp [Net.ids, netRCf]
          zero_mem := by
            simp [netRCf, Net.nodeLabels, dedupL, sortL, List.mergeSort, LabelOrd.le,
              List.MergeSort.Internal.splitInTwo]
          no_self_loop := by intro b hb; simp [netRCf] at hb; rcases hb with rfl | rfl | rfl <;> simp }
  capOpen := by intro b hb hk; simp [netRCf] at hb; rcases hb with rfl | rfl | rfl <;> simp [ValDict.keys] at hk ⊢
  indShort := by intro b _ hk; simp [ValDict.keys] at hk
  capMem := by simp [ValDict.keys, Net.ids, netRCf]
  indMem := by simp [ValDict.keys]
  capNodup := by simp [ValDict.keys]
  indNodup := by simp [ValDict.keys]
  notLossy := by intro b hb; simp [netRCf] at hb; rcases hb with rfl | rfl | rfl <;> simp [Elem.isLossy, Elem.kind]

def rcM : SSMats ℚ := { A := [[-1]], B := [[1]], C := [[0], [1], [1]], D := [[1], [0], [-1]] }
def rcMf : SSMats ℚ := { A := [[-1]], B := [[-1]], C := [[0], [-1], [-1]], D := [[1], [0], [-1]] }

theorem netRC_QS : ssQS netRC [] = [[0], [0], [1]] := by
  simp only [ssQS, ssQ, netRC_colsS, netRC_nY, netRC_nodes, Net.csSorted, Net.byIds, netRC_csIds, Net.nV, netRC_vsIds, Net.nC]
  simp [Mx.selectCols, Mx.ofFn, Mx.get, List.range_succ]
theorem netRCf_QS : ssQS netRCf [] = [[0], [0], [1]] := by
  simp only [ssQS, ssQ, netRCf_colsS, netRCf_nY, netRCf_nodes, Net.csSorted, Net.byIds, netRCf_csIds, Net.nV, netRCf_vsIds, Net.nC]
  simp [Mx.selectCols, Mx.ofFn, Mx.get, List.range_succ]

theorem netRC_mats : stateSpaceMatrices netRC [("C", 1)] [] rcAinv rcS = .ok rcM := by
  simp only [stateSpaceMatrices, netRC_Delta, netRC_colsL, bind, Except.bind, pure, Except.pure, rcM,
    netRC_nY, netRC_ns, netRC_nu, netRC_DQ, netRC_QS]
  simp [ssCore, ssInvLambda, ssLambda, ValDict.vals, rcAinv, rcS, Mx.mul, Mx.transpose, Mx.diagMul, Mx.neg, Mx.sub,
    Mx.ofFn, Mx.sumTo, Mx.get, List.range_succ]
theorem netRCf_mats : stateSpaceMatrices netRCf [("C", 1)] [] rcAinv rcS = .ok rcMf := by
  simp only [stateSpaceMatrices, netRCf_Delta, netRCf_colsL, bind, Except.bind, pure, Except.pure, rcMf,
    netRCf_nY, netRCf_ns, netRCf_nu, netRCf_DQ, netRCf_QS]
  simp [ssCore, ssInvLambda, ssLambda, ValDict.vals, rcAinv, rcS, Mx.mul, Mx.transpose, Mx.diagMul, Mx.neg, Mx.sub,
    Mx.ofFn, Mx.sumTo, Mx.get, List.range_succ]

theorem rc_ok : StateModelOK netRC [("C", 1)] [] rcAinv rcS [[0, 1, 0]] rcM :=
  ⟨netRC_rlc, netRC_Delta, netRC_mats, netRC_cert⟩
theorem rcf_ok : StateModelOK netRCf [("C", 1)] [] rcAinv rcS [[0, -1, 0]] rcMf :=
  ⟨netRCf_rlc, netRCf_Delta, netRCf_mats, netRCf_cert⟩

theorem one_state_eq (n p : Nat) (hn : n = 1) (hp : p = 1) (a b c d s : ℚ) (h : s * c = a * c + b * d) :
    s • (fun _ : Fin n => c) = toM n n [[a]] *ᵥ (fun _ => c) + toM n p [[b]] *ᵥ (fun _ => d) := by
  subst hn hp
  funext i
  simp [Matrix.mulVec, dotProduct, Mx.get, h]

theorem ofFn_const_one (n : Nat) (hn : n = 1) (c : ℚ) : List.ofFn (fun _ : Fin n => c) = [c] := by
  subst hn; rfl

theorem netRC_sources : ssSources netRC ([] : ValDict ℚ) = ["V"] := by
  simp [ssSources, netRC_csIds, netRC_vsIds, ValDict.has, ValDict.keys]
theorem netRCf_sources : ssSources netRCf ([] : ValDict ℚ) = ["V"] := by
  simp [ssSources, netRCf_csIds, netRCf_vsIds, ValDict.has, ValDict.keys]

/-- the phasor network of the reversed description at `s = 1`, `u' = 1` -/
theorem rcf_phasor : phasorOf netRCf [("C", 1)] [] (fun _ => 1) 1
    = { zero := "0", branches := [
        { n1 := "1", n2 := "0", id := "V", e := .norton 0 1 },
        { n1 := "1", n2 := "2", id := "R", e := .norton 1 0 },
        { n1 := "0", n2 := "2", id := "C", e := .thevenin 1 0 }] } := by
  unfold phasorOf
  rw [netRCf_sources, ofFn_const_one _ netRCf_nu]
  simp [phasorNet, Net.mapElems, netRCf, setSource, idxOf?, ValDict.keys, ValDict.vals]

/-- the reversed description with its state imposed (`x' = -1/2`, `u' = 1`) -/
theorem rcf_state : stateNet netRCf [("C", 1)] [] (fun _ => 1) (fun _ => -1/2)
    = { zero := "0", branches := [
        { n1 := "1", n2 := "0", id := "V", e := .norton 0 1 },
        { n1 := "1", n2 := "2", id := "R", e := .norton 1 0 },
        { n1 := "0", n2 := "2", id := "C", e := .norton 0 (-1/2) }] } := by
  unfold stateNet
  rw [netRCf_sources, ofFn_const_one _ netRCf_nu, ofFn_const_one _ netRCf_ns]
  simp [stateElem, Net.mapElems, netRCf, setSource, idxOf?, ValDict.keys]

theorem rcf_phasor_wellposed : WellPosed (phasorOf netRCf [("C", 1)] [] (fun _ => 1) 1) := by
  rw [rcf_phasor]
  intro R h
  simp only [Net.zeroSources, List.map_cons, List.map_nil, Elem.zeroSources] at h
  have h0 : R.pot "0" = 0 := h.ref_zero
  have v1 := h.volt ⟨"1", "0", "V", "", .norton 0 0⟩ (by simp)
  have v2 := h.volt ⟨"1", "2", "R", "", .norton 1 0⟩ (by simp)
  have v3 := h.volt ⟨"0", "2", "C", "", .thevenin 1 0⟩ (by simp)
  have l1 := h.law ⟨"1", "0", "V", "", .norton 0 0⟩ (by simp)
  have l2 := h.law ⟨"1", "2", "R", "", .norton 1 0⟩ (by simp)
  have l3 := h.law ⟨"0", "2", "C", "", .thevenin 1 0⟩ (by simp)
  have k1 := h.kcl_all "1"
  have k2 := h.kcl_all "2"
  simp [voltResidual] at v1 v2 v3
  simp [Elem.lawResidual] at l1 l2 l3
  simp [kclResidual, incidence, Elem.physCurrent, Elem.isLossy, Elem.kind] at k1 k2
  have p1 : R.pot "1" = 0 := by linear_combination l1 - v1 + h0
  have p2 : R.pot "2" = 0 := by linear_combination (1/2) * (k2 - l2 + v2 + l3 + v3 + p1 + h0)
  have i2 : R.i "R" = 0 := by linear_combination v2 - l2 + p1 - p2
  have i3 : R.i "C" = 0 := by linear_combination l3 + v3 + h0 - p2
  have i1 : R.i "V" = 0 := by linear_combination k1 - i2
  constructor
  · intro n hn
    simp only [Net.allLabels, List.map_cons, List.map_nil, List.cons_append, List.nil_append, List.mem_cons,
      List.mem_nil_iff, or_false] at hn
    rcases hn with rfl | rfl | rfl | rfl | rfl | rfl | rfl <;> simp [Report.zeroRep, h0, p1, p2]
  · intro b hb
    simp only [List.mem_cons, List.mem_nil_iff, or_false] at hb
    rcases hb with rfl | rfl | rfl <;> simp only [Report.zeroRep]
    · exact ⟨l1, i1⟩
    · exact ⟨by linear_combination l2 + i2, i2⟩
    · exact ⟨by linear_combination v3 + h0 - p2, i3⟩

theorem rcf_state_wellposed : WellPosed (stateNet netRCf [("C", 1)] [] (fun _ => 1) (fun _ => -1/2)) := by
  rw [rcf_state]
  intro R h
  simp only [Net.zeroSources, List.map_cons, List.map_nil, Elem.zeroSources] at h
  have h0 : R.pot "0" = 0 := h.ref_zero
  have v1 := h.volt ⟨"1", "0", "V", "", .norton 0 0⟩ (by simp)
  have v2 := h.volt ⟨"1", "2", "R", "", .norton 1 0⟩ (by simp)
  have v3 := h.volt ⟨"0", "2", "C", "", .norton 0 0⟩ (by simp)
  have l1 := h.law ⟨"1", "0", "V", "", .norton 0 0⟩ (by simp)
  have l2 := h.law ⟨"1", "2", "R", "", .norton 1 0⟩ (by simp)
  have l3 := h.law ⟨"0", "2", "C", "", .norton 0 0⟩ (by simp)
  have k1 := h.kcl_all "1"
  have k2 := h.kcl_all "2"
  simp [voltResidual] at v1 v2 v3
  simp [Elem.lawResidual] at l1 l2 l3
  simp [kclResidual, incidence, Elem.physCurrent, Elem.isLossy, Elem.kind] at k1 k2
  have p1 : R.pot "1" = 0 := by linear_combination l1 - v1 + h0
  have p2 : R.pot "2" = 0 := by linear_combination v3 - l3 + h0
  have i2 : R.i "R" = 0 := by linear_combination v2 - l2 + p1 - p2
  have i3 : R.i "C" = 0 := by linear_combination -k2 - i2
  have i1 : R.i "V" = 0 := by linear_combination k1 - i2
  constructor
  · intro n hn
    simp only [Net.allLabels, List.map_cons, List.map_nil, List.cons_append, List.nil_append, List.mem_cons,
      List.mem_nil_iff, or_false] at hn
    rcases hn with rfl | rfl | rfl | rfl | rfl | rfl | rfl <;> simp [Report.zeroRep, h0, p1, p2]
  · intro b hb
    simp only [List.mem_cons, List.mem_nil_iff, or_false] at hb
    rcases hb with rfl | rfl | rfl <;> simp only [Report.zeroRep]
    · exact ⟨l1, i1⟩
    · exact ⟨by linear_combination l2 + i2, i2⟩
    · exact ⟨l3, i3⟩

theorem rc_sameInput : SameInput id fC netRC (ssSources netRC []) (List.ofFn fun _ : Fin (ssNInputs netRC []) => (1 : ℚ))
    (ssSources netRCf []) (List.ofFn fun _ : Fin (ssNInputs netRCf []) => (1 : ℚ)) := by
  rw [netRC_sources, netRCf_sources, ofFn_const_one _ netRC_nu, ofFn_const_one _ netRCf_nu]
  intro b hb
  simp [netRC] at hb
  rcases hb with rfl | rfl | rfl <;> simp [lookupVal, idxOf?, fC, sgn]

theorem rc_sameState : SameState id fC netRC [("C", 1)] [] [("C", 1)] []
    (List.ofFn fun _ : Fin (ssNStates netRC [("C", 1)] []) => (1/2 : ℚ))
    (List.ofFn fun _ : Fin (ssNStates netRCf [("C", 1)] []) => (-1/2 : ℚ)) := by
  rw [ofFn_const_one _ netRC_ns, ofFn_const_one _ netRCf_ns]
  constructor
  · intro b hb
    simp [netRC] at hb
    rcases hb with rfl | rfl | rfl <;> (simp [lookupVal, idxOf?, fC, sgn, ValDict.keys]; try norm_num)
  · intro b hb
    simp [lookupVal, idxOf?, ValDict.keys]

/-- **non-vacuity of `C03_transfer_reverse` and `C03_sample_reverse`** (and of `StateModelOK`, `SameValues`,
`SameInput`, `SameState`): the RC circuit and the description with the capacitor's terminals swapped, at
`s = 1`, `u = u' = 1` (the source is not reversed), `x = 1/2`, `x' = -1/2` (the reversed capacitor's voltage). -/
example :
    StateModelOK netRC [("C", 1)] [] rcAinv rcS [[0, 1, 0]] rcM
    ∧ StateModelOK (netRC.flip fC) [("C", 1)] [] rcAinv rcS [[0, -1, 0]] rcMf
    ∧ SameValues id netRC [("C", (1 : ℚ))] [] [("C", 1)] []
    ∧ SameInput id fC netRC (ssSources netRC []) (List.ofFn fun _ : Fin (ssNInputs netRC []) => (1 : ℚ))
        (ssSources (netRC.flip fC) []) (List.ofFn fun _ : Fin (ssNInputs (netRC.flip fC) []) => (1 : ℚ))
    ∧ SameState id fC netRC [("C", 1)] [] [("C", 1)] []
        (List.ofFn fun _ : Fin (ssNStates netRC [("C", 1)] []) => (1/2 : ℚ))
        (List.ofFn fun _ : Fin (ssNStates (netRC.flip fC) [("C", 1)] []) => (-1/2 : ℚ))
    ∧ (1 : ℚ) • (fun _ : Fin (ssNStates netRC [("C", 1)] []) => (1/2 : ℚ))
        = toM (ssNStates netRC [("C", 1)] []) (ssNStates netRC [("C", 1)] []) rcM.A *ᵥ (fun _ => 1/2)
          + toM (ssNStates netRC [("C", 1)] []) (ssNInputs netRC []) rcM.B *ᵥ (fun _ => 1)
    ∧ (1 : ℚ) • (fun _ : Fin (ssNStates (netRC.flip fC) [("C", 1)] []) => (-1/2 : ℚ))
        = toM (ssNStates (netRC.flip fC) [("C", 1)] []) (ssNStates (netRC.flip fC) [("C", 1)] []) rcMf.A *ᵥ (fun _ => -1/2)
          + toM (ssNStates (netRC.flip fC) [("C", 1)] []) (ssNInputs (netRC.flip fC) []) rcMf.B *ᵥ (fun _ => 1)
    ∧ WellPosed (phasorOf (netRC.flip fC) [("C", 1)] [] (fun _ => 1) 1)
    ∧ WellPosed (stateNet (netRC.flip fC) [("C", 1)] [] (fun _ => 1) (fun _ => -1/2)) := by
  rw [netRC_flip]
  exact ⟨rc_ok, rcf_ok, ⟨fun _ _ => rfl, fun _ _ => rfl⟩, rc_sameInput, rc_sameState,
    one_state_eq _ _ netRC_ns netRC_nu _ _ _ _ _ (by norm_num),
    one_state_eq _ _ netRCf_ns netRCf_nu _ _ _ _ _ (by norm_num),
    rcf_phasor_wellposed, rcf_state_wellposed⟩

end C03ex

end CC
