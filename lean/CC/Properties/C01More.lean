/-
  Property C01 — a kernel-checked counterexample for self-loop branches (round 5).

  `C01_sound` and `C01_complete` carry the hypothesis `WF.no_self_loop` (no branch connects a node
  to itself).  The hypothesis is not removable for the current code: `node_matrix_element(i, i)` sums
  the admittances of all branches *connected to* `i`, so a branch from `i` to `i` is added to the
  diagonal although it is electrically inert (open finding C01).  Here the smallest instance is worked
  out over ℚ for the network of the harness corpus

      I(1,0) = 1 A (ideal current source),  R(1,0) = 2 Ω,  S(1,1) = 2 Ω,   reference node 0

  The index maps and the matrix of this network are computed by rewriting (`simp` with the
  `List.mergeSort` equations; kernel reduction with `decide` gets stuck on the well-founded
  `mergeSort` inside `Net.nodeLabels`):  A = [[1]] (should be [[1/2]]), b = [-1].

    C01_self_loop_counterexample        the network is accepted, its circuit equations have the
                                        solution φ₁ = −2, the code's matrix equation has exactly the
                                        solution [-1], and the reported values violate KCL at node 1
    C01_sound_needs_no_self_loop        hence `C01_sound` without `no_self_loop` is FALSE
    C01_complete_needs_no_self_loop     and so is `C01_complete`
  The provable versions are `C01_sound` / `C01_complete` themselves (hypothesis `Net.WF`, which is
  `Network.__post_init__` plus "no self-loop"; satisfiable: `exampleNet_wf`).
-/
import CC.Properties.C01
set_option linter.unusedSectionVars false

namespace CC

def exampleSelfLoop : Net String ℚ :=
  { zero := "0",
    branches := [
      { n1 := "1", n2 := "0", id := "I", e := .thevenin 0 1 },
      { n1 := "1", n2 := "0", id := "R", e := .norton 2 0 },
      { n1 := "1", n2 := "1", id := "S", e := .norton 2 0 } ] }

theorem exampleSelfLoop_nodeLabels : exampleSelfLoop.nodeLabels = ["0", "1"] := by
  simp [Net.nodeLabels, exampleSelfLoop, sortL, dedupL, List.mergeSort, LabelOrd.le]

theorem exampleSelfLoop_nodes : exampleSelfLoop.nodes = ["1"] := by
  simp [Net.nodes, exampleSelfLoop_nodeLabels]
  simp [exampleSelfLoop]

theorem exampleSelfLoop_vsIds : exampleSelfLoop.vsIds = [] := by
  simp [Net.vsIds, Net.vs, exampleSelfLoop, Elem.isIdealVS, sortL]

theorem exampleSelfLoop_vsSorted : exampleSelfLoop.vsSorted = [] := by
  simp [Net.vsSorted, exampleSelfLoop_vsIds, Net.byIds]

theorem exampleSelfLoop_mnaA : exampleSelfLoop.mnaA = [[1]] := by
  simp [Net.mnaA, exampleSelfLoop_nodes, exampleSelfLoop_vsSorted, Net.Yentry]
  simp [Net.nonVS, exampleSelfLoop, Elem.isIdealVS, Elem.Yfin]
  norm_num

theorem exampleSelfLoop_csSorted : exampleSelfLoop.csSorted
    = [{ n1 := "1", n2 := "0", id := "I", e := .thevenin 0 1 }] := by
  have h : exampleSelfLoop.csIds = ["I"] := by
    simp [Net.csIds, Net.cs, exampleSelfLoop, Elem.isCS, Elem.Ival, sortL]
  rw [Net.csSorted, h]
  simp [Net.byIds, Net.get?, exampleSelfLoop]

theorem exampleSelfLoop_mnaB : exampleSelfLoop.mnaB = [-1] := by
  simp [Net.mnaB, exampleSelfLoop_nodes, exampleSelfLoop_vsSorted, Net.rhsNode, exampleSelfLoop_csSorted,
    Net.Qentry, Elem.Ival]
  simp [exampleSelfLoop]

theorem exampleSelfLoop_solution (x : List ℚ)
    (hx : x.length = exampleSelfLoop.nodes.length + exampleSelfLoop.vsIds.length)
    (h : matVec exampleSelfLoop.mnaA x = exampleSelfLoop.mnaB) : x = [-1] := by
  rw [exampleSelfLoop_nodes, exampleSelfLoop_vsIds] at hx
  rw [exampleSelfLoop_mnaA, exampleSelfLoop_mnaB] at h
  match x, hx with
  | [a], _ =>
    simp [matVec, dotL] at h
    rw [h]

theorem exampleSelfLoop_pot : (exampleSelfLoop.reportOf [-1]).pot "1" = -1 := by
  simp only [Net.reportOf, Net.pot, Net.solOf, exampleSelfLoop_nodes]
  simp [exampleSelfLoop, idxOf?]

theorem exampleSelfLoop_iI : (exampleSelfLoop.reportOf [-1]).i "I" = 1 := by
  simp only [Net.reportOf, Net.pot, Net.solOf, exampleSelfLoop_nodes]
  simp [exampleSelfLoop, Net.get?, Net.curOf, Elem.isIdealVS, Elem.isIdealCS, Elem.Ival]

theorem exampleSelfLoop_iR : (exampleSelfLoop.reportOf [-1]).i "R" = -1/2 := by
  simp only [Net.reportOf, Net.solOf, exampleSelfLoop_nodes]
  simp [exampleSelfLoop, Net.get?, Net.curOf, Elem.isIdealVS, Elem.isIdealCS, Elem.isCS, Elem.Ival, Elem.Zfin,
    Net.vOf, Net.pot, idxOf?]

/-- Kirchhoff's current law at node `1` is violated by what the model reports: 1 A leaves through the
source, −1/2 A through `R`, and the self-loop contributes nothing — 1/2 A is missing -/
theorem exampleSelfLoop_kcl :
    kclResidual exampleSelfLoop (exampleSelfLoop.reportOf [-1]) "1" = 1/2 := by
  have e : kclResidual exampleSelfLoop (exampleSelfLoop.reportOf [-1]) "1"
      = (1 : ℚ) * (exampleSelfLoop.reportOf [-1]).i "I" + ((1 : ℚ) * (exampleSelfLoop.reportOf [-1]).i "R" + 0) := by
    simp [kclResidual, exampleSelfLoop, incidence, Elem.physCurrent, Elem.isLossy, Elem.kind]
  rw [e, exampleSelfLoop_iI, exampleSelfLoop_iR]; norm_num

/-- the exact solution of the circuit equations of the same network: `φ₁ = −2` (the self-loop is inert) -/
def exampleSelfLoopReport : Report String ℚ :=
  { pot := fun n => if n = "1" then -2 else 0
    v := fun id => if id = "S" then 0 else -2
    i := fun id => if id = "I" then 1 else if id = "R" then -1 else 0 }

theorem exampleSelfLoopReport_solves : CircuitEqs exampleSelfLoop exampleSelfLoopReport := by
  refine ⟨by decide, ?_, ?_, ?_⟩
  · intro b hb
    simp only [exampleSelfLoop, List.mem_cons, List.mem_nil_iff, or_false] at hb
    rcases hb with rfl | rfl | rfl <;> simp [voltResidual, exampleSelfLoopReport]
  · intro b hb
    simp only [exampleSelfLoop, List.mem_cons, List.mem_nil_iff, or_false] at hb
    rcases hb with rfl | rfl | rfl <;> simp [Elem.lawResidual, exampleSelfLoopReport]
  · intro n hn
    simp only [exampleSelfLoop, Net.allLabels, List.map_cons, List.map_nil, List.cons_append,
      List.nil_append, List.mem_cons, List.mem_nil_iff, or_false] at hn
    rcases hn with rfl | rfl | rfl | rfl | rfl | rfl | rfl <;>
      simp [kclResidual, exampleSelfLoop, incidence, Elem.physCurrent, Elem.isLossy, Elem.kind, exampleSelfLoopReport]

/-- **C01 (self-loop counterexample).**  A concrete network that the library accepts, on which the
modelled code (`Net.mnaA`, `Net.mnaB`, accessors) reports values that do not solve the circuit.
About the code: the statement is about the hand-written model `CC/Model/{Net,MNA}.lean` (tied to
node_analysis.py by the `C01_gen_*` theorems and the `mna` correspondence; the harness runs the real
code on this very network on every run and sees φ₁ = −1).  It does not say which of the two readings
of a self-loop the authors intended; under the Spec (`incidence` = +1 − 1 = 0) it is inert. -/
theorem C01_self_loop_counterexample :
    -- accepted by `Network.__post_init__`, distinct identifiers
    exampleSelfLoop.check = .ok () ∧
    -- the circuit equations have a solution (potential −2 at node 1) …
    CircuitEqs exampleSelfLoop exampleSelfLoopReport ∧
    -- … the matrix equation the code builds has exactly the solution `[-1]` …
    (∀ x : List ℚ, x.length = exampleSelfLoop.nodes.length + exampleSelfLoop.vsIds.length →
      (matVec exampleSelfLoop.mnaA x = exampleSelfLoop.mnaB ↔ x = [-1])) ∧
    -- … and what the accessors report from it is NOT a solution of the circuit (soundness fails) …
    (∀ x : List ℚ, x.length = exampleSelfLoop.nodes.length + exampleSelfLoop.vsIds.length →
      matVec exampleSelfLoop.mnaA x = exampleSelfLoop.mnaB →
      (exampleSelfLoop.reportOf x).pot "1" = -1 ∧
      kclResidual exampleSelfLoop (exampleSelfLoop.reportOf x) "1" = 1/2 ∧
      ¬ CircuitEqs exampleSelfLoop (exampleSelfLoop.reportOf x)) ∧
    -- … while the true solution does not satisfy the matrix equation (completeness fails)
    matVec exampleSelfLoop.mnaA (exampleSelfLoop.pack exampleSelfLoopReport.toSol) ≠ exampleSelfLoop.mnaB := by
  refine ⟨?_, exampleSelfLoopReport_solves, ?_, ?_, ?_⟩
  · rw [Net.check_ok_iff, exampleSelfLoop_nodeLabels]
    exact ⟨by simp [exampleSelfLoop], by decide⟩
  · intro x hx
    refine ⟨exampleSelfLoop_solution x hx, ?_⟩
    rintro rfl
    rw [exampleSelfLoop_mnaA, exampleSelfLoop_mnaB]
    simp [matVec, dotL]
  · intro x hx h
    obtain rfl := exampleSelfLoop_solution x hx h
    refine ⟨exampleSelfLoop_pot, exampleSelfLoop_kcl, ?_⟩
    intro hc
    have := hc.kcl "1" (by simp [Net.allLabels, exampleSelfLoop])
    rw [exampleSelfLoop_kcl] at this
    norm_num at this
  · rw [Net.pack, exampleSelfLoop_nodes, exampleSelfLoop_vsSorted, exampleSelfLoop_mnaA, exampleSelfLoop_mnaB]
    simp [matVec, dotL, Report.toSol, exampleSelfLoopReport]

/-- **`C01_sound` needs `no_self_loop`.**  The soundness statement with `Net.WF` weakened to what
`Network.__post_init__` checks (`N.check = ok`) is false. -/
theorem C01_sound_needs_no_self_loop :
    ¬ ∀ (N : Net String ℚ) (x : List ℚ), N.check = .ok () →
        x.length = N.nodes.length + N.vsIds.length → matVec N.mnaA x = N.mnaB →
        CircuitEqs N (N.reportOf x) := by
  intro hall
  obtain ⟨hc, _, hiff, hbad, _⟩ := C01_self_loop_counterexample
  have hx : ([-1] : List ℚ).length = exampleSelfLoop.nodes.length + exampleSelfLoop.vsIds.length := by
    rw [exampleSelfLoop_nodes, exampleSelfLoop_vsIds]; rfl
  have hs := (hiff [-1] hx).mpr rfl
  exact (hbad [-1] hx hs).2.2 (hall exampleSelfLoop [-1] hc hx hs)

/-- **`C01_complete` needs `no_self_loop`.**  The completeness statement with `Net.WF` weakened to
`N.check = ok` is false: the true solution of the example does not satisfy the matrix equation. -/
theorem C01_complete_needs_no_self_loop :
    ¬ ∀ (N : Net String ℚ) (R : Report String ℚ), N.check = .ok () → CircuitEqs N R →
        matVec N.mnaA (N.pack R.toSol) = N.mnaB := by
  intro hall
  obtain ⟨hc, hsol, _, _, hne⟩ := C01_self_loop_counterexample
  exact hne (hall exampleSelfLoop _ hc hsol)

/-- the only hypothesis of `Net.WF` the example fails is `no_self_loop` -/
example : exampleSelfLoop.ids.Nodup ∧ exampleSelfLoop.zero ∈ exampleSelfLoop.nodeLabels ∧
    ¬ ∀ b ∈ exampleSelfLoop.branches, b.n1 ≠ b.n2 := by
  refine ⟨by decide, by rw [exampleSelfLoop_nodeLabels]; simp [exampleSelfLoop], ?_⟩
  intro h
  exact h { n1 := "1", n2 := "1", id := "S", e := .norton 2 0 } (by simp [exampleSelfLoop]) rfl

end CC

