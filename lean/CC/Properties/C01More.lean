/-
  Property C01 — the self-loop witness, worked out in the kernel (round 5; positive since the repair
  of node_analysis.py).

  Before the repair `node_matrix_element(i, i)` summed the admittances of all branches *connected to*
  `i`, so a branch from `i` to `i` was added to the diagonal although it is electrically inert; this
  file then carried the counterexample `C01_self_loop_counterexample` (A = [[1]], reported φ₁ = −1,
  KCL residual 1/2).  The repaired code skips self-loops on the diagonal and accumulates the source
  incidence entries; the general theorems without the hypothesis `WF.no_self_loop` are
  `C01_sound_selfloops` / `C01_complete_selfloops` (CC/Properties/C01SelfLoop.lean).  Here the same
  smallest instance is worked out over ℚ for the network of the harness corpus

      I(1,0) = 1 A (ideal current source),  R(1,0) = 2 Ω,  S(1,1) = 2 Ω,   reference node 0

  The index maps and the matrix of this network are computed by rewriting (`simp` with the
  `List.mergeSort` equations; kernel reduction with `decide` gets stuck on the well-founded
  `mergeSort` inside `Net.nodeLabels`):  A = [[1/2]], b = [-1].

    C01_self_loop_witness               the network is accepted, the code's matrix equation has exactly
                                        the solution [-2], the values reported from it (φ₁ = −2) solve
                                        the circuit equations, and the exact solution of the circuit
                                        satisfies the matrix equation
-/
import CC.Properties.C01
set_option linter.unusedSectionVars false

namespace CC

def exampleSelfLoop : Net String ℚ :=
  { zero := "0",
    branches := [
      { n1 := "1", n2 := "0", id := "I", e := .thevenin 0 1 },
      { n1 := "1", n2 := "0", id := "R", e := .norton 2 0 },
      { n1 := "1", n2 := "1", id := "S", e := .norton 2 0 } ] }

theorem exampleSelfLoop_nodeLabels : exampleSelfLoop.nodeLabels = ["0", "1"] := by
  simp [Net.nodeLabels, exampleSelfLoop, sortL, dedupL, List.mergeSort, LabelOrd.le]

theorem exampleSelfLoop_nodes : exampleSelfLoop.nodes = ["1"] := by
  simp [Net.nodes, exampleSelfLoop_nodeLabels]
  simp [exampleSelfLoop]

theorem exampleSelfLoop_vsIds : exampleSelfLoop.vsIds = [] := by
  simp [Net.vsIds, Net.vs, exampleSelfLoop, Elem.isIdealVS, sortL]

theorem exampleSelfLoop_vsSorted : exampleSelfLoop.vsSorted = [] := by
  simp [Net.vsSorted, exampleSelfLoop_vsIds, Net.byIds]

theorem exampleSelfLoop_mnaA : exampleSelfLoop.mnaA = [[1/2]] := by
  simp [Net.mnaA, exampleSelfLoop_nodes, exampleSelfLoop_vsSorted, Net.Yentry]
  simp [Net.nonVS, exampleSelfLoop, Elem.isIdealVS, Elem.Yfin]

theorem exampleSelfLoop_csSorted : exampleSelfLoop.csSorted
    = [{ n1 := "1", n2 := "0", id := "I", e := .thevenin 0 1 }] := by
  have h : exampleSelfLoop.csIds = ["I"] := by
    simp [Net.csIds, Net.cs, exampleSelfLoop, Elem.isCS, Elem.Ival, sortL]
  rw [Net.csSorted, h]
  simp [Net.byIds, Net.get?, exampleSelfLoop]

theorem exampleSelfLoop_mnaB : exampleSelfLoop.mnaB = [-1] := by
  simp [Net.mnaB, exampleSelfLoop_nodes, exampleSelfLoop_vsSorted, Net.rhsNode, exampleSelfLoop_csSorted,
    Net.Qentry, Elem.Ival]
  simp [exampleSelfLoop]

theorem exampleSelfLoop_solution (x : List ℚ)
    (hx : x.length = exampleSelfLoop.nodes.length + exampleSelfLoop.vsIds.length)
    (h : matVec exampleSelfLoop.mnaA x = exampleSelfLoop.mnaB) : x = [-2] := by
  rw [exampleSelfLoop_nodes, exampleSelfLoop_vsIds] at hx
  rw [exampleSelfLoop_mnaA, exampleSelfLoop_mnaB] at h
  match x, hx with
  | [a], _ =>
    simp [matVec, dotL] at h
    have : a = -2 := by linear_combination 2 * h
    rw [this]

theorem exampleSelfLoop_pot : (exampleSelfLoop.reportOf [-2]).pot "1" = -2 := by
  simp only [Net.reportOf, Net.pot, Net.solOf, exampleSelfLoop_nodes]
  simp [exampleSelfLoop, idxOf?]

/-- the exact solution of the circuit equations of the same network: `φ₁ = −2` (the self-loop is inert) -/
def exampleSelfLoopReport : Report String ℚ :=
  { pot := fun n => if n = "1" then -2 else 0
    v := fun id => if id = "S" then 0 else -2
    i := fun id => if id = "I" then 1 else if id = "R" then -1 else 0 }

theorem exampleSelfLoopReport_solves : CircuitEqs exampleSelfLoop exampleSelfLoopReport := by
  refine ⟨by decide, ?_, ?_, ?_⟩
  · intro b hb
    simp only [exampleSelfLoop, List.mem_cons, List.mem_nil_iff, or_false] at hb
    rcases hb with rfl | rfl | rfl <;> simp [voltResidual, exampleSelfLoopReport]
  · intro b hb
    simp only [exampleSelfLoop, List.mem_cons, List.mem_nil_iff, or_false] at hb
    rcases hb with rfl | rfl | rfl <;> simp [Elem.lawResidual, exampleSelfLoopReport]
  · intro n hn
    simp only [exampleSelfLoop, Net.allLabels, List.map_cons, List.map_nil, List.cons_append,
      List.nil_append, List.mem_cons, List.mem_nil_iff, or_false] at hn
    rcases hn with rfl | rfl | rfl | rfl | rfl | rfl | rfl <;>
      simp [kclResidual, exampleSelfLoop, incidence, Elem.physCurrent, Elem.isLossy, Elem.kind, exampleSelfLoopReport]

/-- **C01 (self-loop witness).**  The concrete network on which the code before the self-loop repair
reported φ₁ = −1: the library accepts it, and the modelled code (`Net.mnaA`, `Net.mnaB`, accessors)
now reports the solution of the circuit.
About the code: the statement is about the hand-written model `CC/Model/{Net,MNA}.lean` (tied to
node_analysis.py by the `C01_gen_*` theorems and the `mna` correspondence; the harness runs the real
code on this very network on every run and judges it by the Spec oracle). -/
theorem C01_self_loop_witness :
    -- accepted by `Network.__post_init__`, distinct identifiers
    exampleSelfLoop.check = .ok () ∧
    -- the circuit equations have a solution (potential −2 at node 1) …
    CircuitEqs exampleSelfLoop exampleSelfLoopReport ∧
    -- … the matrix equation the code builds has exactly the solution `[-2]` …
    (∀ x : List ℚ, x.length = exampleSelfLoop.nodes.length + exampleSelfLoop.vsIds.length →
      (matVec exampleSelfLoop.mnaA x = exampleSelfLoop.mnaB ↔ x = [-2])) ∧
    -- … what the accessors report from it is that solution of the circuit (the self-loop is inert) …
    (∀ x : List ℚ, x.length = exampleSelfLoop.nodes.length + exampleSelfLoop.vsIds.length →
      matVec exampleSelfLoop.mnaA x = exampleSelfLoop.mnaB →
      (exampleSelfLoop.reportOf x).pot "1" = -2 ∧
      kclResidual exampleSelfLoop (exampleSelfLoop.reportOf x) "1" = 0 ∧
      CircuitEqs exampleSelfLoop (exampleSelfLoop.reportOf x)) ∧
    -- … and the exact solution satisfies the matrix equation (nothing is lost)
    matVec exampleSelfLoop.mnaA (exampleSelfLoop.pack exampleSelfLoopReport.toSol) = exampleSelfLoop.mnaB := by
  have hchk : exampleSelfLoop.zero ∈ exampleSelfLoop.nodeLabels ∧ exampleSelfLoop.ids.Nodup := by
    rw [exampleSelfLoop_nodeLabels]
    exact ⟨by simp [exampleSelfLoop], by decide⟩
  refine ⟨?_, exampleSelfLoopReport_solves, ?_, ?_, ?_⟩
  · rw [Net.check_ok_iff]; exact hchk
  · intro x hx
    refine ⟨exampleSelfLoop_solution x hx, ?_⟩
    rintro rfl
    rw [exampleSelfLoop_mnaA, exampleSelfLoop_mnaB]
    simp [matVec, dotL]
  · intro x hx h
    have hs := (sound_all exampleSelfLoop x hchk.2 hchk.1 hx h).2.2
    obtain rfl := exampleSelfLoop_solution x hx h
    exact ⟨exampleSelfLoop_pot, hs.kcl "1" (by simp [Net.allLabels, exampleSelfLoop]), hs⟩
  · rw [Net.pack, exampleSelfLoop_nodes, exampleSelfLoop_vsSorted, exampleSelfLoop_mnaA, exampleSelfLoop_mnaB]
    simp [matVec, dotL, Report.toSol, exampleSelfLoopReport]

/-- the only hypothesis of `Net.WF` the example fails is `no_self_loop` -/
example : exampleSelfLoop.ids.Nodup ∧ exampleSelfLoop.zero ∈ exampleSelfLoop.nodeLabels ∧
    ¬ ∀ b ∈ exampleSelfLoop.branches, b.n1 ≠ b.n2 := by
  refine ⟨by decide, by rw [exampleSelfLoop_nodeLabels]; simp [exampleSelfLoop], ?_⟩
  intro h
  exact h { n1 := "1", n2 := "1", id := "S", e := .norton 2 0 } (by simp [exampleSelfLoop]) rfl

end CC
