/-
  Source guard for C20: the anchor files of the property contain no decorator, module-level mutable
  state, global statement, redefinition, module-level attribute assignment or mutable default
  argument that the models were not written against (CC/Gen/SourceGuard.lean is regenerated from
  /repo on every run by harness/extract_guard.py).
-/
import CC.Gen.SourceGuard

theorem CC.C20_source_guard : CC.Gen.SourceGuard.unknown_C20 = [] := rfl
