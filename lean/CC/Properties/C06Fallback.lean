/-
  Property C06, round 5b — the `LinAlgError` fallback of `open_circuit_voltage`.

  `NodalAnalysisBiasPointSolution.__post_init__` (bias_point_analysis.py:11-25) catches `numpy.linalg.LinAlgError` and
  continues with the ZERO vector; the model has it in `Net.solutionVector` (CC/Model/Port.lean).  The theorems of
  CC/Properties/C06Equiv.lean exclude the path by the hypothesis `solve N.mnaA N.mnaB ≠ none`.  Here:

    C06_solutionVector_cases         exactly when the fallback is taken: the constructor checks pass and the solver
                                     returns `none`; then — and only then — the vector is the zero vector of the
                                     right-hand side's length; otherwise it is the solver's answer;
    C06_oc_voltage_fallback_value    on the fallback path `open_circuit_voltage` reports `0` (if it reports at all),
                                     whatever the network;
    C06_solver_none_iff              for a solver that is sound (`SolveOK`) and complete (`SolveComplete`): it returns
                                     `none` iff the system has no solution;
    C06_mna_solution_exists          the system of a valid well-posed network has a solution;
    C06_oc_voltage_no_fallback       hence for a valid well-posed network and a complete solver the fallback is NEVER
                                     taken, and `solutionVector` is a solution of the network's system;
    C06_oc_voltage_wellposed         … and `open_circuit_voltage` is THE open-circuit port voltage (of every solution);
    C06_thevenin_record_terminal_wp / C06_norton_record_terminal_wp / C06_thevenin_replace_wp
                                     the equivalent-source theorems with `hsome` replaced by `WellPosed N` and a
                                     complete solver.
-/
import CC.Properties.C06Replace
set_option linter.unusedSectionVars false
set_option linter.unusedVariables false
set_option linter.unnecessarySeqFocus false

namespace CC
variable {L K : Type} [DecidableEq L] [LabelOrd L] [Field K] [DecidableEq K]

/-- a solver that answers whenever an answer exists (numpy raises `LinAlgError` only for a singular matrix; a
consistent singular system is not covered by this assumption's converse — see `C06_solver_none_iff`) -/
def SolveComplete (solve : List (List K) → List K → Option (List K)) : Prop :=
  ∀ A b, (∃ x : List K, x.length = b.length ∧ matVec A x = b) → solve A b ≠ none

/-- **C06 (`__post_init__`: exactly when the zero-vector fallback is taken).**  `solutionVector` raises iff the
`Network` constructor checks fail; otherwise it returns the solver's vector when there is one, and the zero vector of
the length of the right-hand side when — and only when — the solver returns `none` (`LinAlgError`). -/
theorem C06_solutionVector_cases (solve : List (List K) → List K → Option (List K)) (N : Net L K) (x : List K) :
    N.solutionVector solve = .ok x ↔
      N.check = .ok () ∧ (solve N.mnaA N.mnaB = some x ∨
        (solve N.mnaA N.mnaB = none ∧ x = N.mnaB.map fun _ => (0 : K))) := by
  unfold Net.solutionVector Net.assemble
  cases hc : N.check with
  | error e => simp [bind, Except.bind]
  | ok u =>
    cases hs : solve N.mnaA N.mnaB with
    | none =>
      simp only [bind, Except.bind, pure, Except.pure, hs, Except.ok.injEq, true_and, reduceCtorEq, false_or]
      constructor
      · intro h; exact h.symm
      · intro h; exact h.symm
    | some y =>
      simp only [bind, Except.bind, pure, Except.pure, hs, Except.ok.injEq, true_and, Option.some.injEq,
        reduceCtorEq, false_and, or_false]

theorem getD_map_zero (l : List K) (k : Nat) : (l.map fun _ => (0 : K)).getD k 0 = 0 := by
  simp only [List.getD_eq_getElem?_getD, List.getElem?_map]
  cases l[k]? <;> rfl

/-- **C06 (what the fallback reports).**  When the solver returns `none` for the network's own system,
`open_circuit_voltage` — if it returns a number at all — returns `0`, for every network and every port: the zero
vector is read as "all potentials zero".  (For a network with sources that is not a solution of the circuit
equations; `C06_oc_voltage_no_fallback` shows that a complete solver never gets here on a well-posed network.) -/
theorem C06_oc_voltage_fallback_value (solve : List (List K) → List K → Option (List K)) (N : Net L K)
    (n1 n2 : L) (V : K) (hnone : solve N.mnaA N.mnaB = none)
    (h : N.openCircuitVoltage solve n1 n2 = .ok V) : V = 0 := by
  unfold Net.openCircuitVoltage at h
  cases hx : N.solutionVector solve with
  | error e => simp [hx, bind, Except.bind] at h
  | ok x =>
    obtain ⟨_, hcase⟩ := (C06_solutionVector_cases solve N x).mp hx
    rcases hcase with hs | ⟨_, rfl⟩
    · rw [hnone] at hs; cases hs
    · simp only [hx, bind, Except.bind] at h
      by_cases e : n1 = n2
      · simp [e, pure, Except.pure] at h; exact h.symm
      · simp only [e, if_false] at h
        have hp : ∀ n p, N.potential (N.mnaB.map fun _ => (0 : K)) n = .ok p → p = 0 := by
          intro n p hp
          unfold Net.potential at hp
          by_cases hz : n = N.zero
          · simp [hz] at hp; exact hp.symm
          · simp only [hz, if_false] at hp
            cases hi : idxOf? n N.nodes with
            | none => simp [hi] at hp
            | some k =>
              simp only [hi, getD_map_zero, Except.ok.injEq] at hp
              exact hp.symm
        cases h1 : N.potential (N.mnaB.map fun _ => (0 : K)) n1 with
        | error e => rw [h1] at h; cases h
        | ok p1 =>
          cases h2 : N.potential (N.mnaB.map fun _ => (0 : K)) n2 with
          | error e => rw [h1] at h; simp only [] at h; rw [h2] at h; cases h
          | ok p2 =>
            simp only [h1, h2, pure, Except.pure, Except.ok.injEq] at h
            rw [← h, hp n1 p1 h1, hp n2 p2 h2, sub_zero]

/-- **C06 (a sound and complete solver returns `none` exactly for unsolvable systems).** -/
theorem C06_solver_none_iff (solve : List (List K) → List K → Option (List K)) (hok : SolveOK solve)
    (hc : SolveComplete solve) (A : List (List K)) (b : List K) :
    solve A b = none ↔ ¬ ∃ x : List K, x.length = b.length ∧ matVec A x = b := by
  constructor
  · intro h hex; exact hc A b hex h
  · intro h
    cases hs : solve A b with
    | none => rfl
    | some x => exact absurd ⟨x, hok A b x hs⟩ h

/-- **C06 (the system of a valid well-posed network is solvable).**  The matrix is square with trivial kernel
(`C01_solvable`, `C01_square`), hence onto (Mathlib: injective ⇔ unit ⇔ surjective). -/
theorem C06_mna_solution_exists (N : Net L K) (wf : N.WF) (hw : WellPosed N) :
    ∃ x : List K, x.length = N.mnaB.length ∧ matVec N.mnaA x = N.mnaB := by
  set n := N.nodes.length + N.vsIds.length with hn
  have hsq := C01_square N
  have hlen : N.mnaA.length = n := by rw [hsq.1, vsSorted_length N wf.ids_nodup]
  have hrow : ∀ r ∈ N.mnaA, r.length = n := by
    intro r hr; rw [hsq.2 r hr, vsSorted_length N wf.ids_nodup]
  have hb : N.mnaB.length = n := by simp [Net.mnaB, vsSorted_length N wf.ids_nodup, hn]
  have hzero : (N.mnaB.map fun _ => (0 : K)) = List.replicate n 0 := by
    apply List.ext_getElem <;> simp [hb]
  have hker : ∀ x : List K, x.length = n → matVec N.mnaA x = List.replicate n 0 → x = List.replicate n 0 := by
    intro x hx h
    have := C01_solvable N wf hw x hx (by rw [hzero]; exact h)
    rw [hx] at this; exact this
  obtain ⟨x, hx, hsol⟩ := matVec_surjective_of_trivial_kernel n N.mnaA hlen hrow hker N.mnaB hb
  exact ⟨x, by rw [hx, hb], hsol⟩

/-- **C06 (`open_circuit_voltage` never takes the `LinAlgError` fallback on a well-posed network).**  For a valid
(`WF`) well-posed network and a solver that answers whenever the system has a solution (`SolveComplete`), the
solver does answer for the network's own system — the hypothesis `hsome` of `C06_openCircuitVoltage_sound`,
`C06_shortCircuitCurrent_spec`, `C06_thevenin_record_terminal`, `C06_norton_record_terminal`, `C06_thevenin_replace`,
`C06_norton_replace` is met —, and with `SolveOK` the vector `solutionVector` returns solves the system (it is not
the zero-vector stand-in).  About the model; exact arithmetic: numpy may still raise on an ill-conditioned matrix that
is exactly regular. -/
theorem C06_oc_voltage_no_fallback (N : Net L K) (solve : List (List K) → List K → Option (List K))
    (wf : N.WF) (hw : WellPosed N) (hc : SolveComplete solve) :
    solve N.mnaA N.mnaB ≠ none ∧
      (SolveOK solve → ∃ x, N.solutionVector solve = .ok x ∧ solve N.mnaA N.mnaB = some x ∧
        matVec N.mnaA x = N.mnaB) := by
  have hne := hc _ _ (C06_mna_solution_exists N wf hw)
  refine ⟨hne, fun hok => ?_⟩
  cases hs : solve N.mnaA N.mnaB with
  | none => exact absurd hs hne
  | some x =>
    have hcheck : N.check = .ok () := (Net.check_ok_iff N).mpr ⟨wf.zero_mem, wf.ids_nodup⟩
    exact ⟨x, solutionVector_some solve N x hcheck hs, rfl, (hok _ _ x hs).2⟩

/-- **C06 (`open_circuit_voltage` of a well-posed network is THE open-circuit port voltage).**  Valid well-posed
network, sound and complete solver, two labels of the network: whatever number the function returns is
`φ(n1) − φ(n2)` in EVERY solution of the circuit equations of `N` — no hypothesis on the solver's answer. -/
theorem C06_oc_voltage_wellposed (N : Net L K) (solve : List (List K) → List K → Option (List K))
    (n1 n2 : L) (V : K) (wf : N.WF) (hw : WellPosed N) (hsolve : SolveOK solve) (hc : SolveComplete solve)
    (h1 : n1 ∈ N.allLabels) (h2 : n2 ∈ N.allLabels) (h : N.openCircuitVoltage solve n1 n2 = .ok V)
    (R : Report L K) (hR : CircuitEqs N R) : V = R.pot n1 - R.pot n2 := by
  obtain ⟨S, hS, hV⟩ := C06_openCircuitVoltage_sound N solve n1 n2 V wf hsolve
    (C06_oc_voltage_no_fallback N solve wf hw hc).1 h1 h2 h
  obtain ⟨hpot, _⟩ := C01_unique N wf.ids_nodup hw S R hS hR
  rw [hV, hpot n1 h1, hpot n2 h2]

/-- `C06_thevenin_record_terminal` without the hypothesis "the solver answers": `WellPosed N` and a complete solver -/
theorem C06_thevenin_record_terminal_wp (N : Net L K) (solve : List (List K) → List K → Option (List K))
    (pid : String) (n1 n2 : L) (z' : K) (T : TheveninEq K) (wf : N.WF) (hwN : WellPosed N) (hsolve : SolveOK solve)
    (hc : SolveComplete solve) (hp : pid ∉ N.ids) (h1 : n1 ∈ N.allLabels) (h2 : n2 ∈ N.allLabels)
    (hw : WellPosed (probeNet N pid n1 n2 1)) (hdef : PortZ N pid n1 n2 z')
    (h : N.theveninEquivalent solve n1 n2 = .ok T)
    (x : Branch L K) (hx1 : x.n1 = n1) (hx2 : x.n2 = n2) (Rl : Report L K) (hl : CircuitEqs (N.attach x) Rl) :
    Rl.pot n1 - Rl.pot n2 = T.U - T.Z * x.e.physCurrent (Rl.i x.id) :=
  C06_thevenin_record_terminal N solve pid n1 n2 z' T wf hsolve hp (C06_oc_voltage_no_fallback N solve wf hwN hc).1
    h1 h2 hw hdef h x hx1 hx2 Rl hl

/-- `C06_norton_record_terminal` without the hypothesis "the solver answers" -/
theorem C06_norton_record_terminal_wp (N : Net L K) (solve : List (List K) → List K → Option (List K))
    (pid : String) (n1 n2 : L) (z' : K) (T : TheveninEq K) (Q : NortonEq K) (wf : N.WF) (hwN : WellPosed N)
    (hsolve : SolveOK solve) (hc : SolveComplete solve)
    (hp : pid ∉ N.ids) (h1 : n1 ∈ N.allLabels) (h2 : n2 ∈ N.allLabels)
    (hw : WellPosed (probeNet N pid n1 n2 1)) (hdef : PortZ N pid n1 n2 z')
    (hT : N.theveninEquivalent solve n1 n2 = .ok T) (hQ : N.nortonEquivalent solve n1 n2 = .ok Q)
    (x : Branch L K) (hx1 : x.n1 = n1) (hx2 : x.n2 = n2) (Rl : Report L K) (hl : CircuitEqs (N.attach x) Rl) :
    (T.Z ≠ 0 ∧ Q.I = T.U / T.Z ∧ Q.Y = 1 / T.Z ∧ T.U = T.Z * Q.I) ∧
      x.e.physCurrent (Rl.i x.id) = Q.I - Q.Y * (Rl.pot n1 - Rl.pot n2) :=
  C06_norton_record_terminal N solve pid n1 n2 z' T Q wf hsolve hp (C06_oc_voltage_no_fallback N solve wf hwN hc).1
    h1 h2 hw hdef hT hQ x hx1 hx2 Rl hl

/-- `C06_thevenin_replace` without the hypothesis "the solver answers" -/
theorem C06_thevenin_replace_wp (N : Net L K) (solve : List (List K) → List K → Option (List K))
    (pid : String) (n1 n2 : L) (z' : K) (T : TheveninEq K) (wf : N.WF) (hwN : WellPosed N) (hsolve : SolveOK solve)
    (hc : SolveComplete solve) (hp : pid ∉ N.ids) (h1 : n1 ∈ N.allLabels) (h2 : n2 ∈ N.allLabels)
    (hw : WellPosed (probeNet N pid n1 n2 1)) (hdef : PortZ N pid n1 n2 z')
    (h : N.theveninEquivalent solve n1 n2 = .ok T)
    (x : Branch L K) (hx1 : x.n1 = n1) (hx2 : x.n2 = n2) (hn : n1 ≠ n2) (m : L) (hm1 : m ≠ n1) (hm2 : m ≠ n2)
    (sid zid : String) (hsz : sid ≠ zid) (hxs : x.id ≠ sid) (hxz : x.id ≠ zid)
    (hdet : x.e.seriesDet T.Z ≠ 0)
    (Rl : Report L K) (hl : CircuitEqs (N.attach x) Rl)
    (Re : Report L K) (he : CircuitEqs ((thevNet n1 n2 m sid zid T.U T.Z).attach x) Re) :
    Rl.v x.id = Re.v x.id ∧ Rl.i x.id = Re.i x.id ∧ Rl.pot n1 - Rl.pot n2 = Re.pot n1 - Re.pot n2 :=
  C06_thevenin_replace N solve pid n1 n2 z' T wf hsolve hp (C06_oc_voltage_no_fallback N solve wf hwN hc).1
    h1 h2 hw hdef h x hx1 hx2 hn m hm1 hm2 sid zid hsz hxs hxz hdet Rl hl Re he

/-! ### non-vacuity -/

namespace C06ex

/-- a sound and complete solver exists (classically): pick a solution when there is one -/
noncomputable def solveC : List (List ℚ) → List ℚ → Option (List ℚ) := fun A b =>
  open Classical in
  if h : ∃ x : List ℚ, x.length = b.length ∧ matVec A x = b then some (Classical.choose h) else none

theorem solveC_ok : SolveOK solveC := by
  intro A b x h
  unfold solveC at h
  split at h
  · rename_i hex
    cases h
    exact Classical.choose_spec hex
  · cases h

theorem solveC_complete : SolveComplete solveC := by
  intro A b hex
  unfold solveC
  simp [hex]

theorem exN_wellPosed_self : WellPosed exN := by
  intro R hR
  have hR' : CircuitEqs ⟨[⟨1, 0, "Vs", "", (Elem.norton (0 : ℚ) 10).zeroSources⟩,
      ⟨1, 2, "R1", "", (Elem.norton (10 : ℚ) 0).zeroSources⟩, ⟨2, 0, "R2", "", (Elem.norton (10 : ℚ) 0).zeroSources⟩], 0⟩ R := hR
  rw [eqs3_iff] at hR'
  obtain ⟨h0, ⟨v1, v2, v3⟩, ⟨l1, l2, l3⟩, hk⟩ := hR'
  have k1 := hk 1
  have k2 := hk 2
  simp only [zs_not_lossy, incidence] at k1 k2
  norm_num at k1 k2
  simp only [voltResidual] at v1 v2 v3
  rw [law_zs_norton] at l1 l2 l3
  simp only at l1 l2 l3
  have p1 : R.pot 1 = 0 := by linarith
  have p2 : R.pot 2 = 0 := by linarith
  have e1 : R.v "Vs" = 0 := by linarith
  have e2 : R.v "R1" = 0 := by linarith
  have e3 : R.v "R2" = 0 := by linarith
  have i2 : R.i "R1" = 0 := by linarith
  have i3 : R.i "R2" = 0 := by linarith
  have i1 : R.i "Vs" = 0 := by linarith
  refine ⟨?_, ?_⟩
  · intro n hn
    simp only [Net.allLabels, exN, List.map_cons, List.map_nil, List.cons_append, List.nil_append, List.mem_cons,
      List.not_mem_nil, or_false] at hn
    rcases hn with rfl | rfl | rfl | rfl | rfl | rfl | rfl <;> simp [Report.zeroRep, *]
  · intro br hbr
    simp only [exN, List.mem_cons, List.not_mem_nil, or_false] at hbr
    rcases hbr with rfl | rfl | rfl <;> simp [Report.zeroRep, *]

end C06ex

/-- non-vacuity of `C06_oc_voltage_no_fallback`, `C06_oc_voltage_wellposed`, `C06_solver_none_iff` and the `_wp` theorems:
`exN` is valid and well-posed, a sound and complete solver exists; hence that solver answers for `exN`'s system. -/
example : C06ex.exN.WF ∧ WellPosed C06ex.exN ∧ SolveOK C06ex.solveC ∧ SolveComplete C06ex.solveC ∧
    C06ex.solveC C06ex.exN.mnaA C06ex.exN.mnaB ≠ none :=
  ⟨C06ex.exN_wf, C06ex.exN_wellPosed_self, C06ex.solveC_ok, C06ex.solveC_complete,
    (C06_oc_voltage_no_fallback C06ex.exN C06ex.solveC C06ex.exN_wf C06ex.exN_wellPosed_self
      C06ex.solveC_complete).1⟩

/-- non-vacuity of `C06_oc_voltage_fallback_value` and the fallback case of `C06_solutionVector_cases`: the solver that
never answers sends `exN` (open-circuit voltage `5 V` at the port `(2, 0)`) down the fallback path: `0 V` reported. -/
example : C06ex.exN.solutionVector (fun _ _ => none) = .ok [0, 0, 0] ∧
    C06ex.exN.openCircuitVoltage (fun _ _ => none) 2 0 = .ok 0 := by
  have hs : C06ex.exN.solutionVector (fun _ _ => none) = .ok [(0 : ℚ), 0, 0] := by
    rw [C06_solutionVector_cases]
    exact ⟨C06ex.exN_check, Or.inr ⟨rfl, by rw [C06ex.exN_mnaB]; rfl⟩⟩
  refine ⟨hs, ?_⟩
  unfold Net.openCircuitVoltage
  rw [hs]
  simp [bind, Except.bind, pure, Except.pure, Net.potential, C06ex.exN_nodes, idxOf?]
  simp [C06ex.exN]

end CC
