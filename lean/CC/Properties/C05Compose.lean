/-
  C05 — compositions of the power balance with the results of C09 (time-domain superposition)
  and C12 (transient samples).

  `C05_instant` needs Kirchhoff's two laws at one instant.  Here those hypotheses are discharged:
    C05_transient_sample   every sample of the simulated system (ANY state x, input u — hence any
                           integrator) has instantaneous powers that sum to zero (via C12_sample_circuit);
    C05_periodic_steady    the complex powers of the simulated system's frequency response sum to zero
                           (via C12_periodic_steady);
    C05_superposed         a report superposed from lines `φ_l(R_l)` with additive maps `φ_l` and line
                           reports `R_l` that satisfy Kirchhoff's laws satisfies them too, hence Tellegen;
    C05_time_domain        instance: `v(t) = Σ_l Re(V_l·e^{j w_l t})` — the time-domain solution at any
                           instant, from the per-frequency phasor solutions (C01_sound per frequency).
-/
import CC.Properties.C05
import CC.Properties.C12
import Mathlib.Data.Complex.Basic

set_option linter.unusedSectionVars false

namespace CC
open Matrix Mx

section
variable {L K : Type} [DecidableEq L] [LabelOrd L] [Field K] [DecidableEq K]

/-- **C05 ∘ C12 (every transient sample balances).**  For the executable state-space model (any
certificates), ANY state `x` and input `u`: the instantaneous powers `v·i` of all elements of the
circuit at that sample — capacitor `k` carrying `C_k·ẋ_k`, inductor `k` holding `L_k·ẋ_k` — sum to zero. -/
theorem C05_transient_sample {N : Net L K} {cvals lvals : ValDict K} {Ainv S Delta : List (List K)}
    {m : SSMats K} (h : RLC N cvals lvals) (hD : ssDelta N cvals = .ok Delta)
    (hm : stateSpaceMatrices N cvals lvals Ainv S = .ok m)
    (hc : ModelCert id N cvals lvals Ainv S Delta)
    (x : Fin (ssNStates N cvals lvals) → K) (u : Fin (ssNInputs N lvals) → K) :
    let y := toM N.nY (ssNStates N cvals lvals) m.C *ᵥ x + toM N.nY (ssNInputs N lvals) m.D *ᵥ u
    let xdot := toM (ssNStates N cvals lvals) (ssNStates N cvals lvals) m.A *ᵥ x
                + toM (ssNStates N cvals lvals) (ssNInputs N lvals) m.B *ᵥ u
    let P := sampleNet N cvals lvals (ssSources N lvals) (List.ofFn u) (List.ofFn xdot)
    (P.branches.map fun b => (P.reportOf (List.ofFn y)).v b.id
        * b.e.physCurrent ((P.reportOf (List.ofFn y)).i b.id)).sum = 0 := by
  intro y xdot P
  have hE := C12_sample_circuit h hD hm hc x u
  exact C05_instant P _ hE.volt hE.kcl_all

/-- **C05 ∘ C12 (frequency response balances).**  At every complex frequency `s` the complex powers
`V·conj(I)` of the simulated system's response sum to zero over the phasor circuit at `s`. -/
theorem C05_periodic_steady (conj : K →+* K) {N : Net L K} {cvals lvals : ValDict K}
    {Ainv S Delta : List (List K)}
    {m : SSMats K} (h : RLC N cvals lvals) (hD : ssDelta N cvals = .ok Delta)
    (hm : stateSpaceMatrices N cvals lvals Ainv S = .ok m)
    (hc : ModelCert id N cvals lvals Ainv S Delta)
    (s : K) (x : Fin (ssNStates N cvals lvals) → K) (u : Fin (ssNInputs N lvals) → K)
    (hx : s • x = toM _ _ m.A *ᵥ x + toM _ _ m.B *ᵥ u) :
    let y := toM N.nY (ssNStates N cvals lvals) m.C *ᵥ x + toM N.nY (ssNInputs N lvals) m.D *ᵥ u
    let P := sampleNet N cvals lvals (ssSources N lvals) (List.ofFn u) (List.ofFn (s • x))
    let Q := phasorNet N cvals lvals (ssSources N lvals) (List.ofFn u) s
    (Q.branches.map fun b => (P.reportOf (List.ofFn y)).v b.id
        * conj (b.e.physCurrent ((P.reportOf (List.ofFn y)).i b.id))).sum = 0 := by
  intro y P Q
  exact C05_tellegen conj Q _ (C12_periodic_steady h hD hm hc s x u hx)

end

section
variable {L K : Type} [DecidableEq L] [Field K] [DecidableEq K]

/-- superposition of line reports through additive maps: `Σ_l φ_l(R_l)` -/
def superpose : List ((K →+ K) × Report L K) → Report L K
  | [] => ⟨fun _ => 0, fun _ => 0, fun _ => 0⟩
  | l :: t => ⟨fun n => l.1 (l.2.pot n) + (superpose t).pot n,
               fun k => l.1 (l.2.v k) + (superpose t).v k,
               fun k => l.1 (l.2.i k) + (superpose t).i k⟩

theorem voltResidual_superpose (lines : List ((K →+ K) × Report L K)) (b : Branch L K) :
    voltResidual (superpose lines) b = (lines.map fun l => l.1 (voltResidual l.2 b)).sum := by
  induction lines with
  | nil => simp [superpose, voltResidual]
  | cons l t ih =>
    rw [List.map_cons, List.sum_cons, ← ih]
    simp only [voltResidual, superpose, map_sub]
    ring

theorem physCurrent_add_hom (e : Elem K) (φ : K →+ K) (a r : K) :
    e.physCurrent (φ a + r) = φ (e.physCurrent a) + e.physCurrent r := by
  unfold Elem.physCurrent
  by_cases h : e.isLossy = true <;> simp [h, add_comm]

theorem incidence_mul_hom (b : Branch L K) (n : L) (φ : K →+ K) (a : K) :
    incidence b n * φ a = φ (incidence b n * a) := by
  unfold incidence
  by_cases h1 : b.n1 = n <;> by_cases h2 : b.n2 = n <;> simp [h1, h2]

theorem kclResidual_superpose (N : Net L K) (lines : List ((K →+ K) × Report L K)) (n : L) :
    kclResidual N (superpose lines) n = (lines.map fun l => l.1 (kclResidual N l.2 n)).sum := by
  induction lines with
  | nil =>
    simp only [List.map_nil, List.sum_nil]
    unfold kclResidual
    apply List.sum_eq_zero
    intro y hy
    obtain ⟨b, _, rfl⟩ := List.mem_map.mp hy
    simp [superpose, Elem.physCurrent]
  | cons l t ih =>
    rw [List.map_cons, List.sum_cons, ← ih]
    unfold kclResidual
    rw [map_list_sum, List.map_map, ← List.sum_map_add]
    apply congrArg; apply List.map_congr_left
    intro b _
    simp only [superpose, Function.comp_apply]
    rw [physCurrent_add_hom, mul_add, incidence_mul_hom]

/-- **C05 (superposed reports balance).**  If every line report satisfies Kirchhoff's voltage and
current laws on `N`, the superposed report does, and its instantaneous powers sum to zero. -/
theorem C05_superposed (N : Net L K) (lines : List ((K →+ K) × Report L K))
    (hv : ∀ l ∈ lines, ∀ b ∈ N.branches, voltResidual l.2 b = 0)
    (hk : ∀ l ∈ lines, ∀ n, kclResidual N l.2 n = 0) :
    (N.branches.map fun b => (superpose lines).v b.id
        * b.e.physCurrent ((superpose lines).i b.id)).sum = 0 := by
  apply C05_instant N
  · intro b hb
    rw [voltResidual_superpose]
    apply List.sum_eq_zero
    intro y hy
    obtain ⟨l, hl, rfl⟩ := List.mem_map.mp hy
    rw [hv l hl b hb, map_zero]
  · intro n
    rw [kclResidual_superpose]
    apply List.sum_eq_zero
    intro y hy
    obtain ⟨l, hl, rfl⟩ := List.mem_map.mp hy
    rw [hk l hl n, map_zero]

end

section
variable {L : Type} [DecidableEq L]

/-- `x ↦ Re(x·z)` as an additive map ℂ → ℂ: one spectral line evaluated at an instant
(`z = e^{j w t}`) -/
def reLine (z : ℂ) : ℂ →+ ℂ where
  toFun x := ((x * z).re : ℂ)
  map_zero' := by simp
  map_add' a b := by simp [add_mul]

@[simp] theorem reLine_apply (z x : ℂ) : reLine z x = ((x * z).re : ℂ) := rfl

/-- **C05 ∘ C09 (time-domain solutions balance at every instant).**  With phasor reports `R_l` that
satisfy Kirchhoff's laws per frequency (C01_sound per analysed frequency) and `z_l = e^{j w_l t}`,
the instantaneous values `v(t) = Σ_l Re(V_l z_l)`, `i(t) = Σ_l Re(I_l z_l)` have powers
`p(t) = v(t)·i(t)` that sum to zero over the elements. -/
theorem C05_time_domain (N : Net L ℂ) (lines : List (ℂ × Report L ℂ))
    (hv : ∀ l ∈ lines, ∀ b ∈ N.branches, voltResidual l.2 b = 0)
    (hk : ∀ l ∈ lines, ∀ n, kclResidual N l.2 n = 0) :
    let R := superpose (lines.map fun l => (reLine l.1, l.2))
    (N.branches.map fun b => R.v b.id * b.e.physCurrent (R.i b.id)).sum = 0 := by
  intro R
  apply C05_superposed N
  · intro l hl
    obtain ⟨l', hl', rfl⟩ := List.mem_map.mp hl
    exact hv l' hl'
  · intro l hl
    obtain ⟨l', hl', rfl⟩ := List.mem_map.mp hl
    exact hk l' hl'

/-- the superposed voltage really is `Σ_l Re(V_l z_l)` -/
theorem superpose_reLine_v (lines : List (ℂ × Report L ℂ)) (k : String) :
    (superpose (lines.map fun l => (reLine l.1, l.2))).v k
      = (((lines.map fun l => (l.2.v k * l.1).re).sum : ℝ) : ℂ) := by
  induction lines with
  | nil => simp [superpose]
  | cons l t ih => simp [superpose, ih]

/-- non-vacuity: one line of a one-branch loop -/
example : (superpose (L := Nat) [(reLine 1, ⟨fun _ => 0, fun _ => 2, fun _ => 3⟩)]).v "a" = 2 := by
  simp [superpose]

end
end CC
