/-
  Property C06, round 5 — the converse direction of the pruning path: every solution of the probe network,
  restricted to the kept unknowns, solves the pruned system the code hands to `solve`.  Hence a hypothesis on
  the code's own data — the pruned system has at most one solution (the matrix is regular) — suffices for the
  returned number to be the Spec's port impedance.
-/
import CC.Properties.C06Prune
set_option linter.unusedSectionVars false
set_option linter.unusedVariables false

namespace CC
variable {L K : Type} [DecidableEq L] [LabelOrd L] [Field K] [DecidableEq K]

/-- every solution of the probe network (on the re-referenced network `P`), packed and restricted to the kept
unknowns, solves the pruned unit-injection system; its entry at the re-indexed port position is the port voltage -/
theorem probe_solution_restrict (P : Net L K) (pid : String) (a : L) (hids : P.ids.Nodup) (hp : pid ∉ P.ids)
    (hsl : ∀ b ∈ P.branches, b.n1 ≠ b.n2) (hz : P.zero ∈ P.nodeLabels)
    (i : Nat) (hai : idxOf? a P.nodes = some i) (hcol : colZero P.mnaA i = false)
    (S : Report L K) (hS : CircuitEqs (probeNet P pid a P.zero 1) S) :
    ∃ y : List K, y.length = (subMatrix (keepMask P.mnaA.length P.mnaA) P.mnaA).length ∧
      matVec (subMatrix (keepMask P.mnaA.length P.mnaA) P.mnaA) y
        = unitVec (subMatrix (keepMask P.mnaA.length P.mnaA) P.mnaA).length
            (countBefore (keepMask P.mnaA.length P.mnaA) i) ∧
      y.getD (countBefore (keepMask P.mnaA.length P.mnaA) i) 0 = S.pot a - S.pot P.zero := by
  set keep := keepMask P.mnaA.length P.mnaA with hkeep
  have hklen : keep.length = P.mnaA.length := keepMask_length _ _
  have ha : a ∈ P.nodes := by
    by_contra hna; rw [idxOf?_none_of_not_mem hna] at hai; cases hai
  obtain ⟨haL, haz⟩ := (mem_nodes_iff P a).mp ha
  obtain ⟨k, hk, hilt, hget⟩ := idxOf?_of_mem ha
  have hik : k = i := by rw [hk] at hai; exact Option.some.inj hai
  subst hik
  have hin : k < P.mnaA.length := by rw [mnaA_length]; omega
  have hki : keep[k]? = some true := keepMask_true_of_colZero_false _ _ k hin hcol
  set M := probeM P pid a with hM
  have wf : M.WF := probeM_wf P pid a hids hp haL hz haz hsl
  have hmat := C01_complete M S wf hS
  obtain ⟨rowsN, rowsV⟩ := (matVec_pack_iff M S.toSol).mp hmat
  set s := S.toSol with hs
  have hperm := probeM_nodes_perm P pid a haL hz
  have hfull : matVec P.mnaA (P.pack s) = unitVec (P.nodes.length + P.vsSorted.length) k := by
    rw [matVec_pack_rows, unitVec_split P.nodes (nodes_nodup P) P.vsSorted k hilt]
    congr 1
    · apply List.map_congr_left
      intro n hn
      rw [← probeM_rowNode P pid a hids hp haL hz s n, rowsN n (hperm.mem_iff.mpr hn),
        probeM_rhsNode P pid a hids hp haz]
      by_cases e : a = n
      · subst e; simp [hk]
      · have : idxOf? n P.nodes ≠ some k := fun h => e (idxOf?_inj hk h)
        simp [e, this]
    · apply List.map_congr_left
      intro b hb
      have hb' : zsB b ∈ M.vsSorted := by
        rw [probeM_vsSorted P pid a hids hp]; exact List.mem_map.mpr ⟨b, hb, rfl⟩
      rw [← probeM_rowVS P pid a haL hz s b, rowsV (zsB b) hb']
      have hvs : b.e.isIdealVS = true := by
        have : b ∈ P.vs := (vsSorted_perm P hids).mem_iff.mp hb
        exact (List.mem_filter.mp this).2
      cases he : b.e with
      | thevenin Y I => rw [he] at hvs; simp [Elem.isIdealVS] at hvs
      | norton Z V => simp [Elem.zeroSources, Elem.Vval, he]
  have hplen : (P.pack s).length = keep.length := by
    rw [hklen, mnaA_length]; simp [Net.pack]
  have hres := matVec_selectL keep keep P.mnaA (P.pack s)
    (fun r hr => by rw [mnaA_row_length P r hr, hklen, mnaA_length]) hplen
    (fun r hr c hc => keepMask_false_col _ _ c hc r hr)
  have hsub' : (selectL keep P.mnaA).map (selectL keep) = subMatrix keep P.mnaA := rfl
  have hsub : (subMatrix keep P.mnaA).length = countKept keep := subMatrix_length keep _ hklen.symm
  rw [hsub', hfull, ← mnaA_length, ← hklen, selectL_unitVec keep k hki] at hres
  refine ⟨selectL keep (P.pack s), ?_, ?_, ?_⟩
  · rw [hsub, selectL_length keep _ hplen]
  · rw [hsub]; exact hres
  · rw [selectL_getD_kept keep _ k hki]
    have hz0 : S.pot P.zero = 0 := hS.ref_zero
    rw [hz0, sub_zero]
    unfold Net.pack
    rw [List.getD_eq_getElem?_getD, List.getElem?_append_left (by simpa using hilt), List.getElem?_map, hget]
    rfl

/-- **C06 (code level, pruned unknowns, hypothesis on the code's own data): when the pruned system handed to
`np.linalg.solve` has at most one solution, the returned number is the port impedance.**  Same setting as
`C06_impl_pruned_solution` (any number of pruned unknowns, ideal voltage sources anywhere, non-early path);
`hreg` says the system `A·y = e` the function reaches has at most one solution — true whenever `A` is regular,
i.e. whenever numpy does not raise `LinAlgError` in exact arithmetic.  Then `PortZ` is defined and equals the
returned value: existence by `C06_impl_pruned_solution`, uniqueness because every solution of the probe network
restricted to the kept unknowns solves the same pruned system (`probe_solution_restrict`).

`hreg` is the genuinely needed "kept probe system is well-posed"; it fails exactly on floating groups of nodes
(`C06_floating_island_counterexample`), where the function is not complete. -/
theorem C06_impl_eq_spec_kept_regular (N : Net L K) (solve : List (List K) → List K → Option (List K))
    (pid : String) (n1 n2 : L) (z : K) (hp : pid ∉ N.ids) (hsolve : SolveOK solve) (hids : N.ids.Nodup)
    (hsl : ∀ b ∈ N.branches, b.n1 ≠ b.n2) (hne : N.portIsEarly n1 n2 = false)
    (hreg : ∀ N' keep A e i1, N.portPre n1 n2 = .ok (.sys N' keep A e i1) →
      ∀ y y' : List K, y.length = e.length → y'.length = e.length → matVec A y = e → matVec A y' = e → y = y')
    (h : N.openCircuitImpedance solve n1 n2 = .ok z) : PortZ N pid n1 n2 z := by
  obtain ⟨R0, hR0, hport0⟩ := C06_impl_pruned_solution N solve pid n1 n2 z hp hsolve hids hsl hne h
  refine ⟨⟨R0, hR0⟩, fun T hT => ?_⟩
  unfold Net.openCircuitImpedance at h
  cases hpre : N.portPre n1 n2 with
  | error e => rw [hpre] at h; cases h
  | ok pre =>
    rw [hpre] at h
    cases pre with
    | early => rw [portPre_early hpre] at hne; cases hne
    | infinite => simp only at h; cases h
    | sys N' keep A e i1 =>
      simp only at h
      obtain ⟨h12, hN', hcheck, hsys⟩ := portPre_sys hpre
      obtain ⟨hsw, hiso⟩ := portPre_sys_kept hpre
      obtain ⟨_, hkeepdef, hA, ⟨i, hidx, hi1⟩, he, hlt⟩ := portSys_sys hsys
      obtain ⟨i', hidx', hcol⟩ := isolated_false hsw hiso
      have hii : i' = i := by rw [hidx] at hidx'; exact (Option.some.inj hidx').symm
      subst hii
      have hids' : N'.ids.Nodup := by rw [hN']; exact hids
      have hp' : pid ∉ N'.ids := by rw [hN']; exact hp
      have hsl' : ∀ b ∈ N'.branches, b.n1 ≠ b.n2 := by rw [hN']; exact hsl
      have hzero : N'.zero ∈ N'.nodeLabels := ((Net.check_ok_iff N').mp hcheck).1
      cases hs : solve A e with
      | none => rw [hs] at h; cases h
      | some x =>
        rw [hs] at h
        simp only at h
        obtain ⟨hxlen, hxsol⟩ := hsolve A e x hs
        have hxz : x.getD i1 0 = z := by
          cases hxi : x[i1]? with
          | none => rw [hxi] at h; cases h
          | some w =>
            rw [hxi] at h; cases h
            rw [List.getD_eq_getElem?_getD, hxi]; rfl
        -- a solution of the probe network on the re-referenced network with the same port voltage as `T`
        have key : ∀ S : Report L K,
            CircuitEqs (probeNet N' pid (if n1 = N.zero then n2 else n1) N'.zero 1) S →
            S.pot (if n1 = N.zero then n2 else n1) - S.pot N'.zero = z := by
          intro S hS
          obtain ⟨y, hylen, hysol, hyport⟩ :=
            probe_solution_restrict N' pid _ hids' hp' hsl' hzero i' hidx hcol S hS
          rw [← hkeepdef, ← hA, ← hi1, ← he] at hysol
          rw [← hkeepdef, ← hi1] at hyport
          rw [← hkeepdef, ← hA] at hylen
          have hel : e.length = A.length := by rw [he]; simp [unitVec]
          have := hreg N' keep A e i1 hpre y x (by rw [hylen, hel]) hxlen hysol hxsol
          rw [← hyport, this, hxz]
        by_cases hz1 : n1 = N.zero
        · have ea : (if n1 = N.zero then n2 else n1) = n2 := by simp [hz1]
          have eg : N'.zero = n1 := by rw [hN']; simp [hz1]
          obtain ⟨S, hS, hpot⟩ := probe_flip N pid hp n1 n2 T hT
          have hS2 := probe_move N pid n2 n1 n1 S hS
          have hN1 : ({ N with zero := n1 } : Net L K) = N' := by rw [hN']; simp [hz1]
          rw [hN1] at hS2
          have := key (S.portShift (S.pot n1)) (by rw [ea, eg]; exact hS2)
          rw [ea, eg] at this
          simp only [Report.portShift] at this
          rw [hpot n1, hpot n2] at this
          linear_combination this
        · have ea : (if n1 = N.zero then n2 else n1) = n1 := by simp [hz1]
          have eg : N'.zero = n2 := by rw [hN']; simp [hz1]
          have hT2 := probe_move N pid n1 n2 n2 T hT
          have hN2 : ({ N with zero := n2 } : Net L K) = N' := by rw [hN']; simp [hz1]
          rw [hN2] at hT2
          have := key (T.portShift (T.pot n2)) (by rw [ea, eg]; exact hT2)
          rw [ea, eg] at this
          simp only [Report.portShift] at this
          linear_combination this

namespace C06ex

theorem AP'_unique (y : List ℚ) (hy : y.length = 2) (h : matVec AP' y = [1, 0]) : y = [5, 5] := by
  match y, hy with
  | [a, b], _ =>
    simp [matVec, dotL, AP'] at h
    obtain ⟨h1, h2⟩ := h
    have hb : b = a := by linarith
    have ha : a = 5 := by rw [hb] at h1; linarith
    rw [hb, ha]

end C06ex

/-- non-vacuity of `C06_impl_eq_spec_kept_regular`: for `exP` (pruned node `1`), port `(2, 0)`, the pruned
system `[[12/35, −1/7], [−1/7, 1/7]]·y = [1, 0]` has exactly one solution; the other hypotheses are those of the
example in CC/Properties/C06Prune.lean. -/
example : ∀ N' keep A e i1, C06ex.exP.portPre 2 0 = .ok (.sys N' keep A e i1) →
    ∀ y y' : List ℚ, y.length = e.length → y'.length = e.length → matVec A y = e → matVec A y' = e → y = y' := by
  intro N' keep A e i1 h y y' hy hy' h1 h2
  rw [C06ex.exP_pre] at h
  simp only [Except.ok.injEq, PortPre.sys.injEq] at h
  obtain ⟨_, _, hA, he, _⟩ := h
  subst hA he
  rw [C06ex.AP'_unique y hy h1, C06ex.AP'_unique y' hy' h2]

example : PortZ C06ex.exP "p" 2 0 5 :=
  C06_impl_eq_spec_kept_regular C06ex.exP C06ex.solveP "p" 2 0 5 (by decide) C06ex.solveP_ok (by decide) (by decide)
    C06ex.exP_not_early (by
      intro N' keep A e i1 h y y' hy hy' h1 h2
      rw [C06ex.exP_pre] at h
      simp only [Except.ok.injEq, PortPre.sys.injEq] at h
      obtain ⟨_, _, hA, he, _⟩ := h
      subst hA he
      rw [C06ex.AP'_unique y hy h1, C06ex.AP'_unique y' hy' h2]) C06ex.exP_model_value

end CC
