/-
  Property C01 — the steady-state solution obeys Kirchhoff's laws and every element law.

  Model: CC/Model/{Net,MNA}.lean (mirrors node_analysis.py, bias_point_analysis.py,
  solution.py, label_mapping.py, network.py, elements.py).  Spec: CC/Spec/Circuit.lean.
  All theorems hold for every network (any number of nodes and branches, parallel branches,
  either terminal order, any reference node, any labels and any label order `LabelOrd`),
  over every field `K` — in particular ℂ and the driver's Gaussian rationals.
  `numpy.linalg.solve` is a parameter: `x` is any vector with `A·x = b`.
-/
import CC.Proofs.Complete
import Mathlib.Algebra.Order.Field.Rat
set_option linter.unusedSectionVars false

namespace CC
variable {L K : Type} [DecidableEq L] [LabelOrd L] [Field K] [DecidableEq K]

theorem reportOf_v (N : Net L K) (x : List K) (hids : N.ids.Nodup) {b : Branch L K}
    (hb : b ∈ N.branches) : (N.reportOf x).v b.id = N.vOf (N.solOf x) b := by
  simp [Net.reportOf, get?_of_mem N hids hb]

theorem reportOf_i (N : Net L K) (x : List K) (hids : N.ids.Nodup) {b : Branch L K}
    (hb : b ∈ N.branches) : (N.reportOf x).i b.id = N.curOf (N.solOf x) b := by
  simp [Net.reportOf, get?_of_mem N hids hb]

theorem kclResidual_report_all (N : Net L K) (x : List K) (hids : N.ids.Nodup) (n : L) :
    kclResidual N (N.reportOf x) n
      = (N.branches.map fun b => b.dir n * N.J (N.solOf x) b).sum := by
  unfold kclResidual
  apply congrArg; apply List.map_congr_left
  intro b hb
  rw [reportOf_i N x hids hb, phys_curOf, incidence_eq_dir_all b n]

theorem kclResidual_report (N : Net L K) (x : List K) (wf : N.WF) (n : L) :
    kclResidual N (N.reportOf x) n
      = (N.branches.map fun b => b.dir n * N.J (N.solOf x) b).sum :=
  kclResidual_report_all N x wf.ids_nodup n

/-- soundness for every network `Network.__post_init__` accepts (distinct ids, reference label
present) — self-loop branches included; published as `C01_sound_selfloops`
(CC/Properties/C01SelfLoop.lean) -/
theorem sound_all (N : Net L K) (x : List K) (hids : N.ids.Nodup) (hzm : N.zero ∈ N.nodeLabels)
    (hx : x.length = N.nodes.length + N.vsIds.length)
    (h : matVec N.mnaA x = N.mnaB) :
    (∀ n ∈ N.allLabels, N.potential x n = .ok ((N.reportOf x).pot n)) ∧
    (∀ b ∈ N.branches, N.voltage x b.id = .ok ((N.reportOf x).v b.id) ∧
                        N.current x b.id = .ok ((N.reportOf x).i b.id)) ∧
    CircuitEqs N (N.reportOf x) := by
  obtain ⟨rowsN, rowsV⟩ := (matVec_iff_rows N hids x hx).mp h
  set s := N.solOf x with hs
  have hkclNode : ∀ n ∈ N.nodes, kclResidual N (N.reportOf x) n = 0 := by
    intro n hn
    rw [kclResidual_report_all N x hids, kcl_identity_all N s hids n hn, rowsN n hn, sub_self]
  refine ⟨?_, ?_, ?_⟩
  · intro n hn
    exact potential_ok N x n ((mem_allLabels_iff N hzm n).mp hn)
  · intro b hb
    rw [reportOf_v N x hids hb, reportOf_i N x hids hb]
    exact ⟨voltage_ok N x hids b hb, current_ok N x hids b hb⟩
  · refine ⟨?_, ?_, ?_, ?_⟩
    · simp [Net.reportOf, Net.pot]
    · intro b hb
      unfold voltResidual
      rw [reportOf_v N x hids hb]
      simp [Net.reportOf, Net.vOf]
    · intro b hb
      rw [reportOf_v N x hids hb, reportOf_i N x hids hb]
      apply law_of_rows
      intro hv
      have hmem : b ∈ N.vsSorted :=
        (vsSorted_perm N hids).mem_iff.mpr (List.mem_filter.mpr ⟨hb, hv⟩)
      have := rowsV b hmem
      rw [rowVS_eq_all N s b hb] at this
      exact this
    · intro n hn
      have hn' := (mem_allLabels_iff N hzm n).mp hn
      by_cases hz : n = N.zero
      · subst hz
        have hall := sum_kcl_all_labels N (fun b => N.J s b)
        rw [sum_labels_split N hzm] at hall
        have hnodes : (N.nodes.map fun n => (N.branches.map fun b => incidence b n * N.J s b).sum).sum = 0 := by
          apply List.sum_eq_zero
          intro y hy
          obtain ⟨m, hm, rfl⟩ := List.mem_map.mp hy
          have := hkclNode m hm
          rw [kclResidual_report_all N x hids] at this
          rw [← this]
          rfl
        rw [hnodes, add_zero] at hall
        rw [kclResidual_report_all N x hids, ← hall]
        rfl
      · exact hkclNode n ((mem_nodes_iff N n).mpr ⟨hn', hz⟩)

/-- **C01 (soundness).**  Whatever vector satisfies the matrix equation the code builds,
the accessors never fail on the network's own labels and ids, and what they report solves
the circuit: reference at zero, voltages are potential differences, every element law
holds in the library's reference direction, and Kirchhoff's current law holds at every
node — the reference node included. -/
theorem C01_sound (N : Net L K) (x : List K) (wf : N.WF)
    (hx : x.length = N.nodes.length + N.vsIds.length)
    (h : matVec N.mnaA x = N.mnaB) :
    (∀ n ∈ N.allLabels, N.potential x n = .ok ((N.reportOf x).pot n)) ∧
    (∀ b ∈ N.branches, N.voltage x b.id = .ok ((N.reportOf x).v b.id) ∧
                        N.current x b.id = .ok ((N.reportOf x).i b.id)) ∧
    CircuitEqs N (N.reportOf x) :=
  sound_all N x wf.ids_nodup wf.zero_mem hx h

/-- **C01 (reference node).**  Currents balance at the reference node although it has no
row in the matrix: its balance is minus the sum of all other rows. -/
theorem C01_kcl_reference (N : Net L K) (x : List K) (wf : N.WF)
    (hx : x.length = N.nodes.length + N.vsIds.length)
    (h : matVec N.mnaA x = N.mnaB) :
    kclResidual N (N.reportOf x) N.zero = 0 :=
  (C01_sound N x wf hx h).2.2.kcl N.zero (by simp [Net.allLabels])

/-- **C01 (the four current cases).**  The per-kind relation between reported voltage and
reported current, written out: an ideal voltage source fixes the voltage, an impedance
obeys `v = Z·i`, an admittance `i = Y·v`, an ideal current source fixes the current, and a
linear source reports its current in generator direction, `i = −(I_N + Y·v)`. -/
theorem C01_current_cases (N : Net L K) (x : List K) (wf : N.WF)
    (hx : x.length = N.nodes.length + N.vsIds.length)
    (h : matVec N.mnaA x = N.mnaB) (b : Branch L K) (hb : b ∈ N.branches) :
    let v := (N.reportOf x).v b.id
    let i := (N.reportOf x).i b.id
    match b.e with
    | .norton Z V => if Z = 0 then v = V else if V = 0 then v = Z * i else i = -(V / Z + v / Z)
    | .thevenin Y I => if Y = 0 then i = I else if I = 0 then i = Y * v else i = -(I + Y * v) := by
  have hlaw := (C01_sound N x wf hx h).2.2.law b hb
  intro v i
  cases he : b.e with
  | norton Z V =>
    rw [he] at hlaw
    by_cases hZ : Z = 0
    · simp only [Elem.lawResidual, hZ, if_true] at hlaw ⊢; exact sub_eq_zero.mp hlaw
    · by_cases hV : V = 0
      · simp only [Elem.lawResidual, hZ, hV, if_true, if_false] at hlaw ⊢; exact sub_eq_zero.mp hlaw
      · simp only [Elem.lawResidual, hZ, hV, if_false] at hlaw ⊢
        field_simp
        linear_combination hlaw
  | thevenin Y I =>
    rw [he] at hlaw
    by_cases hY : Y = 0
    · simp only [Elem.lawResidual, hY, if_true] at hlaw ⊢; exact sub_eq_zero.mp hlaw
    · by_cases hI : I = 0
      · simp only [Elem.lawResidual, hY, hI, if_true, if_false] at hlaw ⊢; exact sub_eq_zero.mp hlaw
      · simp only [Elem.lawResidual, hY, hI, if_false] at hlaw ⊢
        linear_combination hlaw

/-- **C01 (power).**  Reported power is `V · conj(I)` of the reported voltage and current. -/
theorem C01_power (conj : K → K) (N : Net L K) (x : List K) (wf : N.WF) (b : Branch L K)
    (hb : b ∈ N.branches) :
    N.power conj x b.id = .ok ((N.reportOf x).v b.id * conj ((N.reportOf x).i b.id)) := by
  unfold Net.power
  rw [voltage_ok N x wf.ids_nodup b hb, current_ok N x wf.ids_nodup b hb,
    reportOf_v N x wf.ids_nodup hb, reportOf_i N x wf.ids_nodup hb]
  rfl

/-- **C01 (completeness).**  Every solution of the circuit equations, packed through the
alphabetic index maps, satisfies the matrix equation the code solves: the voltage-source
rows and the index maps lose nothing. -/
theorem C01_complete (N : Net L K) (R : Report L K) (wf : N.WF) (hR : CircuitEqs N R) :
    matVec N.mnaA (N.pack R.toSol) = N.mnaB :=
  complete_rows N R wf hR

/-- **C01 (uniqueness).**  For a well-posed network (the source-free circuit has only the
zero solution) any two solutions of the circuit equations agree on every node potential,
branch voltage and branch current: the reported quantities are *the* solution. -/
theorem C01_unique (N : Net L K) (hids : N.ids.Nodup) (hw : WellPosed N)
    (R S : Report L K) (hR : CircuitEqs N R) (hS : CircuitEqs N S) : R.AgreeOn N S :=
  unique_of_wellposed N hids hw R S hR hS

/-- **C01 (the matrix equation of a well-posed network has at most one solution).** -/
theorem C01_matrix_unique (N : Net L K) (wf : N.WF) (hw : WellPosed N) (x y : List K)
    (hx : x.length = N.nodes.length + N.vsIds.length)
    (hy : y.length = N.nodes.length + N.vsIds.length)
    (h1 : matVec N.mnaA x = N.mnaB) (h2 : matVec N.mnaA y = N.mnaB) : x = y := by
  have hids := wf.ids_nodup
  have sx := (C01_sound N x wf hx h1).2.2
  have sy := (C01_sound N y wf hy h2).2.2
  obtain ⟨hp, hb⟩ := C01_unique N hids hw _ _ sx sy
  rw [pack_solOf N hids x hx, pack_solOf N hids y hy]
  congr 1
  · apply List.map_congr_left
    intro n hn
    obtain ⟨hl, hz⟩ := (mem_nodes_iff N n).mp hn
    have := hp n ((mem_allLabels_iff N wf.zero_mem n).mpr hl)
    simpa [Net.reportOf, Net.pot, hz] using this
  · apply List.map_congr_left
    intro b hbm
    have hbv : b ∈ N.vs := (vsSorted_perm N hids).mem_iff.mp hbm
    obtain ⟨hbb, hvs⟩ := List.mem_filter.mp hbv
    have := (hb b hbb).2
    rw [reportOf_i N x hids hbb, reportOf_i N y hids hbb] at this
    simpa [Net.curOf, hvs] using this

/-- **C01 (the reported quantities are *the* solution).**  For a well-posed network, whatever
vector satisfies the matrix equation, the accessors report exactly the values of any
solution `R` of the circuit equations.  This is the lemma through which every Spec-level
invariance (C03), linearity (C04) and rewrite (C16) theorem becomes a statement about the
numbers the code reports. -/
theorem C01_reported_is_the_solution (N : Net L K) (wf : N.WF) (hw : WellPosed N) (x : List K)
    (hx : x.length = N.nodes.length + N.vsIds.length) (h : matVec N.mnaA x = N.mnaB)
    (R : Report L K) (hR : CircuitEqs N R) : (N.reportOf x).AgreeOn N R :=
  C01_unique N wf.ids_nodup hw _ _ (C01_sound N x wf hx h).2.2 hR

/- Non-singularity of the matrix of a well-posed network (`C01_solvable`, kernel form) and
   squareness (`C01_square`) are proved in CC/Proofs/Solvable.lean (it imports this file). -/

/-! ### non-vacuity: a concrete network meets the hypotheses -/

/-- `V(1,0) = 10 V`, `R1(1,2) = 5 Ω`, `R2(2,0) = 1/5 S` with reference node `0` -/
def exampleNet : Net String ℚ :=
  { zero := "0",
    branches := [
      { n1 := "1", n2 := "0", id := "V", e := .norton 0 10 },
      { n1 := "1", n2 := "2", id := "R1", e := .norton 5 0 },
      { n1 := "2", n2 := "0", id := "R2", e := .thevenin (1/5) 0 } ] }

theorem exampleNet_wf : exampleNet.WF := by
  refine ⟨by decide, ?_, ?_⟩
  · rw [mem_nodeLabels]; right
    exact ⟨{ n1 := "1", n2 := "0", id := "V", e := .norton 0 10 }, by simp [exampleNet], Or.inr rfl⟩
  · intro b hb
    simp only [exampleNet, List.mem_cons, List.mem_nil_iff, or_false] at hb
    rcases hb with rfl | rfl | rfl <;> decide

/-- its solution: φ₁ = 10, φ₂ = 5, 1 A through the resistors, −1 A through the source -/
def exampleReport : Report String ℚ :=
  { pot := fun n => if n = "1" then 10 else if n = "2" then 5 else 0
    v := fun id => if id = "V" then 10 else 5
    i := fun id => if id = "V" then -1 else 1 }

theorem exampleReport_solves : CircuitEqs exampleNet exampleReport := by
  refine ⟨by decide, ?_, ?_, ?_⟩
  · intro b hb
    simp only [exampleNet, List.mem_cons, List.mem_nil_iff, or_false] at hb
    rcases hb with rfl | rfl | rfl <;> simp [voltResidual, exampleReport] <;> norm_num
  · intro b hb
    simp only [exampleNet, List.mem_cons, List.mem_nil_iff, or_false] at hb
    rcases hb with rfl | rfl | rfl <;> simp [Elem.lawResidual, exampleReport] <;> norm_num
  · intro n hn
    simp only [exampleNet, Net.allLabels, List.map_cons, List.map_nil, List.cons_append,
      List.nil_append, List.mem_cons, List.mem_nil_iff, or_false] at hn
    rcases hn with rfl | rfl | rfl | rfl | rfl | rfl | rfl <;>
      simp [kclResidual, exampleNet, incidence, Elem.physCurrent, Elem.isLossy, Elem.kind, exampleReport] <;>
      norm_num

/-- the hypotheses of `C01_sound` are satisfiable: the example network has a solution vector -/
example : ∃ x : List ℚ, x.length = exampleNet.nodes.length + exampleNet.vsIds.length ∧
    matVec exampleNet.mnaA x = exampleNet.mnaB :=
  ⟨exampleNet.pack exampleReport.toSol, pack_length _ exampleNet_wf.ids_nodup _,
    C01_complete _ _ exampleNet_wf exampleReport_solves⟩

end CC
