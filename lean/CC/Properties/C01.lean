import CC.Model.MNA
import CC.Spec.Circuit
