/-
  Property C07 — every component becomes exactly one faithful network branch.

  Model   CC/Model/Circuit.lean  (interpreter of the generated tables `Gen.tables`)
  Spec    CC/Spec/Phasor.lean    (`Spec.branchOf`, `Spec.nonGround`, `Spec.groundOf`)
  History: until the fix commits ac3e686, 76d4676, 166c364 (conductance / admittance translators,
  complex_current_source without a frequency gate, periodic sources keeping their internal R / G)
  four statements of this file were refuted by `…_counterexample` theorems; on the repaired
  sources they are theorems at full strength (`C07_table_total`, `C07_reads_written`,
  `C07_faithful`, `C07_harmonic`).
-/
import CC.Proofs.CircuitLemmas
import CC.Proofs.RoundLemmas
import CC.Proofs.Sound
import CC.Proofs.GQField
namespace CC
open Gen

/-! ## the dispatch table (generated obligations) -/

/-- every kind the component module can construct, except `ground`, has a translator -/
def C07_table_total_statement : Prop :=
  ∀ s ∈ ctorSpecs, s.kind ≠ "ground" → Gen.tables.hasKind s.kind = true

theorem C07_table_total : C07_table_total_statement := by
  unfold C07_table_total_statement; decide

/-- every value key a translator can read: the unconditional reads and, for a periodic
translator, the keys handed to the inner constructor -/
def TSpec.allKeys (t : TSpec) : List String :=
  t.reads ++ match t.body with
    | .periodic _ _ _ _ _ _ _ ctorArgs _ => ctorArgs.filterMap fun a => match a.2 with | .key k => some k | _ => none
    | _ => []

/-- every value key that occurs in a translator body (the expression trees and the four keys of a
periodic template) -/
def TBody.keys : TBody → List String
  | .plain e => e.keys
  | .gated e ws _ off => e.keys ++ ws.keys ++ off.keys
  | .periodic a b c d _ off _ _ _ => [a, b, c, d] ++ off.keys

/-- the `reads` annotation the translator emits is complete: every key the generated body
evaluates is listed in it (so `C07_reads_written`, which is stated over the annotation and the
`HArg.key` arguments, really is about the keys the body reads) -/
theorem C07_body_keys_in_reads :
    ∀ t ∈ Gen.transSpecs, t.body.keys.all (fun k => t.reads.contains k) = true := by decide

/-- the translator of a kind reads only keys that the constructor of that kind writes
(over `TSpec.allKeys`; complete by `C07_body_keys_in_reads`) -/
def readsWritten (T : Tables) (s : CtorSpec) : Bool :=
  match T.transformers.lookup s.kind with
  | none => true
  | some fn => match T.tspec? fn with
    | none => false
    | some t => t.allKeys.all fun k => (s.values.map (·.1)).contains k

def C07_reads_written_statement : Prop := ∀ s ∈ ctorSpecs, readsWritten Gen.tables s = true

theorem C07_reads_written : C07_reads_written_statement := by
  unfold C07_reads_written_statement; decide

/-- structural well-formedness of a translator table: every translator names its branch
after the component itself and takes the terminals in the component's order -/
def Tables.WellFormed (T : Tables) : Prop :=
  ∀ s ∈ T.trans, s.idSelf = true ∧ s.n1 = 0 ∧ s.n2 = 1

instance (T : Tables) : Decidable T.WellFormed := by unfold Tables.WellFormed; infer_instance

theorem C07_table_wellformed : Gen.tables.WellFormed := by decide

/-! ## one branch per component, in order, each from its own component -/

theorem bind_eq_ok {ε α β : Type} {x : Except ε α} {f : α → Except ε β} {b : β} :
    (x >>= f) = .ok b ↔ ∃ a, x = .ok a ∧ f a = .ok b := by
  cases x <;> simp [bind, Except.bind]

theorem node_ok {c : Component} {i : Nat} {n : String} (h : c.node i = .ok n) : c.nodes[i]? = some n := by
  unfold Component.node at h
  split at h <;> simp_all

theorem mkBranch_ok {s : TSpec} {c : Component} {te : String × Elem GQ} {b : Branch String GQ}
    (hs : s.idSelf = true ∧ s.n1 = 0 ∧ s.n2 = 1) (h : mkBranch s c te = .ok b) :
    b.id = c.id ∧ c.nodes[0]? = some b.n1 ∧ c.nodes[1]? = some b.n2 ∧ b.ty = te.1 ∧ b.e = te.2 := by
  obtain ⟨h1, h2, h3⟩ := hs
  unfold mkBranch at h
  obtain ⟨n1, hn1, h⟩ := bind_eq_ok.mp h
  obtain ⟨n2, hn2, h⟩ := bind_eq_ok.mp h
  simp [pure, Except.pure] at h
  subst h
  rw [h2] at hn1; rw [h3] at hn2
  simp [h1, node_ok hn1, node_ok hn2]

theorem runSimple_ok {s : TSpec} {trig : Trig} {c : Component} {w wres : Rat} {b : Branch String GQ}
    (hs : s.idSelf = true ∧ s.n1 = 0 ∧ s.n2 = 1) (h : s.runSimple trig c w wres = .ok b) :
    b.id = c.id ∧ c.nodes[0]? = some b.n1 ∧ c.nodes[1]? = some b.n2 := by
  unfold TSpec.runSimple at h
  split at h
  · obtain ⟨_, _, h⟩ := bind_eq_ok.mp h
    obtain ⟨te, _, h⟩ := bind_eq_ok.mp h
    have := mkBranch_ok hs h
    exact ⟨this.1, this.2.1, this.2.2.1⟩
  · obtain ⟨_, _, h⟩ := bind_eq_ok.mp h
    obtain ⟨on, _, h⟩ := bind_eq_ok.mp h
    obtain ⟨wsv, _, h⟩ := bind_eq_ok.mp h
    split at h
    · obtain ⟨te, _, h⟩ := bind_eq_ok.mp h
      have := mkBranch_ok hs h
      exact ⟨this.1, this.2.1, this.2.2.1⟩
    · have := mkBranch_ok hs h
      exact ⟨this.1, this.2.1, this.2.2.1⟩
  · cases h

theorem construct_ok {cs : CtorSpec} {i : String} {ns : List String} {args : List (String × Val)}
    {c : Component} (h : cs.construct (some i) (some ns) args = .ok c) : c.id = i ∧ c.nodes = ns ∧ c.kind = cs.kind := by
  unfold CtorSpec.construct at h
  simp only [pure, Except.pure] at h
  obtain ⟨_, h0, h⟩ := bind_eq_ok.mp h
  obtain ⟨_, h1, h⟩ := bind_eq_ok.mp h
  obtain ⟨env, _, h⟩ := bind_eq_ok.mp h
  obtain ⟨_, _, h⟩ := bind_eq_ok.mp h
  obtain ⟨_, _, h⟩ := bind_eq_ok.mp h
  obtain ⟨value, _, h⟩ := bind_eq_ok.mp h
  cases h0; cases h1
  simp at h
  subst h
  simp

theorem tspec?_mem {T : Tables} {fn : String} {s : TSpec} (h : T.tspec? fn = some s) : s ∈ T.trans :=
  List.mem_of_find?_eq_some h

/-- **C07 (identity and terminals).**  Whatever translator the table selects, a branch it
produces carries the component's own identifier and the component's first and second node,
in that order — for every table that is structurally well-formed (`C07_table_wellformed`
shows the generated one is). -/
theorem C07_branch_id_terminals (T : Tables) (hT : T.WellFormed) (trig : Trig) (harm : Harm)
    (c : Component) (w wres : Rat) (b : Branch String GQ)
    (h : transformComponent T trig harm c w wres = some (.ok b)) :
    b.id = c.id ∧ c.nodes[0]? = some b.n1 ∧ c.nodes[1]? = some b.n2 := by
  unfold transformComponent at h
  split at h
  · cases h
  · split at h
    · rename_i fn _ s hs
      have hwf := hT s (tspec?_mem hs)
      simp only [Option.some.injEq] at h
      unfold TSpec.run at h
      split at h
      · -- periodic
        rename_i waveKey w0Key ampKey phiKey cmp off ctor ctorArgs inner hb
        obtain ⟨_, _, h⟩ := bind_eq_ok.mp h
        obtain ⟨w0, _, h⟩ := bind_eq_ok.mp h
        obtain ⟨A, _, h⟩ := bind_eq_ok.mp h
        obtain ⟨phi, _, h⟩ := bind_eq_ok.mp h
        obtain ⟨_, _, h⟩ := bind_eq_ok.mp h
        split at h
        · cases h
        · dsimp only at h
          split at h
          · obtain ⟨te, _, h⟩ := bind_eq_ok.mp h
            have := mkBranch_ok hwf h
            exact ⟨this.1, this.2.1, this.2.2.1⟩
          · unfold periodicActive at h
            obtain ⟨cs, _, h⟩ := bind_eq_ok.mp h
            obtain ⟨n1, hn1, h⟩ := bind_eq_ok.mp h
            obtain ⟨n2, hn2, h⟩ := bind_eq_ok.mp h
            obtain ⟨args, _, h⟩ := bind_eq_ok.mp h
            obtain ⟨single, hsingle, h⟩ := bind_eq_ok.mp h
            obtain ⟨si, hsi, h⟩ := bind_eq_ok.mp h
            have hsi' : T.tspec? inner = some si := by
              unfold Tables.tspecE at hsi; split at hsi <;> simp_all
            have hi := runSimple_ok (hT si (tspec?_mem hsi')) h
            obtain ⟨hid, hnodes, _⟩ := construct_ok hsingle
            rw [hwf.2.1] at hn1; rw [hwf.2.2] at hn2
            rw [hid, hnodes] at hi
            simp at hi
            refine ⟨hi.1, ?_, ?_⟩
            · rw [node_ok hn1, hi.2.1]
            · rw [node_ok hn2, hi.2.2]
      · exact runSimple_ok hwf h
    · simp at h

/-- the components that `transform_circuit` translates -/
def translated (T : Tables) (cs : List Component) : List Component := cs.filter T.selects

/-- **C07 (position independence).**  The branch list of the converted circuit is, entry by
entry and in order, the result of the table's translator applied to that entry's own
component: nothing is omitted from, added to, duplicated or permuted within the translated
components, and no component is evaluated with another component's value. -/
theorem C07_position_independent (T : Tables) (trig : Trig) (harm : Harm) (C : Circuit) (w wres : Rat)
    (N : Net String GQ) (h : transformCircuit T trig harm C w wres = .ok N) :
    List.Forall₂ (fun c b => transformComponent T trig harm c w wres = some (.ok b))
      (translated T C.components) N.branches ∧ N.zero = C.ground := by
  unfold transformCircuit at h
  obtain ⟨bs, hbs, h⟩ := bind_eq_ok.mp h
  obtain ⟨_, _, h⟩ := bind_eq_ok.mp h
  simp [pure, Except.pure] at h
  subst h
  refine ⟨?_, rfl⟩
  unfold transformBranches at hbs
  have := mapM_ok_forall₂ _ _ _ hbs
  refine this.imp ?_
  intro c b hcb
  split at hcb
  · rename_i r hr; rw [hr, hcb]
  · cases hcb

/-- **C07 (one-to-one).**  Same identifiers, same order, same number. -/
theorem C07_one_to_one (T : Tables) (hT : T.WellFormed) (trig : Trig) (harm : Harm) (C : Circuit)
    (w wres : Rat) (N : Net String GQ) (h : transformCircuit T trig harm C w wres = .ok N) :
    N.branches.map (·.id) = (translated T C.components).map (·.id) := by
  have := (C07_position_independent T trig harm C w wres N h).1
  exact forall₂_map_eq (fun c b hcb => (C07_branch_id_terminals T hT trig harm c w wres b hcb).1) this

/-- **C07 (the conversion never drops a component).**  The generated comprehension of
`transform_circuit` selects every non-ground component, whatever its type string … -/
theorem C07_never_drops : Gen.tables.dropUnknown = false := by decide

/-- … so for **every** component list the translated components are exactly the non-ground
components — and hence (`C07_one_to_one`) a successful conversion has exactly one branch per
non-ground component, same identifiers, same order.  (Until fix 766697f components whose type was
no key of the table were skipped silently.) -/
theorem C07_nothing_dropped (cs : List Component) : translated Gen.tables cs = Spec.nonGround cs := by
  unfold translated Spec.nonGround
  apply List.filter_congr
  intro c _
  simp [Tables.selects, C07_never_drops]

/-- **C07 (an untranslatable component is an error, wherever it stands).**  If some non-ground
component of the circuit has a type without table entry, the conversion raises; it never
returns a network without that component. -/
theorem C07_unknown_kind_raises (T : Tables) (hT : T.dropUnknown = false) (trig : Trig) (harm : Harm)
    (C : Circuit) (w wres : Rat) (c : Component) (hc : c ∈ C.components) (hg : c.kind ≠ "ground")
    (hk : T.transformers.lookup c.kind = none) : ∃ e, transformCircuit T trig harm C w wres = .error e := by
  have hsel : c ∈ C.components.filter T.selects := by
    simp [List.mem_filter, hc, Tables.selects, hT, hg]
  have hfail : (fun c => match transformComponent T trig harm c w wres with
      | some r => r
      | none => Except.error Err.keyError) c = .error .keyError := by
    simp [transformComponent, hk]
  obtain ⟨e, he⟩ := mapM_error_of_mem (fun c => match transformComponent T trig harm c w wres with
      | some r => r
      | none => Except.error Err.keyError) _ c hsel _ hfail
  have he2 : transformBranches T trig harm C.components w wres = .error e := he
  exact ⟨e, by simp [transformCircuit, he2, bind, Except.bind]⟩

/-- every kind the component module can construct (except `ground`) does have an entry, so the
error above is reserved for type strings that no constructor produces -/
theorem ground_not_translated : Gen.tables.hasKind "ground" = false := by decide

/-! ## faithfulness, kind by kind

Each theorem: for **every** component of that kind with terminals `[a, b]` and the values its
constructor writes, at **every** frequency and resolution, the branch the generated table
produces is the displayed record — and that record is the intended one of CC/Spec/Phasor.lean.
The translator bodies enter through `Gen.tables`: a changed formula, key, gate or table entry
changes the generated definitions and the proof no longer compiles. -/

/-- `np.cos(0) = 1`, `np.sin(0) = 0` (exact in binary64) -/
def TrigZero (trig : Trig) : Prop := trig 0 = (1, 0)

local macro "tc_simp" "[" ts:Lean.Parser.Tactic.simpLemma,* "]" : tactic =>
  `(tactic| simp [transformComponent, TSpec.run, TSpec.runSimple, preRead, RE.eval, EE.eval, CE.eval,
      complexValue, mkBranch, Component.node, bind, Except.bind, pure, Except.pure, Cmp.holds,
      Spec.branchOf, Spec.elemOf, Spec.phasor, Spec.shortE, Spec.openE, $ts,*])

theorem tspec_resistor : Gen.tables.tspec? "resistor" = some
    { fn := "resistor", reads := ["R"], n1 := 0, n2 := 1, idSelf := true,
      body := .plain (.resistor (.key "R")) } := by decide

theorem tspec_impedance : Gen.tables.tspec? "impedance" = some
    { fn := "impedance", reads := ["R", "X"], n1 := 0, n2 := 1, idSelf := true,
      body := .plain (.impedance (.cart (.key "R") (.key "X"))) } := by decide

theorem tspec_conductance : Gen.tables.tspec? "conductance" = some
    { fn := "conductance", reads := ["G"], n1 := 0, n2 := 1, idSelf := true,
      body := .plain (.conductor (.key "G")) } := by decide

theorem tspec_admittance : Gen.tables.tspec? "admittance" = some
    { fn := "admittance", reads := ["G", "B"], n1 := 0, n2 := 1, idSelf := true,
      body := .plain (.admittance (.cart (.key "G") (.key "B"))) } := by decide

theorem tspec_complex_current_source : Gen.tables.tspec? "complex_current_source" = some
    { fn := "complex_current_source", reads := ["I_real", "I_imag", "G", "B"], n1 := 0, n2 := 1, idSelf := true,
      body := .plain (.currentSource (.cart (.key "I_real") (.key "I_imag")) (.cart (.key "G") (.key "B"))) } := by
  decide

theorem tspec_capacitor : Gen.tables.tspec? "capacitor" = some
    { fn := "capacitor", reads := ["C"], n1 := 0, n2 := 1, idSelf := true,
      body := .plain (.admittance (.cart (.lit 0) (.mul .w (.key "C")))) } := by decide

theorem tspec_inductance : Gen.tables.tspec? "inductance" = some
    { fn := "inductance", reads := ["L"], n1 := 0, n2 := 1, idSelf := true,
      body := .plain (.impedance (.cart (.lit 0) (.mul .w (.key "L")))) } := by decide

theorem tspec_resistive_load : Gen.tables.tspec? "resistive_load" = some
    { fn := "resistive_load", reads := ["P", "V_ref"], n1 := 0, n2 := 1, idSelf := true,
      body := .plain (.load (.key "P") (.key "V_ref")) } := by decide

theorem tspec_short_circuit : Gen.tables.tspec? "short_circuit" = some
    { fn := "short_circuit", reads := [], n1 := 0, n2 := 1, idSelf := true, body := .plain .shortCircuit } := by decide

theorem tspec_dc_voltage_source : Gen.tables.tspec? "dc_voltage_source" = some
    { fn := "dc_voltage_source", reads := ["V", "R", "w"], n1 := 0, n2 := 1, idSelf := true,
      body := .gated (.voltageSource (.polar (.key "V") (.lit 0)) (.polar (.key "R") (.lit 0)))
        (.key "w") .gt .shortCircuit } := by decide

theorem tspec_ac_voltage_source : Gen.tables.tspec? "ac_voltage_source" = some
    { fn := "ac_voltage_source", reads := ["V", "phi", "R", "w"], n1 := 0, n2 := 1, idSelf := true,
      body := .gated (.voltageSource (.polar (.key "V") (.key "phi")) (.polar (.key "R") (.lit 0)))
        (.key "w") .gt .shortCircuit } := by decide

theorem tspec_complex_voltage_source : Gen.tables.tspec? "complex_voltage_source" = some
    { fn := "complex_voltage_source", reads := ["V_real", "V_imag", "R", "X"], n1 := 0, n2 := 1, idSelf := true,
      body := .plain (.voltageSource (.cart (.key "V_real") (.key "V_imag")) (.cart (.key "R") (.key "X"))) } := by
  decide

theorem tspec_dc_current_source : Gen.tables.tspec? "dc_current_source" = some
    { fn := "dc_current_source", reads := ["I", "G", "w"], n1 := 0, n2 := 1, idSelf := true,
      body := .gated (.currentSource (.polar (.key "I") (.lit 0)) (.polar (.key "G") (.lit 0)))
        (.key "w") .gt .openCircuit } := by decide

theorem tspec_ac_current_source : Gen.tables.tspec? "ac_current_source" = some
    { fn := "ac_current_source", reads := ["I", "G", "w", "phi"], n1 := 0, n2 := 1, idSelf := true,
      body := .gated (.currentSource (.polar (.key "I") (.key "phi")) (.polar (.key "G") (.lit 0)))
        (.key "w") .gt .openCircuit } := by decide

theorem gate_iff (w ws wres : Rat) : wres < absQ (w - ws) ↔ ¬ Spec.dist w ws ≤ wres := by
  rw [absQ_sub_eq_dist]; grind

theorem gate_iff0 (w wres : Rat) : wres < absQ w ↔ ¬ Spec.dist w 0 ≤ wres := by
  have := gate_iff w 0 wres
  have h : w - 0 = w := by grind
  rwa [h] at this

theorem get?_ne_inf {c : Component} {k : String} {q : Rat} (h : c.value.lookup k = some (.num q)) :
    (c.get? k == some Val.inf) = false := by
  simp [Component.get?, h]

theorem isInf_false {c : Component} {k : String} {q : Rat} (h : c.value.lookup k = some (.num q)) :
    Spec.isInf c k = false := by
  simp [Spec.isInf, h]

variable (trig : Trig) (harm : Harm) (c : Component) (w wres : Rat) (a b : String)

theorem C07_faithful_resistor (R : Rat)
    (hk : c.kind = "resistor") (hn : c.nodes = [a, b]) (hR : c.value.lookup "R" = some (.num R)) :
    transformComponent Gen.tables trig harm c w wres
      = some (.ok { n1 := a, n2 := b, id := c.id, ty := "resistor", e := .norton ⟨R, 0⟩ 0 })
    ∧ Spec.branchOf trig harm c w wres = some { n1 := a, n2 := b, id := c.id, e := .norton ⟨R, 0⟩ 0 } := by
  have hl : Gen.tables.transformers.lookup "resistor" = some "resistor" := by decide
  constructor
  · tc_simp [hk, hl, tspec_resistor, hn, float_of_lookup hR, get?_ne_inf hR]
  · tc_simp [hk, hn, num?_of_lookup hR, isInf_false hR]

/-- **C07 (limits, open switch).**  A resistor with `R = ∞` (what an open switch is translated
to) becomes a branch whose record is the open circuit `(Y = 0, I = 0)` — the record that
`NortenElement(Z = inf, V = 0)` is for every derived value (`Y = 1/inf = 0`, `I = 0/inf = 0`) and
every predicate of elements.py — and that is what the specification intends. -/
theorem C07_limits_open_switch
    (hk : c.kind = "resistor") (hn : c.nodes = [a, b]) (hR : c.value.lookup "R" = some Val.inf) :
    transformComponent Gen.tables trig harm c w wres
      = some (.ok { n1 := a, n2 := b, id := c.id, ty := "resistor", e := .thevenin 0 0 })
    ∧ Spec.branchOf trig harm c w wres = some { n1 := a, n2 := b, id := c.id, e := .thevenin 0 0 } := by
  have hl : Gen.tables.transformers.lookup "resistor" = some "resistor" := by decide
  have hg : (c.get? "R" == some Val.inf) = true := by simp [Component.get?, hR]
  have hi : Spec.isInf c "R" = true := by simp [Spec.isInf, hR]
  have hg' : c.get? "R" = some Val.inf := by simp [Component.get?, hR]
  constructor
  · tc_simp [hk, hl, tspec_resistor, hn, hg, hg']
  · tc_simp [hk, hn, hi]

theorem C07_faithful_impedance (R X : Rat)
    (hk : c.kind = "impedance") (hn : c.nodes = [a, b]) (hR : c.value.lookup "R" = some (.num R))
    (hX : c.value.lookup "X" = some (.num X)) :
    transformComponent Gen.tables trig harm c w wres
      = some (.ok { n1 := a, n2 := b, id := c.id, ty := "impedance", e := .norton ⟨R, X⟩ 0 })
    ∧ Spec.branchOf trig harm c w wres = some { n1 := a, n2 := b, id := c.id, e := .norton ⟨R, X⟩ 0 } := by
  have hl : Gen.tables.transformers.lookup "impedance" = some "impedance" := by decide
  constructor
  · tc_simp [hk, hl, tspec_impedance, hn, float_of_lookup hR, float_of_lookup hX]
  · tc_simp [hk, hn, num?_of_lookup hR, num?_of_lookup hX]

theorem C07_faithful_conductance (G : Rat)
    (hk : c.kind = "conductance") (hn : c.nodes = [a, b]) (hG : c.value.lookup "G" = some (.num G)) :
    transformComponent Gen.tables trig harm c w wres
      = some (.ok { n1 := a, n2 := b, id := c.id, ty := "conductor", e := .thevenin ⟨G, 0⟩ 0 })
    ∧ Spec.branchOf trig harm c w wres = some { n1 := a, n2 := b, id := c.id, e := .thevenin ⟨G, 0⟩ 0 } := by
  have hl : Gen.tables.transformers.lookup "conductance" = some "conductance" := by decide
  constructor
  · tc_simp [hk, hl, tspec_conductance, hn, float_of_lookup hG]
  · tc_simp [hk, hn, num?_of_lookup hG]

theorem C07_faithful_admittance (G B : Rat)
    (hk : c.kind = "admittance") (hn : c.nodes = [a, b]) (hG : c.value.lookup "G" = some (.num G))
    (hB : c.value.lookup "B" = some (.num B)) :
    transformComponent Gen.tables trig harm c w wres
      = some (.ok { n1 := a, n2 := b, id := c.id, ty := "admittance", e := .thevenin ⟨G, B⟩ 0 })
    ∧ Spec.branchOf trig harm c w wres = some { n1 := a, n2 := b, id := c.id, e := .thevenin ⟨G, B⟩ 0 } := by
  have hl : Gen.tables.transformers.lookup "admittance" = some "admittance" := by decide
  constructor
  · tc_simp [hk, hl, tspec_admittance, hn, float_of_lookup hG, float_of_lookup hB]
  · tc_simp [hk, hn, num?_of_lookup hG, num?_of_lookup hB]

/-- a capacitor is the admittance `j·w·C` -/
theorem C07_faithful_capacitor (C : Rat)
    (hk : c.kind = "capacitor") (hn : c.nodes = [a, b]) (hC : c.value.lookup "C" = some (.num C)) :
    transformComponent Gen.tables trig harm c w wres
      = some (.ok { n1 := a, n2 := b, id := c.id, ty := "admittance", e := .thevenin ⟨0, w * C⟩ 0 })
    ∧ Spec.branchOf trig harm c w wres = some { n1 := a, n2 := b, id := c.id, e := .thevenin ⟨0, w * C⟩ 0 } := by
  have hl : Gen.tables.transformers.lookup "capacitor" = some "capacitor" := by decide
  constructor
  · tc_simp [hk, hl, tspec_capacitor, hn, float_of_lookup hC]
  · tc_simp [hk, hn, num?_of_lookup hC]

/-- an inductor is the impedance `j·w·L` -/
theorem C07_faithful_inductance (L : Rat)
    (hk : c.kind = "inductance") (hn : c.nodes = [a, b]) (hL : c.value.lookup "L" = some (.num L)) :
    transformComponent Gen.tables trig harm c w wres
      = some (.ok { n1 := a, n2 := b, id := c.id, ty := "impedance", e := .norton ⟨0, w * L⟩ 0 })
    ∧ Spec.branchOf trig harm c w wres = some { n1 := a, n2 := b, id := c.id, e := .norton ⟨0, w * L⟩ 0 } := by
  have hl : Gen.tables.transformers.lookup "inductance" = some "inductance" := by decide
  constructor
  · tc_simp [hk, hl, tspec_inductance, hn, float_of_lookup hL]
  · tc_simp [hk, hn, num?_of_lookup hL]

/-- lamps and resistive loads are the admittance `P / V_ref²` (for a positive rated voltage) -/
theorem C07_faithful_load (P V : Rat)
    (hk : c.kind = "lamp" ∨ c.kind = "resistive_load") (hn : c.nodes = [a, b])
    (hP : c.value.lookup "P" = some (.num P)) (hV : c.value.lookup "V_ref" = some (.num V)) (hpos : 0 < V) :
    transformComponent Gen.tables trig harm c w wres
      = some (.ok { n1 := a, n2 := b, id := c.id, ty := "load", e := .thevenin ⟨P / (V * V), 0⟩ 0 })
    ∧ Spec.branchOf trig harm c w wres = some { n1 := a, n2 := b, id := c.id, e := .thevenin ⟨P / (V * V), 0⟩ 0 } := by
  have hl1 : Gen.tables.transformers.lookup "lamp" = some "resistive_load" := by decide
  have hl2 : Gen.tables.transformers.lookup "resistive_load" = some "resistive_load" := by decide
  have g1 : ¬ V < 0 := by grind
  have g2 : ¬ V = 0 := by grind
  have g3 : ¬ (0 : Rat) < -1 := by decide +kernel
  rcases hk with hk | hk
  · constructor
    · tc_simp [hk, hl1, tspec_resistive_load, hn, float_of_lookup hP, float_of_lookup hV, elmLoad, g1, g2, g3, hpos, GQ.divR]
      all_goals grind
    · tc_simp [hk, hn, num?_of_lookup hP, num?_of_lookup hV, hpos]
  · constructor
    · tc_simp [hk, hl2, tspec_resistive_load, hn, float_of_lookup hP, float_of_lookup hV, elmLoad, g1, g2, g3, hpos, GQ.divR]
      all_goals grind
    · tc_simp [hk, hn, num?_of_lookup hP, num?_of_lookup hV, hpos]

theorem C07_faithful_short_circuit (hk : c.kind = "short_circuit") (hn : c.nodes = [a, b]) :
    transformComponent Gen.tables trig harm c w wres
      = some (.ok { n1 := a, n2 := b, id := c.id, ty := "short_circuit", e := .norton 0 0 })
    ∧ Spec.branchOf trig harm c w wres = some { n1 := a, n2 := b, id := c.id, e := .norton 0 0 } := by
  have hl : Gen.tables.transformers.lookup "short_circuit" = some "short_circuit" := by decide
  constructor
  · tc_simp [hk, hl, tspec_short_circuit, hn]
  · tc_simp [hk, hn]

/-- a DC voltage source is active within the resolution of `w = 0` and a short circuit elsewhere -/
theorem C07_faithful_dc_voltage_source (h0 : TrigZero trig) (V R : Rat)
    (hk : c.kind = "dc_voltage_source") (hn : c.nodes = [a, b])
    (hV : c.value.lookup "V" = some (.num V)) (hR : c.value.lookup "R" = some (.num R))
    (hw : c.value.lookup "w" = some (.num 0)) :
    transformComponent Gen.tables trig harm c w wres
      = some (.ok (if Spec.dist w 0 ≤ wres
          then { n1 := a, n2 := b, id := c.id, ty := "voltage_source", e := .norton ⟨R, 0⟩ ⟨V, 0⟩ }
          else { n1 := a, n2 := b, id := c.id, ty := "short_circuit", e := .norton 0 0 }))
    ∧ Spec.branchOf trig harm c w wres = some { n1 := a, n2 := b, id := c.id, e := (if Spec.dist w 0 ≤ wres then .norton ⟨R, 0⟩ ⟨V, 0⟩ else .norton 0 0) } := by
  have hl : Gen.tables.transformers.lookup "dc_voltage_source" = some "dc_voltage_source" := by decide
  unfold TrigZero at h0
  constructor
  · tc_simp [hk, hl, tspec_dc_voltage_source, hn, float_of_lookup hV, float_of_lookup hR, float_of_lookup hw, h0, gate_iff, gate_iff0]
    split <;> simp_all
  · tc_simp [hk, hn, num?_of_lookup hV, num?_of_lookup hR]

/-- an AC voltage source contributes `V·(cos φ + j sin φ)` behind `R` within the resolution of
its own frequency (boundary included) and is a short circuit at every other frequency -/
theorem C07_faithful_ac_voltage_source (h0 : TrigZero trig) (V R ws phi : Rat)
    (hk : c.kind = "ac_voltage_source") (hn : c.nodes = [a, b])
    (hV : c.value.lookup "V" = some (.num V)) (hR : c.value.lookup "R" = some (.num R))
    (hw : c.value.lookup "w" = some (.num ws)) (hp : c.value.lookup "phi" = some (.num phi)) :
    transformComponent Gen.tables trig harm c w wres
      = some (.ok (if Spec.dist w ws ≤ wres
          then { n1 := a, n2 := b, id := c.id, ty := "voltage_source", e := .norton ⟨R, 0⟩ (Spec.phasor trig V phi) }
          else { n1 := a, n2 := b, id := c.id, ty := "short_circuit", e := .norton 0 0 }))
    ∧ Spec.branchOf trig harm c w wres = some { n1 := a, n2 := b, id := c.id, e := (if Spec.dist w ws ≤ wres then .norton ⟨R, 0⟩ (Spec.phasor trig V phi) else .norton 0 0) } := by
  have hl : Gen.tables.transformers.lookup "ac_voltage_source" = some "ac_voltage_source" := by decide
  unfold TrigZero at h0
  constructor
  · tc_simp [hk, hl, tspec_ac_voltage_source, hn, float_of_lookup hV, float_of_lookup hR, float_of_lookup hw,
      float_of_lookup hp, h0, gate_iff]
    split <;> simp_all
  · tc_simp [hk, hn, num?_of_lookup hV, num?_of_lookup hR, num?_of_lookup hw, num?_of_lookup hp]

/-- a complex voltage source carries no frequency: it is active at every `w` -/
theorem C07_faithful_complex_voltage_source (Vr Vi R X : Rat)
    (hk : c.kind = "complex_voltage_source") (hn : c.nodes = [a, b])
    (hVr : c.value.lookup "V_real" = some (.num Vr)) (hVi : c.value.lookup "V_imag" = some (.num Vi))
    (hR : c.value.lookup "R" = some (.num R)) (hX : c.value.lookup "X" = some (.num X)) :
    transformComponent Gen.tables trig harm c w wres
      = some (.ok { n1 := a, n2 := b, id := c.id, ty := "voltage_source", e := .norton ⟨R, X⟩ ⟨Vr, Vi⟩ })
    ∧ Spec.branchOf trig harm c w wres = some { n1 := a, n2 := b, id := c.id, e := .norton ⟨R, X⟩ ⟨Vr, Vi⟩ } := by
  have hl : Gen.tables.transformers.lookup "complex_voltage_source" = some "complex_voltage_source" := by decide
  constructor
  · tc_simp [hk, hl, tspec_complex_voltage_source, hn, float_of_lookup hVr, float_of_lookup hVi, float_of_lookup hR,
      float_of_lookup hX]
  · tc_simp [hk, hn, num?_of_lookup hVr, num?_of_lookup hVi, num?_of_lookup hR, num?_of_lookup hX]

/-- a DC current source is active within the resolution of `w = 0` and an open circuit elsewhere -/
theorem C07_faithful_dc_current_source (h0 : TrigZero trig) (I G : Rat)
    (hk : c.kind = "dc_current_source") (hn : c.nodes = [a, b])
    (hI : c.value.lookup "I" = some (.num I)) (hG : c.value.lookup "G" = some (.num G))
    (hw : c.value.lookup "w" = some (.num 0)) :
    transformComponent Gen.tables trig harm c w wres
      = some (.ok (if Spec.dist w 0 ≤ wres
          then { n1 := a, n2 := b, id := c.id, ty := "current_source", e := .thevenin ⟨G, 0⟩ ⟨I, 0⟩ }
          else { n1 := a, n2 := b, id := c.id, ty := "open_circuit", e := .thevenin 0 0 }))
    ∧ Spec.branchOf trig harm c w wres = some { n1 := a, n2 := b, id := c.id, e := (if Spec.dist w 0 ≤ wres then .thevenin ⟨G, 0⟩ ⟨I, 0⟩ else .thevenin 0 0) } := by
  have hl : Gen.tables.transformers.lookup "dc_current_source" = some "dc_current_source" := by decide
  unfold TrigZero at h0
  constructor
  · tc_simp [hk, hl, tspec_dc_current_source, hn, float_of_lookup hI, float_of_lookup hG, float_of_lookup hw, h0, gate_iff, gate_iff0]
    split <;> simp_all
  · tc_simp [hk, hn, num?_of_lookup hI, num?_of_lookup hG]

/-- an AC current source contributes `I·(cos φ + j sin φ)` beside `G` within the resolution of
its own frequency and is an open circuit at every other frequency -/
theorem C07_faithful_ac_current_source (h0 : TrigZero trig) (I G ws phi : Rat)
    (hk : c.kind = "ac_current_source") (hn : c.nodes = [a, b])
    (hI : c.value.lookup "I" = some (.num I)) (hG : c.value.lookup "G" = some (.num G))
    (hw : c.value.lookup "w" = some (.num ws)) (hp : c.value.lookup "phi" = some (.num phi)) :
    transformComponent Gen.tables trig harm c w wres
      = some (.ok (if Spec.dist w ws ≤ wres
          then { n1 := a, n2 := b, id := c.id, ty := "current_source", e := .thevenin ⟨G, 0⟩ (Spec.phasor trig I phi) }
          else { n1 := a, n2 := b, id := c.id, ty := "open_circuit", e := .thevenin 0 0 }))
    ∧ Spec.branchOf trig harm c w wres = some { n1 := a, n2 := b, id := c.id, e := (if Spec.dist w ws ≤ wres then .thevenin ⟨G, 0⟩ (Spec.phasor trig I phi) else .thevenin 0 0) } := by
  have hl : Gen.tables.transformers.lookup "ac_current_source" = some "ac_current_source" := by decide
  unfold TrigZero at h0
  constructor
  · tc_simp [hk, hl, tspec_ac_current_source, hn, float_of_lookup hI, float_of_lookup hG, float_of_lookup hw,
      float_of_lookup hp, h0, gate_iff]
    split <;> simp_all
  · tc_simp [hk, hn, num?_of_lookup hI, num?_of_lookup hG, num?_of_lookup hw, num?_of_lookup hp]


/-- a complex current source carries no frequency: it is active at every `w` -/
theorem C07_faithful_complex_current_source (Ir Ii G B : Rat)
    (hk : c.kind = "complex_current_source") (hn : c.nodes = [a, b])
    (hIr : c.value.lookup "I_real" = some (.num Ir)) (hIi : c.value.lookup "I_imag" = some (.num Ii))
    (hG : c.value.lookup "G" = some (.num G)) (hB : c.value.lookup "B" = some (.num B)) :
    transformComponent Gen.tables trig harm c w wres
      = some (.ok { n1 := a, n2 := b, id := c.id, ty := "current_source", e := .thevenin ⟨G, B⟩ ⟨Ir, Ii⟩ })
    ∧ Spec.branchOf trig harm c w wres = some { n1 := a, n2 := b, id := c.id, e := .thevenin ⟨G, B⟩ ⟨Ir, Ii⟩ } := by
  have hl : Gen.tables.transformers.lookup "complex_current_source" = some "complex_current_source" := by decide
  constructor
  · tc_simp [hk, hl, tspec_complex_current_source, hn, float_of_lookup hIr, float_of_lookup hIi, float_of_lookup hG,
      float_of_lookup hB]
  · tc_simp [hk, hn, num?_of_lookup hIr, num?_of_lookup hIi, num?_of_lookup hG, num?_of_lookup hB]

/-! ## periodic sources: harmonic selection -/

/-- the gate of a periodic source at `w` (in the code's own units): the nearest harmonic
`n = np.round(w/w0)` is farther than the resolution -/
def periodicOff (w w0 wres : Rat) : Prop := wres / w0 < absQ (w / w0 - (roundHalfEven (w / w0) : Rat))

instance (w w0 wres : Rat) : Decidable (periodicOff w w0 wres) := by unfold periodicOff; infer_instance

/-- **C07 (harmonic, soundness of the gate).**  When the code treats the source as active,
the harmonic it selected really lies within the resolution of the analysis frequency. -/
theorem C07_harmonic_sound (w w0 wres : Rat) (h0 : 0 < w0) (h : ¬ periodicOff w w0 wres) :
    Spec.dist w ((roundHalfEven (w / w0) : Rat) * w0) ≤ wres := by
  rw [dist_mul_iff w w0 wres _ h0]
  exact not_lt.mp h

/-- **C07 (harmonic, completeness of the gate).**  When *any* harmonic `m·w0` lies within the
resolution of `w`, the code treats the source as active. -/
theorem C07_harmonic_complete (w w0 wres : Rat) (h0 : 0 < w0) (m : Int)
    (h : Spec.dist w ((m : Rat) * w0) ≤ wres) : ¬ periodicOff w w0 wres := by
  unfold periodicOff
  rw [dist_mul_iff w w0 wres _ h0] at h
  exact not_lt.mpr (le_trans (round_nearest _ m) h)

/-- **C07 (harmonic, index).**  With a resolution finer than half the fundamental the harmonic
is unique, and it is the one the specification names. -/
theorem C07_harmonic_index (w w0 wres : Rat) (h0 : 0 < w0) (hres : 2 * wres < w0) :
    Spec.harmonicIndex? w w0 wres = if periodicOff w w0 wres then none else some (roundHalfEven (w / w0)) :=
  harmonicIndex_eq w w0 wres h0 hres

theorem tspec_periodic_voltage_source : Gen.tables.tspec? "periodic_voltage_source" = some
    { fn := "periodic_voltage_source", reads := ["wavetype", "w", "V", "phi"], n1 := 0, n2 := 1, idSelf := true,
      body := .periodic "wavetype" "w" "V" "phi" .gt .shortCircuit
        "ac_voltage_source" [("w", .w), ("phi", .harmPhase), ("V", .harmAmp), ("R", .key "R")] "ac_voltage_source" } := by decide

theorem tspec_periodic_current_source : Gen.tables.tspec? "periodic_current_source" = some
    { fn := "periodic_current_source", reads := ["wavetype", "w", "I", "phi"], n1 := 0, n2 := 1, idSelf := true,
      body := .periodic "wavetype" "w" "I" "phi" .gt .openCircuit
        "ac_current_source" [("w", .w), ("phi", .harmPhase), ("I", .harmAmp), ("G", .key "G")] "ac_current_source" } := by decide

theorem ctor_ac_voltage_source : Gen.tables.ctor? "ac_voltage_source" = some
    { fn := "ac_voltage_source", kind := "ac_voltage_source", idDefault := none, nodesDefault := none,
      params := [("V", .real, none), ("R", .real, some (.num 0)), ("w", .real, some (.num 0)), ("phi", .real, some (.num 0))],
      guards := [⟨"R", .lt, 0, "ValueError"⟩, ⟨"w", .lt, 0, "ValueError"⟩],
      values := [("V", .param "V"), ("R", .param "R"), ("w", .param "w"), ("phi", .param "phi")] } := by decide

theorem ctor_ac_current_source : Gen.tables.ctor? "ac_current_source" = some
    { fn := "ac_current_source", kind := "ac_current_source", idDefault := none, nodesDefault := none,
      params := [("I", .real, none), ("G", .real, some (.num 0)), ("w", .real, some (.num 0)), ("phi", .real, some (.num 0))],
      guards := [⟨"G", .lt, 0, "ValueError"⟩, ⟨"w", .lt, 0, "ValueError"⟩],
      values := [("I", .param "I"), ("G", .param "G"), ("w", .param "w"), ("phi", .param "phi")] } := by decide

theorem ctorE_ac_voltage_source : Gen.tables.ctorE "ac_voltage_source" = .ok
    { fn := "ac_voltage_source", kind := "ac_voltage_source", idDefault := none, nodesDefault := none,
      params := [("V", .real, none), ("R", .real, some (.num 0)), ("w", .real, some (.num 0)), ("phi", .real, some (.num 0))],
      guards := [⟨"R", .lt, 0, "ValueError"⟩, ⟨"w", .lt, 0, "ValueError"⟩],
      values := [("V", .param "V"), ("R", .param "R"), ("w", .param "w"), ("phi", .param "phi")] } := by
  simp [Tables.ctorE, ctor_ac_voltage_source]

theorem ctorE_ac_current_source : Gen.tables.ctorE "ac_current_source" = .ok
    { fn := "ac_current_source", kind := "ac_current_source", idDefault := none, nodesDefault := none,
      params := [("I", .real, none), ("G", .real, some (.num 0)), ("w", .real, some (.num 0)), ("phi", .real, some (.num 0))],
      guards := [⟨"G", .lt, 0, "ValueError"⟩, ⟨"w", .lt, 0, "ValueError"⟩],
      values := [("I", .param "I"), ("G", .param "G"), ("w", .param "w"), ("phi", .param "phi")] } := by
  simp [Tables.ctorE, ctor_ac_current_source]

theorem tspecE_ac_voltage_source : Gen.tables.tspecE "ac_voltage_source" = .ok
    { fn := "ac_voltage_source", reads := ["V", "phi", "R", "w"], n1 := 0, n2 := 1, idSelf := true,
      body := .gated (.voltageSource (.polar (.key "V") (.key "phi")) (.polar (.key "R") (.lit 0)))
        (.key "w") .gt .shortCircuit } := by
  simp [Tables.tspecE, tspec_ac_voltage_source]

theorem tspecE_ac_current_source : Gen.tables.tspecE "ac_current_source" = .ok
    { fn := "ac_current_source", reads := ["I", "G", "w", "phi"], n1 := 0, n2 := 1, idSelf := true,
      body := .gated (.currentSource (.polar (.key "I") (.key "phi")) (.polar (.key "G") (.lit 0)))
        (.key "w") .gt .openCircuit } := by
  simp [Tables.tspecE, tspec_ac_current_source]

/-- **C07 (harmonic), voltage.**
A periodic voltage source with fundamental `w0 > 0` and internal resistance `R ≥ 0`, analysed at
`w ≥ 0` with a resolution `0 ≤ w_res < w0/2`, becomes: the `n`-th harmonic
`amplitude(n)·(cos phase(n) + j sin phase(n))` behind `R` when `n·w0` is within the resolution of
`w`, a short circuit otherwise — as the specification demands. -/
theorem C07_harmonic_voltage (h0 : TrigZero trig) (wt : String) (V w0 phi R : Rat)
    (hk : c.kind = "periodic_voltage_source") (hn : c.nodes = [a, b])
    (hwt : c.value.lookup "wavetype" = some (.str wt)) (hwave : wt ∈ Gen.waveTypes)
    (hV : c.value.lookup "V" = some (.num V)) (hw0 : c.value.lookup "w" = some (.num w0))
    (hphi : c.value.lookup "phi" = some (.num phi)) (hR : c.value.lookup "R" = some (.num R)) (hRpos : 0 ≤ R)
    (hpos : 0 < w0) (hw : 0 ≤ w) (hres0 : 0 ≤ wres) (hres : 2 * wres < w0) :
    let n := roundHalfEven (w / w0)
    transformComponent Gen.tables trig harm c w wres
      = some (.ok (if periodicOff w w0 wres
          then { n1 := a, n2 := b, id := c.id, ty := "short_circuit", e := .norton 0 0 }
          else { n1 := a, n2 := b, id := c.id, ty := "voltage_source",
                 e := .norton ⟨R, 0⟩ (Spec.phasor trig (harm wt V phi n).1 (harm wt V phi n).2) }))
    ∧ Spec.branchOf trig harm c w wres = some { n1 := a, n2 := b, id := c.id, e := (if periodicOff w w0 wres
          then .norton 0 0 else .norton ⟨R, 0⟩ (Spec.phasor trig (harm wt V phi n).1 (harm wt V phi n).2)) } := by
  intro n
  have hl : Gen.tables.transformers.lookup "periodic_voltage_source" = some "periodic_voltage_source" := by decide
  have hne : ¬ w0 = 0 := by grind
  have hwn : ¬ w < 0 := by grind
  have hRn : ¬ R < 0 := by grind
  have hg : ¬ wres < absQ (w - w) := by
    have : w - w = 0 := by grind
    rw [this, absQ_zero]; grind
  have hg0 : absQ 0 ≤ wres := by rw [absQ_zero]; exact hres0
  have hctor := ctorE_ac_voltage_source
  have hin : wt ∈ Gen.tables.waves := hwave
  unfold TrigZero at h0
  constructor
  · simp only [transformComponent, hk, hl, tspec_periodic_voltage_source, TSpec.run]
    simp [preRead, Component.get?, Component.strOf, hwt, float_of_lookup hV, float_of_lookup hw0, float_of_lookup hphi,
      periodicFunction, hin, hne, bind, Except.bind, pure, Except.pure, Cmp.holds]
    split
    · rename_i hoff
      have : periodicOff w w0 wres := hoff
      simp [this, EE.eval, mkBranch, Component.node, hn, bind, Except.bind, pure, Except.pure]
    · rename_i hoff
      have : ¬ periodicOff w w0 wres := hoff
      simp [this, periodicActive, hctor, tspecE_ac_voltage_source, Component.node, hn, CtorSpec.construct,
        bindParams, HArg.eval, Guard.check, VE.eval, errOfExc, Cmp.holds, hwn, hRn, List.lookup, float_of_lookup hR, hR,
        TSpec.runSimple, preRead, Component.float, Component.get?, RE.eval, CE.eval, EE.eval, complexValue, mkBranch,
        bind, Except.bind, pure, Except.pure, h0, hg, hg0, Spec.phasor, n]
  · by_cases hoff : periodicOff w w0 wres <;>
    simp [Spec.branchOf, Spec.elemOf, hk, hn, str?_of_lookup hwt, num?_of_lookup hV, num?_of_lookup hw0,
      num?_of_lookup hphi, num?_of_lookup hR, hpos, C07_harmonic_index w w0 wres hpos hres, Spec.shortE, n, hoff]

/-- **C07 (harmonic), current**: the `n`-th harmonic beside `G ≥ 0`, an open circuit otherwise. -/
theorem C07_harmonic_current (h0 : TrigZero trig) (wt : String) (I w0 phi G : Rat)
    (hk : c.kind = "periodic_current_source") (hn : c.nodes = [a, b])
    (hwt : c.value.lookup "wavetype" = some (.str wt)) (hwave : wt ∈ Gen.waveTypes)
    (hI : c.value.lookup "I" = some (.num I)) (hw0 : c.value.lookup "w" = some (.num w0))
    (hphi : c.value.lookup "phi" = some (.num phi)) (hG : c.value.lookup "G" = some (.num G)) (hGpos : 0 ≤ G)
    (hpos : 0 < w0) (hw : 0 ≤ w) (hres0 : 0 ≤ wres) (hres : 2 * wres < w0) :
    let n := roundHalfEven (w / w0)
    transformComponent Gen.tables trig harm c w wres
      = some (.ok (if periodicOff w w0 wres
          then { n1 := a, n2 := b, id := c.id, ty := "open_circuit", e := .thevenin 0 0 }
          else { n1 := a, n2 := b, id := c.id, ty := "current_source",
                 e := .thevenin ⟨G, 0⟩ (Spec.phasor trig (harm wt I phi n).1 (harm wt I phi n).2) }))
    ∧ Spec.branchOf trig harm c w wres = some { n1 := a, n2 := b, id := c.id, e := (if periodicOff w w0 wres
          then .thevenin 0 0 else .thevenin ⟨G, 0⟩ (Spec.phasor trig (harm wt I phi n).1 (harm wt I phi n).2)) } := by
  intro n
  have hl : Gen.tables.transformers.lookup "periodic_current_source" = some "periodic_current_source" := by decide
  have hne : ¬ w0 = 0 := by grind
  have hwn : ¬ w < 0 := by grind
  have hGn : ¬ G < 0 := by grind
  have hg : ¬ wres < absQ (w - w) := by
    have : w - w = 0 := by grind
    rw [this, absQ_zero]; grind
  have hg0 : absQ 0 ≤ wres := by rw [absQ_zero]; exact hres0
  have hctor := ctorE_ac_current_source
  have hin : wt ∈ Gen.tables.waves := hwave
  unfold TrigZero at h0
  constructor
  · simp only [transformComponent, hk, hl, tspec_periodic_current_source, TSpec.run]
    simp [preRead, Component.get?, Component.strOf, hwt, float_of_lookup hI, float_of_lookup hw0, float_of_lookup hphi,
      periodicFunction, hin, hne, bind, Except.bind, pure, Except.pure, Cmp.holds]
    split
    · rename_i hoff
      have : periodicOff w w0 wres := hoff
      simp [this, EE.eval, mkBranch, Component.node, hn, bind, Except.bind, pure, Except.pure]
    · rename_i hoff
      have : ¬ periodicOff w w0 wres := hoff
      simp [this, periodicActive, hctor, tspecE_ac_current_source, Component.node, hn, CtorSpec.construct,
        bindParams, HArg.eval, Guard.check, VE.eval, errOfExc, Cmp.holds, hwn, hGn, List.lookup, float_of_lookup hG, hG,
        TSpec.runSimple, preRead, Component.float, Component.get?, RE.eval, CE.eval, EE.eval, complexValue, mkBranch,
        bind, Except.bind, pure, Except.pure, h0, hg, hg0, Spec.phasor, n]
  · by_cases hoff : periodicOff w w0 wres <;>
    simp [Spec.branchOf, Spec.elemOf, hk, hn, str?_of_lookup hwt, num?_of_lookup hI, num?_of_lookup hw0,
      num?_of_lookup hphi, num?_of_lookup hG, hpos, C07_harmonic_index w w0 wres hpos hres, Spec.openE, n, hoff]


/-! ## the full statements -/

/-- the kinds whose branch does not depend on a waveform (everything the component module can
construct except `ground` and the two periodic sources) -/
def exactKinds : List String :=
  ["resistor", "conductance", "impedance", "admittance", "capacitor", "inductance", "lamp", "resistive_load",
   "short_circuit", "dc_voltage_source", "ac_voltage_source", "complex_voltage_source", "dc_current_source",
   "ac_current_source", "complex_current_source"]

def periodicKinds : List String := ["periodic_voltage_source", "periodic_current_source"]

/-- a DC source as its constructor writes it: the stored frequency is 0 -/
def Component.dcOK (c : Component) : Prop :=
  (c.kind = "dc_voltage_source" ∨ c.kind = "dc_current_source") → c.value.lookup "w" = some (.num 0)

/-- admissible analysis of a periodic source — a **restriction** of "every frequency and
resolution" that `C07_harmonic` / `C07_faithful` need (see the docstring of `C07_faithful`): what
the constructor and a resolution that separates the harmonics guarantee: known wavetype, non-negative internal R / G, `w ≥ 0`, `0 ≤ w_res < w0/2` -/
def Component.periodicOK (c : Component) (w wres : Rat) : Prop :=
  c.kind ∈ periodicKinds →
    0 ≤ w ∧ 0 ≤ wres ∧ (∀ w0, Spec.num? c "w" = some w0 → 2 * wres < w0) ∧
    (∀ wt, Spec.str? c "wavetype" = some wt → wt ∈ Gen.waveTypes) ∧
    (∀ r, Spec.num? c "R" = some r → 0 ≤ r) ∧ (∀ g, Spec.num? c "G" = some g → 0 ≤ g)

theorem branchOf_inv {trig : Trig} {harm : Harm} {c : Component} {w wres : Rat} {sb : Branch String GQ}
    (h : Spec.branchOf trig harm c w wres = some sb) :
    ∃ a b e, c.nodes = [a, b] ∧ Spec.elemOf trig harm c w wres = some e ∧
      sb = { n1 := a, n2 := b, id := c.id, e := e } := by
  unfold Spec.branchOf at h
  split at h
  · rename_i a b e hn he
    exact ⟨a, b, e, hn, he, by simpa using h.symm⟩
  · cases h

theorem erase_ite (p : Prop) [Decidable p] (x y : Branch String GQ) :
    Spec.erase (if p then x else y) = if p then Spec.erase x else Spec.erase y := by
  split <;> rfl

/-- **C07 (faithful, kinds without waveform).**  For every kind in `exactKinds`: whenever the
specification defines the intended branch of a component, the generated translator produces
exactly it (same terminals, identifier and record), at every frequency and every resolution
(no sign or size condition on `w`, `w_res` for these kinds). -/
theorem C07_faithful_nonperiodic (trig : Trig) (harm : Harm) (h0 : TrigZero trig) (c : Component) (w wres : Rat)
    (sb : Branch String GQ) (hk : c.kind ∈ exactKinds) (hdc : c.dcOK)
    (hs : Spec.branchOf trig harm c w wres = some sb) :
    ∃ br, transformComponent Gen.tables trig harm c w wres = some (.ok br) ∧ Spec.erase br = sb := by
  obtain ⟨a, b, e, hn, he, rfl⟩ := branchOf_inv hs
  simp only [exactKinds, List.mem_cons, List.mem_nil_iff, or_false] at hk
  rcases hk with hk | hk | hk | hk | hk | hk | hk | hk | hk | hk | hk | hk | hk | hk | hk
  · -- resistor
    by_cases hinf : Spec.isInf c "R" = true
    · simp [Spec.elemOf, hk, hinf] at he; subst he
      have hR : c.value.lookup "R" = some Val.inf := by simpa [Spec.isInf] using hinf
      exact ⟨_, (C07_limits_open_switch trig harm c w wres a b hk hn hR).1, rfl⟩
    · cases hR : Spec.num? c "R" with
      | none => simp [Spec.elemOf, hk, hR, hinf] at he
      | some R =>
        simp [Spec.elemOf, hk, hR, hinf] at he; subst he
        exact ⟨_, (C07_faithful_resistor trig harm c w wres a b R hk hn (lookup_of_num? hR)).1, rfl⟩
  · -- conductance
    cases hG : Spec.num? c "G" with
    | none => simp [Spec.elemOf, hk, hG] at he
    | some G =>
      simp [Spec.elemOf, hk, hG] at he; subst he
      exact ⟨_, (C07_faithful_conductance trig harm c w wres a b G hk hn (lookup_of_num? hG)).1, rfl⟩
  · -- impedance
    cases hR : Spec.num? c "R" with
    | none => simp [Spec.elemOf, hk, hR] at he
    | some R =>
      cases hX : Spec.num? c "X" with
      | none => simp [Spec.elemOf, hk, hR, hX] at he
      | some X =>
        simp [Spec.elemOf, hk, hR, hX] at he; subst he
        exact ⟨_, (C07_faithful_impedance trig harm c w wres a b R X hk hn (lookup_of_num? hR) (lookup_of_num? hX)).1, rfl⟩
  · -- admittance
    cases hG : Spec.num? c "G" with
    | none => simp [Spec.elemOf, hk, hG] at he
    | some G =>
      cases hB : Spec.num? c "B" with
      | none => simp [Spec.elemOf, hk, hG, hB] at he
      | some B =>
        simp [Spec.elemOf, hk, hG, hB] at he; subst he
        exact ⟨_, (C07_faithful_admittance trig harm c w wres a b G B hk hn (lookup_of_num? hG) (lookup_of_num? hB)).1, rfl⟩
  · -- capacitor
    cases hC : Spec.num? c "C" with
    | none => simp [Spec.elemOf, hk, hC] at he
    | some C =>
      simp [Spec.elemOf, hk, hC] at he; subst he
      exact ⟨_, (C07_faithful_capacitor trig harm c w wres a b C hk hn (lookup_of_num? hC)).1, rfl⟩
  · -- inductance
    cases hL : Spec.num? c "L" with
    | none => simp [Spec.elemOf, hk, hL] at he
    | some L =>
      simp [Spec.elemOf, hk, hL] at he; subst he
      exact ⟨_, (C07_faithful_inductance trig harm c w wres a b L hk hn (lookup_of_num? hL)).1, rfl⟩
  · -- lamp
    cases hP : Spec.num? c "P" with
    | none => simp [Spec.elemOf, hk, hP] at he
    | some P =>
      cases hV : Spec.num? c "V_ref" with
      | none => simp [Spec.elemOf, hk, hP, hV] at he
      | some V =>
        by_cases hpos : 0 < V
        · simp [Spec.elemOf, hk, hP, hV, hpos] at he; subst he
          exact ⟨_, (C07_faithful_load trig harm c w wres a b P V (Or.inl hk) hn (lookup_of_num? hP) (lookup_of_num? hV) hpos).1, rfl⟩
        · simp [Spec.elemOf, hk, hP, hV, hpos] at he
  · -- resistive_load
    cases hP : Spec.num? c "P" with
    | none => simp [Spec.elemOf, hk, hP] at he
    | some P =>
      cases hV : Spec.num? c "V_ref" with
      | none => simp [Spec.elemOf, hk, hP, hV] at he
      | some V =>
        by_cases hpos : 0 < V
        · simp [Spec.elemOf, hk, hP, hV, hpos] at he; subst he
          exact ⟨_, (C07_faithful_load trig harm c w wres a b P V (Or.inr hk) hn (lookup_of_num? hP) (lookup_of_num? hV) hpos).1, rfl⟩
        · simp [Spec.elemOf, hk, hP, hV, hpos] at he
  · -- short_circuit
    simp [Spec.elemOf, hk] at he; subst he
    exact ⟨_, (C07_faithful_short_circuit trig harm c w wres a b hk hn).1, rfl⟩
  · -- dc_voltage_source
    have hw := hdc (Or.inl hk)
    cases hV : Spec.num? c "V" with
    | none => simp [Spec.elemOf, hk, hV] at he
    | some V =>
      cases hR : Spec.num? c "R" with
      | none => simp [Spec.elemOf, hk, hV, hR] at he
      | some R =>
        simp [Spec.elemOf, hk, hV, hR] at he; subst he
        refine ⟨_, (C07_faithful_dc_voltage_source trig harm c w wres a b h0 V R hk hn (lookup_of_num? hV) (lookup_of_num? hR) hw).1, ?_⟩
        rw [erase_ite]; split <;> simp [Spec.erase, Spec.shortE]
  · -- ac_voltage_source
    cases hV : Spec.num? c "V" with
    | none => simp [Spec.elemOf, hk, hV] at he
    | some V =>
      cases hR : Spec.num? c "R" with
      | none => simp [Spec.elemOf, hk, hV, hR] at he
      | some R =>
        cases hws : Spec.num? c "w" with
        | none => simp [Spec.elemOf, hk, hV, hR, hws] at he
        | some ws =>
          cases hp : Spec.num? c "phi" with
          | none => simp [Spec.elemOf, hk, hV, hR, hws, hp] at he
          | some phi =>
            simp [Spec.elemOf, hk, hV, hR, hws, hp] at he; subst he
            refine ⟨_, (C07_faithful_ac_voltage_source trig harm c w wres a b h0 V R ws phi hk hn (lookup_of_num? hV)
              (lookup_of_num? hR) (lookup_of_num? hws) (lookup_of_num? hp)).1, ?_⟩
            rw [erase_ite]; split <;> simp [Spec.erase, Spec.shortE]
  · -- complex_voltage_source
    cases hVr : Spec.num? c "V_real" with
    | none => simp [Spec.elemOf, hk, hVr] at he
    | some Vr =>
      cases hVi : Spec.num? c "V_imag" with
      | none => simp [Spec.elemOf, hk, hVr, hVi] at he
      | some Vi =>
        cases hR : Spec.num? c "R" with
        | none => simp [Spec.elemOf, hk, hVr, hVi, hR] at he
        | some R =>
          cases hX : Spec.num? c "X" with
          | none => simp [Spec.elemOf, hk, hVr, hVi, hR, hX] at he
          | some X =>
            simp [Spec.elemOf, hk, hVr, hVi, hR, hX] at he; subst he
            exact ⟨_, (C07_faithful_complex_voltage_source trig harm c w wres a b Vr Vi R X hk hn (lookup_of_num? hVr)
              (lookup_of_num? hVi) (lookup_of_num? hR) (lookup_of_num? hX)).1, rfl⟩
  · -- dc_current_source
    have hw := hdc (Or.inr hk)
    cases hI : Spec.num? c "I" with
    | none => simp [Spec.elemOf, hk, hI] at he
    | some I =>
      cases hG : Spec.num? c "G" with
      | none => simp [Spec.elemOf, hk, hI, hG] at he
      | some G =>
        simp [Spec.elemOf, hk, hI, hG] at he; subst he
        refine ⟨_, (C07_faithful_dc_current_source trig harm c w wres a b h0 I G hk hn (lookup_of_num? hI) (lookup_of_num? hG) hw).1, ?_⟩
        rw [erase_ite]; split <;> simp [Spec.erase, Spec.openE]
  · -- ac_current_source
    cases hI : Spec.num? c "I" with
    | none => simp [Spec.elemOf, hk, hI] at he
    | some I =>
      cases hG : Spec.num? c "G" with
      | none => simp [Spec.elemOf, hk, hI, hG] at he
      | some G =>
        cases hws : Spec.num? c "w" with
        | none => simp [Spec.elemOf, hk, hI, hG, hws] at he
        | some ws =>
          cases hp : Spec.num? c "phi" with
          | none => simp [Spec.elemOf, hk, hI, hG, hws, hp] at he
          | some phi =>
            simp [Spec.elemOf, hk, hI, hG, hws, hp] at he; subst he
            refine ⟨_, (C07_faithful_ac_current_source trig harm c w wres a b h0 I G ws phi hk hn (lookup_of_num? hI)
              (lookup_of_num? hG) (lookup_of_num? hws) (lookup_of_num? hp)).1, ?_⟩
            rw [erase_ite]; split <;> simp [Spec.erase, Spec.openE]
  · -- complex_current_source
    cases hIr : Spec.num? c "I_real" with
    | none => simp [Spec.elemOf, hk, hIr] at he
    | some Ir =>
      cases hIi : Spec.num? c "I_imag" with
      | none => simp [Spec.elemOf, hk, hIr, hIi] at he
      | some Ii =>
        cases hG : Spec.num? c "G" with
        | none => simp [Spec.elemOf, hk, hIr, hIi, hG] at he
        | some G =>
          cases hB : Spec.num? c "B" with
          | none => simp [Spec.elemOf, hk, hIr, hIi, hG, hB] at he
          | some B =>
            simp [Spec.elemOf, hk, hIr, hIi, hG, hB] at he; subst he
            exact ⟨_, (C07_faithful_complex_current_source trig harm c w wres a b Ir Ii G B hk hn (lookup_of_num? hIr)
              (lookup_of_num? hIi) (lookup_of_num? hG) (lookup_of_num? hB)).1, rfl⟩

/-- the harmonic statement: a periodic source under an admissible analysis is translated to the
branch the specification intends -/
def C07_harmonic_statement : Prop :=
  ∀ (trig : Trig) (harm : Harm) (c : Component) (w wres : Rat) (sb : Branch String GQ),
    TrigZero trig → c.kind ∈ periodicKinds → c.periodicOK w wres →
    Spec.branchOf trig harm c w wres = some sb →
    ∃ br, transformComponent Gen.tables trig harm c w wres = some (.ok br) ∧ Spec.erase br = sb

/-- **C07 (harmonic).** -/
theorem C07_harmonic : C07_harmonic_statement := by
  intro trig harm c w wres sb h0 hk hok hs
  obtain ⟨hw, hres0, hres, hwave, hRpos, hGpos⟩ := hok hk
  obtain ⟨a, b, e, hn, he, rfl⟩ := branchOf_inv hs
  simp only [periodicKinds, List.mem_cons, List.mem_nil_iff, or_false] at hk
  rcases hk with hk | hk
  · cases hwt : Spec.str? c "wavetype" with
    | none => simp [Spec.elemOf, hk, hwt] at he
    | some wt =>
    cases hV : Spec.num? c "V" with
    | none => simp [Spec.elemOf, hk, hwt, hV] at he
    | some V =>
    cases hw0 : Spec.num? c "w" with
    | none => simp [Spec.elemOf, hk, hwt, hV, hw0] at he
    | some w0 =>
    cases hphi : Spec.num? c "phi" with
    | none => simp [Spec.elemOf, hk, hwt, hV, hw0, hphi] at he
    | some phi =>
    cases hR : Spec.num? c "R" with
    | none => simp [Spec.elemOf, hk, hwt, hV, hw0, hphi, hR] at he
    | some R =>
    by_cases hpos : 0 < w0
    · obtain ⟨h1, h2⟩ := C07_harmonic_voltage trig harm c w wres a b h0 wt V w0 phi R hk hn (lookup_of_str? hwt)
        (hwave wt hwt) (lookup_of_num? hV) (lookup_of_num? hw0) (lookup_of_num? hphi) (lookup_of_num? hR)
        (hRpos R hR) hpos hw hres0 (hres w0 hw0)
      have : Spec.branchOf trig harm c w wres = some { n1 := a, n2 := b, id := c.id, e := e } := by
        simp [Spec.branchOf, hn, he]
      rw [this] at h2
      refine ⟨_, h1, ?_⟩
      rw [Option.some.inj h2, erase_ite]; split <;> simp [Spec.erase]
    · simp [Spec.elemOf, hk, hwt, hV, hw0, hphi, hR, hpos] at he
  · cases hwt : Spec.str? c "wavetype" with
    | none => simp [Spec.elemOf, hk, hwt] at he
    | some wt =>
    cases hI : Spec.num? c "I" with
    | none => simp [Spec.elemOf, hk, hwt, hI] at he
    | some I =>
    cases hw0 : Spec.num? c "w" with
    | none => simp [Spec.elemOf, hk, hwt, hI, hw0] at he
    | some w0 =>
    cases hphi : Spec.num? c "phi" with
    | none => simp [Spec.elemOf, hk, hwt, hI, hw0, hphi] at he
    | some phi =>
    cases hG : Spec.num? c "G" with
    | none => simp [Spec.elemOf, hk, hwt, hI, hw0, hphi, hG] at he
    | some G =>
    by_cases hpos : 0 < w0
    · obtain ⟨h1, h2⟩ := C07_harmonic_current trig harm c w wres a b h0 wt I w0 phi G hk hn (lookup_of_str? hwt)
        (hwave wt hwt) (lookup_of_num? hI) (lookup_of_num? hw0) (lookup_of_num? hphi) (lookup_of_num? hG)
        (hGpos G hG) hpos hw hres0 (hres w0 hw0)
      have : Spec.branchOf trig harm c w wres = some { n1 := a, n2 := b, id := c.id, e := e } := by
        simp [Spec.branchOf, hn, he]
      rw [this] at h2
      refine ⟨_, h1, ?_⟩
      rw [Option.some.inj h2, erase_ite]; split <;> simp [Spec.erase]
    · simp [Spec.elemOf, hk, hwt, hI, hw0, hphi, hG, hpos] at he

/-- whenever the specification defines the intended branch of a component (DC sources as their
constructor writes them, periodic sources under an admissible analysis), the conversion
produces it -/
def C07_faithful_statement : Prop :=
  ∀ (trig : Trig) (harm : Harm) (c : Component) (w wres : Rat) (sb : Branch String GQ),
    TrigZero trig → c.dcOK → c.periodicOK w wres → Spec.branchOf trig harm c w wres = some sb →
    ∃ br, transformComponent Gen.tables trig harm c w wres = some (.ok br) ∧ Spec.erase br = sb

/-- the specification defines a branch only for the kinds the component module can construct -/
theorem branchOf_kind {trig : Trig} {harm : Harm} {c : Component} {w wres : Rat} {sb : Branch String GQ}
    (h : Spec.branchOf trig harm c w wres = some sb) : c.kind ∈ exactKinds ∨ c.kind ∈ periodicKinds := by
  obtain ⟨a, b, e, _, he, _⟩ := branchOf_inv h
  by_contra hk
  simp only [exactKinds, periodicKinds, List.mem_cons, List.mem_nil_iff, or_false, not_or] at hk
  obtain ⟨⟨k1, k2, k3, k4, k5, k6, k7, k8, k9, k10, k11, k12, k13, k14, k15⟩, k16, k17⟩ := hk
  simp [Spec.elemOf, k1, k2, k3, k4, k5, k6, k7, k8, k9, k10, k11, k12, k13, k14, k15, k16, k17] at he

/-- the specification covers every kind the component module can construct: the hypothesis
`Spec.branchOf … = some sb` of the faithfulness theorems cannot fail for want of a Spec entry of
the *kind* (it can for want of the values the kind needs, e.g. a hand-built component without
its keys) -/
theorem C07_spec_covers_kinds :
    ∀ s ∈ ctorSpecs, s.kind ≠ "ground" → s.kind ∈ exactKinds ++ periodicKinds := by decide

/-- **C07 (faithful).**  Every component kind and every value the Spec gives a branch for
(`C07_spec_covers_kinds`); for the non-periodic kinds every frequency and resolution; for the
two periodic kinds under `periodicOK`: analysis frequency `w ≥ 0` and resolution
`0 ≤ w_res < w0/2`.  Outside that domain model and Spec differ, and neither is "wrong": for
`w < 0` the code raises `ValueError` (the inner `ac_*_source(w=w)` constructor) while the Spec
names the mirrored harmonic — the property quantifies over `w ≥ 0` only; for `w_res ≥ w0/2`
two harmonics lie within the resolution, the code takes the nearest (`np.round`), the Spec's
`harmonicIndex?` the lower one — the Spec's tie-break is arbitrary there (e.g. `w0 = 2`,
`w_res = 3/2`, `w = 31/10`: model harmonic 2, Spec harmonic 1); a resolution that does not
separate the harmonics is outside the property's premise. -/
theorem C07_faithful : C07_faithful_statement := by
  intro trig harm c w wres sb h0 hdc hper hs
  rcases branchOf_kind hs with hk | hk
  · exact C07_faithful_nonperiodic trig harm h0 c w wres sb hk hdc hs
  · exact C07_harmonic trig harm c w wres sb h0 hk hper hs

/-! ## reference node -/

theorem head?_of_node {c : Component} {n : String} (h : c.node 0 = .ok n) : c.nodes.head? = some n := by
  have := node_ok h
  cases hc : c.nodes with
  | nil => simp [hc] at this
  | cons x l => simpa [hc] using this

/-- **C07 (ground).**  The reference node of an accepted circuit is the ground component's
node, else the first terminal of the first component. -/
theorem C07_ground (cs : List Component) (C : Circuit) (hne : cs ≠ []) (h : Circuit.mk? cs = .ok C) :
    some C.ground = Spec.groundOf cs ∧ C.components = cs := by
  unfold Circuit.mk? at h
  cases cs with
  | nil => exact absurd rfl hne
  | cons c0 rest =>
    simp only at h
    obtain ⟨gs, hgs, h⟩ := bind_eq_ok.mp h
    split at h
    · cases h
    · obtain ⟨g, hg, h⟩ := bind_eq_ok.mp h
      split at h
      · cases h
      · simp only [Except.ok.injEq] at h
        subst h
        refine ⟨?_, rfl⟩
        have hf := mapM_ok_forall₂ _ _ _ hgs
        unfold Spec.groundOf
        cases hfil : (c0 :: rest).filter (fun c => decide (c.kind = "ground")) with
        | nil =>
          rw [hfil] at hf
          cases hf
          simp only [pickGround] at hg
          simp [head?_of_node hg]
        | cons g0 tl =>
          rw [hfil] at hf
          cases hf with
          | cons hg0 _ =>
            simp only [pickGround, Except.ok.injEq] at hg
            subst hg
            simp [head?_of_node hg0]

/-! ## limits -/

/-- **C07 (limits, w = 0).**  At `w = 0` an inductor's record `Z = j·0·L` is a short circuit
and a capacitor's record `Y = j·0·C` is an open circuit, for the very predicates the solver
uses (`is_short_circuit`, `is_open_circuit`). -/
theorem C07_limits_dc (L C : Rat) :
    (Elem.norton (⟨0, 0 * L⟩ : GQ) 0).isShort = true ∧ (Elem.thevenin (⟨0, 0 * C⟩ : GQ) 0).isOpen = true := by
  simp [Elem.isShort, Elem.isOpen, GQ.zero_def]

/-- **C07 (limits, R = 0).**  A resistor of zero ohms is a short circuit for the solver. -/
theorem C07_limits_zero_resistance :
    (Elem.norton (⟨0, 0⟩ : GQ) 0).isShort = true ∧ (Elem.norton (⟨0, 0⟩ : GQ) 0).isIdealVS = true := by
  simp [Elem.isShort, Elem.isIdealVS, GQ.zero_def]


/-- **C07 (limits, open switch is electrically open).**  The open-switch record takes part in
no admittance sum (`Yfin = 0`), is no voltage source (ideal or not) and no current source with a
value (`is_current_source` false, so it has no column in the right-hand side), and is what the
solver calls an ideal current source of value 0 — an open circuit. -/
theorem C07_open_switch_record :
    (Elem.thevenin (0 : GQ) 0).Yfin = 0 ∧ (Elem.thevenin (0 : GQ) 0).Ival = 0 ∧
    (Elem.thevenin (0 : GQ) 0).isIdealVS = false ∧ (Elem.thevenin (0 : GQ) 0).isVSrc = false ∧
    (Elem.thevenin (0 : GQ) 0).isCS = false ∧ (Elem.thevenin (0 : GQ) 0).isIdealCS = true ∧
    (Elem.thevenin (0 : GQ) 0).isOpen = true ∧ (Elem.thevenin (0 : GQ) 0).isActive = false := by
  simp [Elem.Yfin, Elem.Ival, Elem.isIdealVS, Elem.isVSrc, Elem.Vval, Elem.isCS, Elem.isIdealCS, Elem.isOpen,
    Elem.isActive]

/-- **C07 (limits, an open switch in a network).**  In every network with distinct ids, a branch
carrying the open-switch record is reported with current 0 whatever the solution vector is, and
removing it changes no entry of the nodal admittance matrix: it adds 0 to every diagonal and
off-diagonal admittance sum. -/
theorem C07_open_switch_network (pre post : List (Branch String GQ)) (z : String) (b : Branch String GQ)
    (he : b.e = .thevenin 0 0) :
    (∀ x : List GQ, (pre ++ b :: post).map (·.id) |>.Nodup →
      Net.current ({ branches := pre ++ b :: post, zero := z } : Net String GQ) x b.id = .ok 0) ∧
    (∀ i j : String, Net.Yentry ({ branches := pre ++ b :: post, zero := z } : Net String GQ) i j
        = Net.Yentry ({ branches := pre ++ post, zero := z } : Net String GQ) i j) := by
  constructor
  · intro x hids
    have hb : b ∈ ({ branches := pre ++ b :: post, zero := z } : Net String GQ).branches := by simp
    rw [current_ok ({ branches := pre ++ b :: post, zero := z } : Net String GQ) x hids b hb]
    simp [Net.curOf, he, Elem.isIdealVS, Elem.isIdealCS, Elem.Ival]
  · intro i j
    have hv : b.e.isIdealVS = false := by simp [he, Elem.isIdealVS]
    have hy : b.e.Yfin = 0 := by simp [he, Elem.Yfin]
    unfold Net.Yentry Net.nonVS
    simp only [List.filter_append, List.filter_cons, hv, Bool.not_false, if_true]
    by_cases hij : i = j
    · simp only [hij, if_true]
      by_cases hc : (decide ((b.n1 = j ∨ b.n2 = j) ∧ b.n1 ≠ b.n2)) = true
      · simp [hc, hy]
      · simp [hc]
    · simp only [hij, if_false]
      by_cases hc : (decide ((b.n1 = i ∧ b.n2 = j) ∨ (b.n1 = j ∧ b.n2 = i))) = true
      · simp [hc, hy]
      · simp [hc]

/-- every constructor that takes a `wavetype` (the periodic sources) guards its fundamental with
`if w <= 0: raise ValueError` (generated table) -/
theorem C07_periodic_fundamental_guarded :
    ∀ s ∈ ctorSpecs, ("wavetype", PTy.str, none) ∈ s.params →
      (⟨"w", Cmp.le, 0, "ValueError"⟩ : Guard) ∈ s.guards := by decide

/-- **C07 (an accepted periodic source has a positive fundamental).**  Whatever a periodic-source
constructor accepts was called with `w > 0` — so the component has a finite period, the
translator's division `2*np.pi/w0` is defined, and `C07_harmonic` applies to it.  (Until fix
149a545 the guard was `w < 0`: `w = 0` was accepted and the translator raised `ZeroDivisionError`
at every analysis frequency — neither rejected nor translated.) -/
theorem C07_periodic_fundamental_positive (s : CtorSpec) (hs : s ∈ ctorSpecs)
    (hp : ("wavetype", PTy.str, none) ∈ s.params) (id : String) (nodes : List String)
    (args env : List (String × Val)) (henv : bindParams s.params args = .ok env) (q : Rat)
    (hq : env.lookup "w" = some (.num q)) (c : Component)
    (hok : s.construct (some id) (some nodes) args = .ok c) : 0 < q := by
  by_contra hneg
  have hle : q ≤ 0 := not_lt.mp hneg
  have hg := C07_periodic_fundamental_guarded s hs hp
  have hfire : (⟨"w", Cmp.le, 0, "ValueError"⟩ : Guard).check env = .error .valueError := by
    simp [Guard.check, hq, Cmp.holds, hle, errOfExc]
  obtain ⟨e, he⟩ := forM_error_of_mem (fun g : Guard => g.check env) s.guards _ hg _ hfire
  have he' : s.guards.forM (fun g => g.check env) = .error e := he
  unfold CtorSpec.construct at hok
  simp [pure, Except.pure, bind, Except.bind, henv, he'] at hok

/-- … and with `w = 0` both constructors raise `ValueError` (model evaluation on the generated table) -/
theorem C07_zero_fundamental_rejected :
    (Gen.tables.ctor? "periodic_voltage_source").map (fun s => s.construct (some "V") (some ["1", "0"])
        [("wavetype", .str "rect"), ("V", .num 1), ("w", .num 0)]) = some (.error .valueError) ∧
    (Gen.tables.ctor? "periodic_current_source").map (fun s => s.construct (some "I") (some ["0", "1"])
        [("wavetype", .str "saw"), ("I", .num 1), ("w", .num 0), ("phi", .num 0)]) = some (.error .valueError) := by
  decide +kernel

/-! ## non-vacuity: concrete inputs that meet the hypotheses -/

section Examples

/-- ground, an AC voltage source `3∠0` at `w = 2` behind 1 Ω, a 4 F capacitor -/
def exCs : List Component :=
  [⟨"ground", "gnd", ["0"], []⟩,
   ⟨"ac_voltage_source", "V", ["1", "0"], [("V", .num 3), ("R", .num 1), ("w", .num 2), ("phi", .num 0)]⟩,
   ⟨"capacitor", "C", ["1", "0"], [("C", .num 4)]⟩]

theorem exCircuit : Circuit.mk? exCs = .ok ⟨exCs, "0"⟩ := by decide

theorem exBranches : transformBranches Gen.tables (fun _ => (1, 0)) (fun _ _ _ _ => (0, 0)) exCs 2 0
      = .ok [⟨"1", "0", "V", "voltage_source", .norton ⟨1, 0⟩ ⟨3, 0⟩⟩,
             ⟨"1", "0", "C", "admittance", .thevenin ⟨0, 8⟩ 0⟩] := by
  decide +kernel

/-- hypotheses of `C07_position_independent` / `C07_one_to_one` -/
theorem exNet : transformCircuit Gen.tables (fun _ => (1, 0)) (fun _ _ _ _ => (0, 0)) ⟨exCs, "0"⟩ 2 0
      = .ok ⟨[⟨"1", "0", "V", "voltage_source", .norton ⟨1, 0⟩ ⟨3, 0⟩⟩,
              ⟨"1", "0", "C", "admittance", .thevenin ⟨0, 8⟩ 0⟩], "0"⟩ := by
  simp [transformCircuit, exBranches, bind, Except.bind, Net.check, Net.nodeLabels, sortL, dedupL, Net.ids,
    pure, Except.pure]

example : (⟨[⟨"1", "0", "V", "voltage_source", .norton ⟨1, 0⟩ ⟨3, 0⟩⟩,
             ⟨"1", "0", "C", "admittance", .thevenin ⟨0, 8⟩ 0⟩], "0"⟩ : Net String GQ).branches.map (·.id)
    = (translated Gen.tables exCs).map (·.id) :=
  C07_one_to_one Gen.tables C07_table_wellformed _ _ ⟨exCs, "0"⟩ 2 0 _ exNet

/-- hypotheses of `C07_ground` -/
example : some (⟨exCs, "0"⟩ : Circuit).ground = Spec.groundOf exCs :=
  (C07_ground exCs _ (by decide) exCircuit).1

/-- hypotheses of `C07_faithful_ac_voltage_source` (and of the other per-kind theorems: a
component carrying the keys its constructor writes) -/
example := C07_faithful_ac_voltage_source (fun _ => (1, 0)) (fun _ _ _ _ => (0, 0))
  ⟨"ac_voltage_source", "V", ["1", "0"], [("V", .num 3), ("R", .num 1), ("w", .num 2), ("phi", .num 0)]⟩
  2 0 "1" "0" rfl 3 1 2 0 rfl rfl rfl rfl rfl rfl

/-- hypotheses of `C07_harmonic_voltage`: `rect`, `w0 = 2`, internal `R = 5`, analysed at `w = 6`
with `w_res = 1/1024` (the former counterexample of the harmonic statement) -/
example := C07_harmonic_voltage (fun _ => (1, 0)) (fun _ _ _ _ => (1, 0))
  ⟨"periodic_voltage_source", "V", ["1", "0"],
    [("wavetype", .str "rect"), ("V", .num 1), ("w", .num 2), ("phi", .num 0), ("R", .num 5)]⟩
  6 (1 / 1024) "1" "0" rfl "rect" 1 2 0 5 rfl rfl rfl (by decide) rfl rfl rfl rfl (by decide +kernel)
  (by decide +kernel) (by decide +kernel) (by decide +kernel) (by decide +kernel)

/-- the former counterexamples, now positive: a conductance between a current source and a
resistor keeps its branch -/
example : (do let bs ← transformBranches Gen.tables (fun _ => (1, 0)) (fun _ _ _ _ => (0, 0))
                [⟨"ground", "gnd", ["0"], []⟩,
                 ⟨"dc_current_source", "I", ["0", "1"], [("I", .num 1), ("G", .num 0), ("w", .num 0), ("phi", .num 0)]⟩,
                 ⟨"conductance", "G", ["1", "0"], [("G", .num 2)]⟩,
                 ⟨"resistor", "R", ["1", "0"], [("R", .num 1)]⟩] 0 Gen.defaultWRes
              pure (bs.map (·.id))) = Except.ok ["I", "G", "R"] := by decide +kernel

/-- hypotheses of `C07_harmonic_sound` / `C07_harmonic_complete`: the third harmonic of `w0 = 2` -/
example : ¬ periodicOff 6 2 (1 / 1024) := by decide +kernel
example : Spec.dist 6 ((3 : Int) * 2) ≤ 1 / 1024 := by decide +kernel

end Examples

end CC
