/-
  Property C07 — every component becomes exactly one faithful network branch.

  Model   CC/Model/Circuit.lean  (interpreter of the generated tables `Gen.tables`)
  Spec    CC/Spec/Phasor.lean    (`Spec.branchOf`, `Spec.nonGround`, `Spec.groundOf`)
  The theorems named `…_partial` are the strongest true restrictions of statements that the
  current code violates; the full statements are kept as `def …_statement : Prop` and refuted
  by the `…_counterexample` theorems (DESIGN §3.4).
-/
import CC.Proofs.CircuitLemmas
import CC.Proofs.RoundLemmas
namespace CC
open Gen

/-! ## the dispatch table (generated obligations) -/

/-- every kind the component module can construct, except `ground`, has a translator -/
def C07_table_total_statement : Prop :=
  ∀ s ∈ ctorSpecs, s.kind ≠ "ground" → Gen.tables.hasKind s.kind = true

/-- the current code violates it: `conductance` and `admittance` have no entry -/
theorem C07_table_total_counterexample : ¬ C07_table_total_statement := by
  unfold C07_table_total_statement; decide

/-- … and those two are the only ones -/
theorem C07_table_total_partial :
    ∀ s ∈ ctorSpecs, s.kind ∉ ["ground", "conductance", "admittance"] → Gen.tables.hasKind s.kind = true := by
  decide

/-- the translator of a kind reads only keys that the constructor of that kind writes -/
def readsWritten (T : Tables) (s : CtorSpec) : Bool :=
  match T.transformers.lookup s.kind with
  | none => true
  | some fn => match T.tspec? fn with
    | none => false
    | some t => t.reads.all fun k => (s.values.map (·.1)).contains k

def C07_reads_written_statement : Prop := ∀ s ∈ ctorSpecs, readsWritten Gen.tables s = true

/-- violated: the translator of `complex_current_source` reads `'w'`, which its constructor
never writes (every call raises `KeyError`) -/
theorem C07_reads_written_counterexample : ¬ C07_reads_written_statement := by
  unfold C07_reads_written_statement; decide

theorem C07_reads_written_partial :
    ∀ s ∈ ctorSpecs, s.kind ≠ "complex_current_source" → readsWritten Gen.tables s = true := by decide

/-- structural well-formedness of a translator table: every translator names its branch
after the component itself and takes the terminals in the component's order -/
def Tables.WellFormed (T : Tables) : Prop :=
  ∀ s ∈ T.trans, s.idSelf = true ∧ s.n1 = 0 ∧ s.n2 = 1

instance (T : Tables) : Decidable T.WellFormed := by unfold Tables.WellFormed; infer_instance

theorem C07_table_wellformed : Gen.tables.WellFormed := by decide

/-! ## one branch per component, in order, each from its own component -/

theorem bind_eq_ok {ε α β : Type} {x : Except ε α} {f : α → Except ε β} {b : β} :
    (x >>= f) = .ok b ↔ ∃ a, x = .ok a ∧ f a = .ok b := by
  cases x <;> simp [bind, Except.bind]

theorem node_ok {c : Component} {i : Nat} {n : String} (h : c.node i = .ok n) : c.nodes[i]? = some n := by
  unfold Component.node at h
  split at h <;> simp_all

theorem mkBranch_ok {s : TSpec} {c : Component} {te : String × Elem GQ} {b : Branch String GQ}
    (hs : s.idSelf = true ∧ s.n1 = 0 ∧ s.n2 = 1) (h : mkBranch s c te = .ok b) :
    b.id = c.id ∧ c.nodes[0]? = some b.n1 ∧ c.nodes[1]? = some b.n2 ∧ b.ty = te.1 ∧ b.e = te.2 := by
  obtain ⟨h1, h2, h3⟩ := hs
  unfold mkBranch at h
  obtain ⟨n1, hn1, h⟩ := bind_eq_ok.mp h
  obtain ⟨n2, hn2, h⟩ := bind_eq_ok.mp h
  simp [pure, Except.pure] at h
  subst h
  rw [h2] at hn1; rw [h3] at hn2
  simp [h1, node_ok hn1, node_ok hn2]

theorem runSimple_ok {s : TSpec} {trig : Trig} {c : Component} {w wres : Rat} {b : Branch String GQ}
    (hs : s.idSelf = true ∧ s.n1 = 0 ∧ s.n2 = 1) (h : s.runSimple trig c w wres = .ok b) :
    b.id = c.id ∧ c.nodes[0]? = some b.n1 ∧ c.nodes[1]? = some b.n2 := by
  unfold TSpec.runSimple at h
  split at h
  · obtain ⟨_, _, h⟩ := bind_eq_ok.mp h
    obtain ⟨te, _, h⟩ := bind_eq_ok.mp h
    have := mkBranch_ok hs h
    exact ⟨this.1, this.2.1, this.2.2.1⟩
  · obtain ⟨_, _, h⟩ := bind_eq_ok.mp h
    obtain ⟨on, _, h⟩ := bind_eq_ok.mp h
    obtain ⟨wsv, _, h⟩ := bind_eq_ok.mp h
    split at h
    · obtain ⟨te, _, h⟩ := bind_eq_ok.mp h
      have := mkBranch_ok hs h
      exact ⟨this.1, this.2.1, this.2.2.1⟩
    · have := mkBranch_ok hs h
      exact ⟨this.1, this.2.1, this.2.2.1⟩
  · cases h

theorem construct_ok {cs : CtorSpec} {i : String} {ns : List String} {args : List (String × Val)}
    {c : Component} (h : cs.construct (some i) (some ns) args = .ok c) : c.id = i ∧ c.nodes = ns ∧ c.kind = cs.kind := by
  unfold CtorSpec.construct at h
  simp only [pure, Except.pure] at h
  obtain ⟨_, h0, h⟩ := bind_eq_ok.mp h
  obtain ⟨_, h1, h⟩ := bind_eq_ok.mp h
  obtain ⟨env, _, h⟩ := bind_eq_ok.mp h
  obtain ⟨_, _, h⟩ := bind_eq_ok.mp h
  obtain ⟨value, _, h⟩ := bind_eq_ok.mp h
  cases h0; cases h1
  simp at h
  subst h
  simp

theorem tspec?_mem {T : Tables} {fn : String} {s : TSpec} (h : T.tspec? fn = some s) : s ∈ T.trans :=
  List.mem_of_find?_eq_some h

/-- **C07 (identity and terminals).**  Whatever translator the table selects, a branch it
produces carries the component's own identifier and the component's first and second node,
in that order — for every table that is structurally well-formed (`C07_table_wellformed`
shows the generated one is). -/
theorem C07_branch_id_terminals (T : Tables) (hT : T.WellFormed) (trig : Trig) (harm : Harm)
    (c : Component) (w wres : Rat) (b : Branch String GQ)
    (h : transformComponent T trig harm c w wres = some (.ok b)) :
    b.id = c.id ∧ c.nodes[0]? = some b.n1 ∧ c.nodes[1]? = some b.n2 := by
  unfold transformComponent at h
  split at h
  · cases h
  · split at h
    · rename_i fn _ s hs
      have hwf := hT s (tspec?_mem hs)
      simp only [Option.some.injEq] at h
      unfold TSpec.run at h
      split at h
      · -- periodic
        rename_i waveKey w0Key ampKey phiKey cmp off ctor ctorArgs inner hb
        obtain ⟨_, _, h⟩ := bind_eq_ok.mp h
        obtain ⟨w0, _, h⟩ := bind_eq_ok.mp h
        obtain ⟨A, _, h⟩ := bind_eq_ok.mp h
        obtain ⟨phi, _, h⟩ := bind_eq_ok.mp h
        obtain ⟨_, _, h⟩ := bind_eq_ok.mp h
        split at h
        · cases h
        · dsimp only at h
          split at h
          · obtain ⟨te, _, h⟩ := bind_eq_ok.mp h
            have := mkBranch_ok hwf h
            exact ⟨this.1, this.2.1, this.2.2.1⟩
          · unfold periodicActive at h
            obtain ⟨cs, _, h⟩ := bind_eq_ok.mp h
            obtain ⟨n1, hn1, h⟩ := bind_eq_ok.mp h
            obtain ⟨n2, hn2, h⟩ := bind_eq_ok.mp h
            obtain ⟨single, hsingle, h⟩ := bind_eq_ok.mp h
            obtain ⟨si, hsi, h⟩ := bind_eq_ok.mp h
            have hsi' : T.tspec? inner = some si := by
              unfold Tables.tspecE at hsi; split at hsi <;> simp_all
            have hi := runSimple_ok (hT si (tspec?_mem hsi')) h
            obtain ⟨hid, hnodes, _⟩ := construct_ok hsingle
            rw [hwf.2.1] at hn1; rw [hwf.2.2] at hn2
            rw [hid, hnodes] at hi
            simp at hi
            refine ⟨hi.1, ?_, ?_⟩
            · rw [node_ok hn1, hi.2.1]
            · rw [node_ok hn2, hi.2.2]
      · exact runSimple_ok hwf h
    · simp at h

/-- the components that `transform_circuit` translates -/
def translated (T : Tables) (cs : List Component) : List Component := cs.filter (fun c => T.hasKind c.kind)

/-- **C07 (position independence).**  The branch list of the converted circuit is, entry by
entry and in order, the result of the table's translator applied to that entry's own
component: nothing is omitted from, added to, duplicated or permuted within the translated
components, and no component is evaluated with another component's value. -/
theorem C07_position_independent (T : Tables) (trig : Trig) (harm : Harm) (C : Circuit) (w wres : Rat)
    (N : Net String GQ) (h : transformCircuit T trig harm C w wres = .ok N) :
    List.Forall₂ (fun c b => transformComponent T trig harm c w wres = some (.ok b))
      (translated T C.components) N.branches ∧ N.zero = C.ground := by
  unfold transformCircuit at h
  obtain ⟨bs, hbs, h⟩ := bind_eq_ok.mp h
  obtain ⟨_, _, h⟩ := bind_eq_ok.mp h
  simp [pure, Except.pure] at h
  subst h
  refine ⟨?_, rfl⟩
  unfold transformBranches at hbs
  have := mapM_ok_forall₂ _ _ _ hbs
  refine this.imp ?_
  intro c b hcb
  split at hcb
  · rename_i r hr; rw [hr, hcb]
  · cases hcb

/-- **C07 (one-to-one).**  Same identifiers, same order, same number. -/
theorem C07_one_to_one (T : Tables) (hT : T.WellFormed) (trig : Trig) (harm : Harm) (C : Circuit)
    (w wres : Rat) (N : Net String GQ) (h : transformCircuit T trig harm C w wres = .ok N) :
    N.branches.map (·.id) = (translated T C.components).map (·.id) := by
  have := (C07_position_independent T trig harm C w wres N h).1
  exact forall₂_map_eq (fun c b hcb => (C07_branch_id_terminals T hT trig harm c w wres b hcb).1) this

/-- nothing is dropped exactly when every non-ground kind has a table entry (and `ground`
has none) -/
theorem C07_nothing_dropped_iff (T : Tables) (hg : T.hasKind "ground" = false) (cs : List Component) :
    translated T cs = Spec.nonGround cs ↔ ∀ c ∈ cs, c.kind ≠ "ground" → T.hasKind c.kind = true := by
  unfold translated Spec.nonGround
  constructor
  · intro h c hc hk
    have : c ∈ cs.filter (fun c => decide (c.kind ≠ "ground")) := by simp [hc, hk]
    rw [← h] at this
    simpa using (List.mem_filter.mp this).2
  · intro h
    apply List.filter_congr
    intro c hc
    by_cases hk : c.kind = "ground"
    · simp [hk, hg]
    · simp [hk, h c hc hk]

/-- the current code does drop components: a conductance between a current source and a
resistor vanishes from the network without any error -/
theorem C07_dropped_counterexample :
    let cs : List Component :=
      [⟨"ground", "gnd", ["0"], []⟩,
       ⟨"dc_current_source", "I", ["0", "1"], [("I", .num 1), ("G", .num 0), ("w", .num 0), ("phi", .num 0)]⟩,
       ⟨"conductance", "G", ["1", "0"], [("G", .num 2)]⟩,
       ⟨"resistor", "R", ["1", "0"], [("R", .num 1)]⟩]
    (Spec.nonGround cs).map (·.id) = ["I", "G", "R"] ∧
    (do let bs ← transformBranches Gen.tables (fun _ => (1, 0)) (fun _ _ _ _ => (0, 0)) cs 0 Gen.defaultWRes
        pure (bs.map (·.id))) = Except.ok ["I", "R"] := by
  decide +kernel


/-! ## faithfulness, kind by kind

Each theorem: for **every** component of that kind with terminals `[a, b]` and the values its
constructor writes, at **every** frequency and resolution, the branch the generated table
produces is the displayed record — and that record is the intended one of CC/Spec/Phasor.lean.
The translator bodies enter through `Gen.tables`: a changed formula, key, gate or table entry
changes the generated definitions and the proof no longer compiles. -/

/-- `np.cos(0) = 1`, `np.sin(0) = 0` (exact in binary64) -/
def TrigZero (trig : Trig) : Prop := trig 0 = (1, 0)

local macro "tc_simp" "[" ts:Lean.Parser.Tactic.simpLemma,* "]" : tactic =>
  `(tactic| simp [transformComponent, TSpec.run, TSpec.runSimple, preRead, RE.eval, EE.eval, CE.eval,
      complexValue, mkBranch, Component.node, bind, Except.bind, pure, Except.pure, Cmp.holds,
      Spec.branchOf, Spec.elemOf, Spec.phasor, Spec.shortE, Spec.openE, $ts,*])

theorem tspec_resistor : Gen.tables.tspec? "resistor" = some
    { fn := "resistor", reads := ["R"], n1 := 0, n2 := 1, idSelf := true,
      body := .plain (.resistor (.key "R")) } := by decide

theorem tspec_impedance : Gen.tables.tspec? "impedance" = some
    { fn := "impedance", reads := ["R", "X"], n1 := 0, n2 := 1, idSelf := true,
      body := .plain (.impedance (.cart (.key "R") (.key "X"))) } := by decide

theorem tspec_capacitor : Gen.tables.tspec? "capacitor" = some
    { fn := "capacitor", reads := ["C"], n1 := 0, n2 := 1, idSelf := true,
      body := .plain (.admittance (.cart (.lit 0) (.mul .w (.key "C")))) } := by decide

theorem tspec_inductance : Gen.tables.tspec? "inductance" = some
    { fn := "inductance", reads := ["L"], n1 := 0, n2 := 1, idSelf := true,
      body := .plain (.impedance (.cart (.lit 0) (.mul .w (.key "L")))) } := by decide

theorem tspec_resistive_load : Gen.tables.tspec? "resistive_load" = some
    { fn := "resistive_load", reads := ["P", "V_ref"], n1 := 0, n2 := 1, idSelf := true,
      body := .plain (.load (.key "P") (.key "V_ref")) } := by decide

theorem tspec_short_circuit : Gen.tables.tspec? "short_circuit" = some
    { fn := "short_circuit", reads := [], n1 := 0, n2 := 1, idSelf := true, body := .plain .shortCircuit } := by decide

theorem tspec_dc_voltage_source : Gen.tables.tspec? "dc_voltage_source" = some
    { fn := "dc_voltage_source", reads := ["V", "R", "w"], n1 := 0, n2 := 1, idSelf := true,
      body := .gated (.voltageSource (.polar (.key "V") (.lit 0)) (.polar (.key "R") (.lit 0)))
        (.key "w") .gt .shortCircuit } := by decide

theorem tspec_ac_voltage_source : Gen.tables.tspec? "ac_voltage_source" = some
    { fn := "ac_voltage_source", reads := ["V", "phi", "R", "w"], n1 := 0, n2 := 1, idSelf := true,
      body := .gated (.voltageSource (.polar (.key "V") (.key "phi")) (.polar (.key "R") (.lit 0)))
        (.key "w") .gt .shortCircuit } := by decide

theorem tspec_complex_voltage_source : Gen.tables.tspec? "complex_voltage_source" = some
    { fn := "complex_voltage_source", reads := ["V_real", "V_imag", "R", "X"], n1 := 0, n2 := 1, idSelf := true,
      body := .plain (.voltageSource (.cart (.key "V_real") (.key "V_imag")) (.cart (.key "R") (.key "X"))) } := by
  decide

theorem tspec_dc_current_source : Gen.tables.tspec? "dc_current_source" = some
    { fn := "dc_current_source", reads := ["I", "G", "w"], n1 := 0, n2 := 1, idSelf := true,
      body := .gated (.currentSource (.polar (.key "I") (.lit 0)) (.polar (.key "G") (.lit 0)))
        (.key "w") .gt .openCircuit } := by decide

theorem tspec_ac_current_source : Gen.tables.tspec? "ac_current_source" = some
    { fn := "ac_current_source", reads := ["I", "G", "w", "phi"], n1 := 0, n2 := 1, idSelf := true,
      body := .gated (.currentSource (.polar (.key "I") (.key "phi")) (.polar (.key "G") (.lit 0)))
        (.key "w") .gt .openCircuit } := by decide

theorem gate_iff (w ws wres : Rat) : wres < absQ (w - ws) ↔ ¬ Spec.dist w ws ≤ wres := by
  rw [absQ_sub_eq_dist]; grind

theorem gate_iff0 (w wres : Rat) : wres < absQ w ↔ ¬ Spec.dist w 0 ≤ wres := by
  have := gate_iff w 0 wres
  have h : w - 0 = w := by grind
  rwa [h] at this

variable (trig : Trig) (harm : Harm) (c : Component) (w wres : Rat) (a b : String)

theorem C07_faithful_resistor (R : Rat)
    (hk : c.kind = "resistor") (hn : c.nodes = [a, b]) (hR : c.value.lookup "R" = some (.num R)) :
    transformComponent Gen.tables trig harm c w wres
      = some (.ok { n1 := a, n2 := b, id := c.id, ty := "resistor", e := .norton ⟨R, 0⟩ 0 })
    ∧ Spec.branchOf trig harm c w wres = some { n1 := a, n2 := b, id := c.id, e := .norton ⟨R, 0⟩ 0 } := by
  have hl : Gen.tables.transformers.lookup "resistor" = some "resistor" := by decide
  constructor
  · tc_simp [hk, hl, tspec_resistor, hn, float_of_lookup hR]
  · tc_simp [hk, hn, num?_of_lookup hR]

theorem C07_faithful_impedance (R X : Rat)
    (hk : c.kind = "impedance") (hn : c.nodes = [a, b]) (hR : c.value.lookup "R" = some (.num R))
    (hX : c.value.lookup "X" = some (.num X)) :
    transformComponent Gen.tables trig harm c w wres
      = some (.ok { n1 := a, n2 := b, id := c.id, ty := "impedance", e := .norton ⟨R, X⟩ 0 })
    ∧ Spec.branchOf trig harm c w wres = some { n1 := a, n2 := b, id := c.id, e := .norton ⟨R, X⟩ 0 } := by
  have hl : Gen.tables.transformers.lookup "impedance" = some "impedance" := by decide
  constructor
  · tc_simp [hk, hl, tspec_impedance, hn, float_of_lookup hR, float_of_lookup hX]
  · tc_simp [hk, hn, num?_of_lookup hR, num?_of_lookup hX]

/-- a capacitor is the admittance `j·w·C` -/
theorem C07_faithful_capacitor (C : Rat)
    (hk : c.kind = "capacitor") (hn : c.nodes = [a, b]) (hC : c.value.lookup "C" = some (.num C)) :
    transformComponent Gen.tables trig harm c w wres
      = some (.ok { n1 := a, n2 := b, id := c.id, ty := "admittance", e := .thevenin ⟨0, w * C⟩ 0 })
    ∧ Spec.branchOf trig harm c w wres = some { n1 := a, n2 := b, id := c.id, e := .thevenin ⟨0, w * C⟩ 0 } := by
  have hl : Gen.tables.transformers.lookup "capacitor" = some "capacitor" := by decide
  constructor
  · tc_simp [hk, hl, tspec_capacitor, hn, float_of_lookup hC]
  · tc_simp [hk, hn, num?_of_lookup hC]

/-- an inductor is the impedance `j·w·L` -/
theorem C07_faithful_inductance (L : Rat)
    (hk : c.kind = "inductance") (hn : c.nodes = [a, b]) (hL : c.value.lookup "L" = some (.num L)) :
    transformComponent Gen.tables trig harm c w wres
      = some (.ok { n1 := a, n2 := b, id := c.id, ty := "impedance", e := .norton ⟨0, w * L⟩ 0 })
    ∧ Spec.branchOf trig harm c w wres = some { n1 := a, n2 := b, id := c.id, e := .norton ⟨0, w * L⟩ 0 } := by
  have hl : Gen.tables.transformers.lookup "inductance" = some "inductance" := by decide
  constructor
  · tc_simp [hk, hl, tspec_inductance, hn, float_of_lookup hL]
  · tc_simp [hk, hn, num?_of_lookup hL]

/-- lamps and resistive loads are the admittance `P / V_ref²` (for a positive rated voltage) -/
theorem C07_faithful_load (P V : Rat)
    (hk : c.kind = "lamp" ∨ c.kind = "resistive_load") (hn : c.nodes = [a, b])
    (hP : c.value.lookup "P" = some (.num P)) (hV : c.value.lookup "V_ref" = some (.num V)) (hpos : 0 < V) :
    transformComponent Gen.tables trig harm c w wres
      = some (.ok { n1 := a, n2 := b, id := c.id, ty := "load", e := .thevenin ⟨P / (V * V), 0⟩ 0 })
    ∧ Spec.branchOf trig harm c w wres = some { n1 := a, n2 := b, id := c.id, e := .thevenin ⟨P / (V * V), 0⟩ 0 } := by
  have hl1 : Gen.tables.transformers.lookup "lamp" = some "resistive_load" := by decide
  have hl2 : Gen.tables.transformers.lookup "resistive_load" = some "resistive_load" := by decide
  have g1 : ¬ V < 0 := by grind
  have g2 : ¬ V = 0 := by grind
  have g3 : ¬ (0 : Rat) < -1 := by decide +kernel
  rcases hk with hk | hk
  · constructor
    · tc_simp [hk, hl1, tspec_resistive_load, hn, float_of_lookup hP, float_of_lookup hV, elmLoad, g1, g2, g3, hpos, GQ.divR]
      all_goals grind
    · tc_simp [hk, hn, num?_of_lookup hP, num?_of_lookup hV, hpos]
  · constructor
    · tc_simp [hk, hl2, tspec_resistive_load, hn, float_of_lookup hP, float_of_lookup hV, elmLoad, g1, g2, g3, hpos, GQ.divR]
      all_goals grind
    · tc_simp [hk, hn, num?_of_lookup hP, num?_of_lookup hV, hpos]

theorem C07_faithful_short_circuit (hk : c.kind = "short_circuit") (hn : c.nodes = [a, b]) :
    transformComponent Gen.tables trig harm c w wres
      = some (.ok { n1 := a, n2 := b, id := c.id, ty := "short_circuit", e := .norton 0 0 })
    ∧ Spec.branchOf trig harm c w wres = some { n1 := a, n2 := b, id := c.id, e := .norton 0 0 } := by
  have hl : Gen.tables.transformers.lookup "short_circuit" = some "short_circuit" := by decide
  constructor
  · tc_simp [hk, hl, tspec_short_circuit, hn]
  · tc_simp [hk, hn]

/-- a DC voltage source is active within the resolution of `w = 0` and a short circuit elsewhere -/
theorem C07_faithful_dc_voltage_source (h0 : TrigZero trig) (V R : Rat)
    (hk : c.kind = "dc_voltage_source") (hn : c.nodes = [a, b])
    (hV : c.value.lookup "V" = some (.num V)) (hR : c.value.lookup "R" = some (.num R))
    (hw : c.value.lookup "w" = some (.num 0)) :
    transformComponent Gen.tables trig harm c w wres
      = some (.ok (if Spec.dist w 0 ≤ wres
          then { n1 := a, n2 := b, id := c.id, ty := "voltage_source", e := .norton ⟨R, 0⟩ ⟨V, 0⟩ }
          else { n1 := a, n2 := b, id := c.id, ty := "short_circuit", e := .norton 0 0 }))
    ∧ Spec.branchOf trig harm c w wres = some { n1 := a, n2 := b, id := c.id, e := (if Spec.dist w 0 ≤ wres then .norton ⟨R, 0⟩ ⟨V, 0⟩ else .norton 0 0) } := by
  have hl : Gen.tables.transformers.lookup "dc_voltage_source" = some "dc_voltage_source" := by decide
  unfold TrigZero at h0
  constructor
  · tc_simp [hk, hl, tspec_dc_voltage_source, hn, float_of_lookup hV, float_of_lookup hR, float_of_lookup hw, h0, gate_iff, gate_iff0]
    split <;> simp_all
  · tc_simp [hk, hn, num?_of_lookup hV, num?_of_lookup hR]

/-- an AC voltage source contributes `V·(cos φ + j sin φ)` behind `R` within the resolution of
its own frequency (boundary included) and is a short circuit at every other frequency -/
theorem C07_faithful_ac_voltage_source (h0 : TrigZero trig) (V R ws phi : Rat)
    (hk : c.kind = "ac_voltage_source") (hn : c.nodes = [a, b])
    (hV : c.value.lookup "V" = some (.num V)) (hR : c.value.lookup "R" = some (.num R))
    (hw : c.value.lookup "w" = some (.num ws)) (hp : c.value.lookup "phi" = some (.num phi)) :
    transformComponent Gen.tables trig harm c w wres
      = some (.ok (if Spec.dist w ws ≤ wres
          then { n1 := a, n2 := b, id := c.id, ty := "voltage_source", e := .norton ⟨R, 0⟩ (Spec.phasor trig V phi) }
          else { n1 := a, n2 := b, id := c.id, ty := "short_circuit", e := .norton 0 0 }))
    ∧ Spec.branchOf trig harm c w wres = some { n1 := a, n2 := b, id := c.id, e := (if Spec.dist w ws ≤ wres then .norton ⟨R, 0⟩ (Spec.phasor trig V phi) else .norton 0 0) } := by
  have hl : Gen.tables.transformers.lookup "ac_voltage_source" = some "ac_voltage_source" := by decide
  unfold TrigZero at h0
  constructor
  · tc_simp [hk, hl, tspec_ac_voltage_source, hn, float_of_lookup hV, float_of_lookup hR, float_of_lookup hw,
      float_of_lookup hp, h0, gate_iff]
    split <;> simp_all
  · tc_simp [hk, hn, num?_of_lookup hV, num?_of_lookup hR, num?_of_lookup hw, num?_of_lookup hp]

/-- a complex voltage source carries no frequency: it is active at every `w` -/
theorem C07_faithful_complex_voltage_source (Vr Vi R X : Rat)
    (hk : c.kind = "complex_voltage_source") (hn : c.nodes = [a, b])
    (hVr : c.value.lookup "V_real" = some (.num Vr)) (hVi : c.value.lookup "V_imag" = some (.num Vi))
    (hR : c.value.lookup "R" = some (.num R)) (hX : c.value.lookup "X" = some (.num X)) :
    transformComponent Gen.tables trig harm c w wres
      = some (.ok { n1 := a, n2 := b, id := c.id, ty := "voltage_source", e := .norton ⟨R, X⟩ ⟨Vr, Vi⟩ })
    ∧ Spec.branchOf trig harm c w wres = some { n1 := a, n2 := b, id := c.id, e := .norton ⟨R, X⟩ ⟨Vr, Vi⟩ } := by
  have hl : Gen.tables.transformers.lookup "complex_voltage_source" = some "complex_voltage_source" := by decide
  constructor
  · tc_simp [hk, hl, tspec_complex_voltage_source, hn, float_of_lookup hVr, float_of_lookup hVi, float_of_lookup hR,
      float_of_lookup hX]
  · tc_simp [hk, hn, num?_of_lookup hVr, num?_of_lookup hVi, num?_of_lookup hR, num?_of_lookup hX]

/-- a DC current source is active within the resolution of `w = 0` and an open circuit elsewhere -/
theorem C07_faithful_dc_current_source (h0 : TrigZero trig) (I G : Rat)
    (hk : c.kind = "dc_current_source") (hn : c.nodes = [a, b])
    (hI : c.value.lookup "I" = some (.num I)) (hG : c.value.lookup "G" = some (.num G))
    (hw : c.value.lookup "w" = some (.num 0)) :
    transformComponent Gen.tables trig harm c w wres
      = some (.ok (if Spec.dist w 0 ≤ wres
          then { n1 := a, n2 := b, id := c.id, ty := "current_source", e := .thevenin ⟨G, 0⟩ ⟨I, 0⟩ }
          else { n1 := a, n2 := b, id := c.id, ty := "open_circuit", e := .thevenin 0 0 }))
    ∧ Spec.branchOf trig harm c w wres = some { n1 := a, n2 := b, id := c.id, e := (if Spec.dist w 0 ≤ wres then .thevenin ⟨G, 0⟩ ⟨I, 0⟩ else .thevenin 0 0) } := by
  have hl : Gen.tables.transformers.lookup "dc_current_source" = some "dc_current_source" := by decide
  unfold TrigZero at h0
  constructor
  · tc_simp [hk, hl, tspec_dc_current_source, hn, float_of_lookup hI, float_of_lookup hG, float_of_lookup hw, h0, gate_iff, gate_iff0]
    split <;> simp_all
  · tc_simp [hk, hn, num?_of_lookup hI, num?_of_lookup hG]

/-- an AC current source contributes `I·(cos φ + j sin φ)` beside `G` within the resolution of
its own frequency and is an open circuit at every other frequency -/
theorem C07_faithful_ac_current_source (h0 : TrigZero trig) (I G ws phi : Rat)
    (hk : c.kind = "ac_current_source") (hn : c.nodes = [a, b])
    (hI : c.value.lookup "I" = some (.num I)) (hG : c.value.lookup "G" = some (.num G))
    (hw : c.value.lookup "w" = some (.num ws)) (hp : c.value.lookup "phi" = some (.num phi)) :
    transformComponent Gen.tables trig harm c w wres
      = some (.ok (if Spec.dist w ws ≤ wres
          then { n1 := a, n2 := b, id := c.id, ty := "current_source", e := .thevenin ⟨G, 0⟩ (Spec.phasor trig I phi) }
          else { n1 := a, n2 := b, id := c.id, ty := "open_circuit", e := .thevenin 0 0 }))
    ∧ Spec.branchOf trig harm c w wres = some { n1 := a, n2 := b, id := c.id, e := (if Spec.dist w ws ≤ wres then .thevenin ⟨G, 0⟩ (Spec.phasor trig I phi) else .thevenin 0 0) } := by
  have hl : Gen.tables.transformers.lookup "ac_current_source" = some "ac_current_source" := by decide
  unfold TrigZero at h0
  constructor
  · tc_simp [hk, hl, tspec_ac_current_source, hn, float_of_lookup hI, float_of_lookup hG, float_of_lookup hw,
      float_of_lookup hp, h0, gate_iff]
    split <;> simp_all
  · tc_simp [hk, hn, num?_of_lookup hI, num?_of_lookup hG, num?_of_lookup hw, num?_of_lookup hp]


/-! ## `complex_current_source`: the translator cannot run -/

theorem tspec_complex_current_source : Gen.tables.tspec? "complex_current_source" = some
    { fn := "complex_current_source", reads := ["I_real", "I_imag", "G", "B", "w"], n1 := 0, n2 := 1, idSelf := true,
      body := .gated (.currentSource (.cart (.key "I_real") (.key "I_imag")) (.cart (.key "G") (.key "B")))
        (.key "w") .gt .shortCircuit } := by decide

/-- the constructor of `complex_current_source` writes exactly these keys -/
theorem ctor_complex_current_source_keys :
    (Gen.tables.ctor? "complex_current_source").map (fun s => s.values.map (·.1)) = some ["I_real", "I_imag", "G", "B"] := by
  decide

/-- **finding.**  Every component the constructor `complex_current_source` can build (value
keys `I_real, I_imag, G, B`, no `w`) makes its translator raise `KeyError`, at every frequency:
such a component never becomes a branch.  (Were the key present, the gated-off element would
be a *short* circuit — `tspec_complex_current_source` — where a current source must be open.) -/
theorem C07_complex_current_source_counterexample (Ir Ii G B : Rat)
    (hk : c.kind = "complex_current_source")
    (hIr : c.value.lookup "I_real" = some (.num Ir)) (hIi : c.value.lookup "I_imag" = some (.num Ii))
    (hG : c.value.lookup "G" = some (.num G)) (hB : c.value.lookup "B" = some (.num B))
    (hw : c.value.lookup "w" = none) :
    transformComponent Gen.tables trig harm c w wres = some (.error .keyError) := by
  have hl : Gen.tables.transformers.lookup "complex_current_source" = some "complex_current_source" := by decide
  have hf : c.float "w" = .error .keyError := by simp [Component.float, Component.get?, hw]
  tc_simp [hk, hl, tspec_complex_current_source, float_of_lookup hIr, float_of_lookup hIi, float_of_lookup hG,
    float_of_lookup hB, hf]

/-! ## periodic sources: harmonic selection -/

/-- the gate of a periodic source at `w` (in the code's own units): the nearest harmonic
`n = np.round(w/w0)` is farther than the resolution -/
def periodicOff (w w0 wres : Rat) : Prop := wres / w0 < absQ (w / w0 - (roundHalfEven (w / w0) : Rat))

instance (w w0 wres : Rat) : Decidable (periodicOff w w0 wres) := by unfold periodicOff; infer_instance

/-- **C07 (harmonic, soundness of the gate).**  When the code treats the source as active,
the harmonic it selected really lies within the resolution of the analysis frequency. -/
theorem C07_harmonic_sound (w w0 wres : Rat) (h0 : 0 < w0) (h : ¬ periodicOff w w0 wres) :
    Spec.dist w ((roundHalfEven (w / w0) : Rat) * w0) ≤ wres := by
  rw [dist_mul_iff w w0 wres _ h0]
  exact not_lt.mp h

/-- **C07 (harmonic, completeness of the gate).**  When *any* harmonic `m·w0` lies within the
resolution of `w`, the code treats the source as active. -/
theorem C07_harmonic_complete (w w0 wres : Rat) (h0 : 0 < w0) (m : Int)
    (h : Spec.dist w ((m : Rat) * w0) ≤ wres) : ¬ periodicOff w w0 wres := by
  unfold periodicOff
  rw [dist_mul_iff w w0 wres _ h0] at h
  exact not_lt.mpr (le_trans (round_nearest _ m) h)

/-- **C07 (harmonic, index).**  With a resolution finer than half the fundamental the harmonic
is unique, and it is the one the specification names. -/
theorem C07_harmonic_index (w w0 wres : Rat) (h0 : 0 < w0) (hres : 2 * wres < w0) :
    Spec.harmonicIndex? w w0 wres = if periodicOff w w0 wres then none else some (roundHalfEven (w / w0)) :=
  harmonicIndex_eq w w0 wres h0 hres

theorem tspec_periodic_voltage_source : Gen.tables.tspec? "periodic_voltage_source" = some
    { fn := "periodic_voltage_source", reads := ["wavetype", "w", "V", "phi"], n1 := 0, n2 := 1, idSelf := true,
      body := .periodic "wavetype" "w" "V" "phi" .gt .shortCircuit
        "ac_voltage_source" [("w", .w), ("phi", .harmPhase), ("V", .harmAmp)] "ac_voltage_source" } := by decide

theorem tspec_periodic_current_source : Gen.tables.tspec? "periodic_current_source" = some
    { fn := "periodic_current_source", reads := ["wavetype", "w", "I", "phi"], n1 := 0, n2 := 1, idSelf := true,
      body := .periodic "wavetype" "w" "I" "phi" .gt .openCircuit
        "ac_current_source" [("w", .w), ("phi", .harmPhase), ("I", .harmAmp)] "ac_current_source" } := by decide

theorem ctor_ac_voltage_source : Gen.tables.ctor? "ac_voltage_source" = some
    { fn := "ac_voltage_source", kind := "ac_voltage_source", idDefault := none, nodesDefault := none,
      params := [("V", .real, none), ("R", .real, some (.num 0)), ("w", .real, some (.num 0)), ("phi", .real, some (.num 0))],
      guards := [⟨"R", .lt, 0, "ValueError"⟩, ⟨"w", .lt, 0, "ValueError"⟩],
      values := [("V", .param "V"), ("R", .param "R"), ("w", .param "w"), ("phi", .param "phi")] } := by decide

theorem ctor_ac_current_source : Gen.tables.ctor? "ac_current_source" = some
    { fn := "ac_current_source", kind := "ac_current_source", idDefault := none, nodesDefault := none,
      params := [("I", .real, none), ("G", .real, some (.num 0)), ("w", .real, some (.num 0)), ("phi", .real, some (.num 0))],
      guards := [⟨"G", .lt, 0, "ValueError"⟩, ⟨"w", .lt, 0, "ValueError"⟩],
      values := [("I", .param "I"), ("G", .param "G"), ("w", .param "w"), ("phi", .param "phi")] } := by decide

theorem ctorE_ac_voltage_source : Gen.tables.ctorE "ac_voltage_source" = .ok
    { fn := "ac_voltage_source", kind := "ac_voltage_source", idDefault := none, nodesDefault := none,
      params := [("V", .real, none), ("R", .real, some (.num 0)), ("w", .real, some (.num 0)), ("phi", .real, some (.num 0))],
      guards := [⟨"R", .lt, 0, "ValueError"⟩, ⟨"w", .lt, 0, "ValueError"⟩],
      values := [("V", .param "V"), ("R", .param "R"), ("w", .param "w"), ("phi", .param "phi")] } := by
  simp [Tables.ctorE, ctor_ac_voltage_source]

theorem ctorE_ac_current_source : Gen.tables.ctorE "ac_current_source" = .ok
    { fn := "ac_current_source", kind := "ac_current_source", idDefault := none, nodesDefault := none,
      params := [("I", .real, none), ("G", .real, some (.num 0)), ("w", .real, some (.num 0)), ("phi", .real, some (.num 0))],
      guards := [⟨"G", .lt, 0, "ValueError"⟩, ⟨"w", .lt, 0, "ValueError"⟩],
      values := [("I", .param "I"), ("G", .param "G"), ("w", .param "w"), ("phi", .param "phi")] } := by
  simp [Tables.ctorE, ctor_ac_current_source]

theorem tspecE_ac_voltage_source : Gen.tables.tspecE "ac_voltage_source" = .ok
    { fn := "ac_voltage_source", reads := ["V", "phi", "R", "w"], n1 := 0, n2 := 1, idSelf := true,
      body := .gated (.voltageSource (.polar (.key "V") (.key "phi")) (.polar (.key "R") (.lit 0)))
        (.key "w") .gt .shortCircuit } := by
  simp [Tables.tspecE, tspec_ac_voltage_source]

theorem tspecE_ac_current_source : Gen.tables.tspecE "ac_current_source" = .ok
    { fn := "ac_current_source", reads := ["I", "G", "w", "phi"], n1 := 0, n2 := 1, idSelf := true,
      body := .gated (.currentSource (.polar (.key "I") (.key "phi")) (.polar (.key "G") (.lit 0)))
        (.key "w") .gt .openCircuit } := by
  simp [Tables.tspecE, tspec_ac_current_source]

/-- **C07 (harmonic), voltage, restricted to sources without internal resistance.**
A periodic voltage source with fundamental `w0 > 0`, analysed at `w ≥ 0` with a resolution
`0 ≤ w_res < w0/2`, becomes: the `n`-th harmonic `amplitude(n)·(cos phase(n) + j sin phase(n))`
when `n·w0` is within the resolution of `w`, a short circuit otherwise — as the specification
demands.  The restriction `R = 0` is necessary: see `C07_harmonic_internal_counterexample`. -/
theorem C07_harmonic_voltage_partial (h0 : TrigZero trig) (wt : String) (V w0 phi : Rat)
    (hk : c.kind = "periodic_voltage_source") (hn : c.nodes = [a, b])
    (hwt : c.value.lookup "wavetype" = some (.str wt)) (hwave : wt ∈ Gen.waveTypes)
    (hV : c.value.lookup "V" = some (.num V)) (hw0 : c.value.lookup "w" = some (.num w0))
    (hphi : c.value.lookup "phi" = some (.num phi)) (hR : c.value.lookup "R" = some (.num 0))
    (hpos : 0 < w0) (hw : 0 ≤ w) (hres0 : 0 ≤ wres) (hres : 2 * wres < w0) :
    let n := roundHalfEven (w / w0)
    transformComponent Gen.tables trig harm c w wres
      = some (.ok (if periodicOff w w0 wres
          then { n1 := a, n2 := b, id := c.id, ty := "short_circuit", e := .norton 0 0 }
          else { n1 := a, n2 := b, id := c.id, ty := "voltage_source",
                 e := .norton ⟨0, 0⟩ (Spec.phasor trig (harm wt V phi n).1 (harm wt V phi n).2) }))
    ∧ Spec.branchOf trig harm c w wres = some { n1 := a, n2 := b, id := c.id, e := (if periodicOff w w0 wres
          then .norton 0 0 else .norton ⟨0, 0⟩ (Spec.phasor trig (harm wt V phi n).1 (harm wt V phi n).2)) } := by
  intro n
  have hl : Gen.tables.transformers.lookup "periodic_voltage_source" = some "periodic_voltage_source" := by decide
  have hne : ¬ w0 = 0 := by grind
  have hwn : ¬ w < 0 := by grind
  have hg : ¬ wres < absQ (w - w) := by
    have : w - w = 0 := by grind
    rw [this, absQ_zero]; grind
  have hg0 : absQ 0 ≤ wres := by rw [absQ_zero]; exact hres0
  have hctor := ctorE_ac_voltage_source
  have hin : wt ∈ Gen.tables.waves := hwave
  unfold TrigZero at h0
  constructor
  · simp only [transformComponent, hk, hl, tspec_periodic_voltage_source, TSpec.run]
    simp [preRead, Component.get?, Component.strOf, hwt, float_of_lookup hV, float_of_lookup hw0, float_of_lookup hphi,
      periodicFunction, hin, hne, bind, Except.bind, pure, Except.pure, Cmp.holds]
    split
    · rename_i hoff
      have : periodicOff w w0 wres := hoff
      simp [this, EE.eval, mkBranch, Component.node, hn, bind, Except.bind, pure, Except.pure]
    · rename_i hoff
      have : ¬ periodicOff w w0 wres := hoff
      simp [this, periodicActive, hctor, tspecE_ac_voltage_source, Component.node, hn, CtorSpec.construct,
        bindParams, HArg.eval, Guard.check, VE.eval, errOfExc, Cmp.holds, hwn, List.lookup,
        TSpec.runSimple, preRead, Component.float, Component.get?, RE.eval, CE.eval, EE.eval, complexValue, mkBranch,
        bind, Except.bind, pure, Except.pure, h0, hg, hg0, Spec.phasor, n]
  · by_cases hoff : periodicOff w w0 wres <;>
    simp [Spec.branchOf, Spec.elemOf, hk, hn, str?_of_lookup hwt, num?_of_lookup hV, num?_of_lookup hw0,
      num?_of_lookup hphi, num?_of_lookup hR, hpos, C07_harmonic_index w w0 wres hpos hres, Spec.shortE, n, hoff]

/-- **C07 (harmonic), current, restricted to sources without internal conductance.** -/
theorem C07_harmonic_current_partial (h0 : TrigZero trig) (wt : String) (I w0 phi : Rat)
    (hk : c.kind = "periodic_current_source") (hn : c.nodes = [a, b])
    (hwt : c.value.lookup "wavetype" = some (.str wt)) (hwave : wt ∈ Gen.waveTypes)
    (hI : c.value.lookup "I" = some (.num I)) (hw0 : c.value.lookup "w" = some (.num w0))
    (hphi : c.value.lookup "phi" = some (.num phi)) (hG : c.value.lookup "G" = some (.num 0))
    (hpos : 0 < w0) (hw : 0 ≤ w) (hres0 : 0 ≤ wres) (hres : 2 * wres < w0) :
    let n := roundHalfEven (w / w0)
    transformComponent Gen.tables trig harm c w wres
      = some (.ok (if periodicOff w w0 wres
          then { n1 := a, n2 := b, id := c.id, ty := "open_circuit", e := .thevenin 0 0 }
          else { n1 := a, n2 := b, id := c.id, ty := "current_source",
                 e := .thevenin ⟨0, 0⟩ (Spec.phasor trig (harm wt I phi n).1 (harm wt I phi n).2) }))
    ∧ Spec.branchOf trig harm c w wres = some { n1 := a, n2 := b, id := c.id, e := (if periodicOff w w0 wres
          then .thevenin 0 0 else .thevenin ⟨0, 0⟩ (Spec.phasor trig (harm wt I phi n).1 (harm wt I phi n).2)) } := by
  intro n
  have hl : Gen.tables.transformers.lookup "periodic_current_source" = some "periodic_current_source" := by decide
  have hne : ¬ w0 = 0 := by grind
  have hwn : ¬ w < 0 := by grind
  have hg : ¬ wres < absQ (w - w) := by
    have : w - w = 0 := by grind
    rw [this, absQ_zero]; grind
  have hg0 : absQ 0 ≤ wres := by rw [absQ_zero]; exact hres0
  have hctor := ctorE_ac_current_source
  have hin : wt ∈ Gen.tables.waves := hwave
  unfold TrigZero at h0
  constructor
  · simp only [transformComponent, hk, hl, tspec_periodic_current_source, TSpec.run]
    simp [preRead, Component.get?, Component.strOf, hwt, float_of_lookup hI, float_of_lookup hw0, float_of_lookup hphi,
      periodicFunction, hin, hne, bind, Except.bind, pure, Except.pure, Cmp.holds]
    split
    · rename_i hoff
      have : periodicOff w w0 wres := hoff
      simp [this, EE.eval, mkBranch, Component.node, hn, bind, Except.bind, pure, Except.pure]
    · rename_i hoff
      have : ¬ periodicOff w w0 wres := hoff
      simp [this, periodicActive, hctor, tspecE_ac_current_source, Component.node, hn, CtorSpec.construct,
        bindParams, HArg.eval, Guard.check, VE.eval, errOfExc, Cmp.holds, hwn, List.lookup,
        TSpec.runSimple, preRead, Component.float, Component.get?, RE.eval, CE.eval, EE.eval, complexValue, mkBranch,
        bind, Except.bind, pure, Except.pure, h0, hg, hg0, Spec.phasor, n]
  · by_cases hoff : periodicOff w w0 wres <;>
    simp [Spec.branchOf, Spec.elemOf, hk, hn, str?_of_lookup hwt, num?_of_lookup hI, num?_of_lookup hw0,
      num?_of_lookup hphi, num?_of_lookup hG, hpos, C07_harmonic_index w w0 wres hpos hres, Spec.openE, n, hoff]


/-- the full harmonic statement: as `C07_harmonic_voltage_partial` / `…_current_partial`, but
for sources with *any* internal resistance / conductance -/
def C07_harmonic_statement : Prop :=
  ∀ (trig : Trig) (harm : Harm) (c : Component) (w wres : Rat) (sb : Branch String GQ),
    TrigZero trig → (c.kind = "periodic_voltage_source" ∨ c.kind = "periodic_current_source") →
    0 ≤ w → 0 ≤ wres → (∀ w0, Spec.num? c "w" = some w0 → 2 * wres < w0) →
    (∀ wt, Spec.str? c "wavetype" = some wt → wt ∈ Gen.waveTypes) →
    Spec.branchOf trig harm c w wres = some sb →
    ∃ br, transformComponent Gen.tables trig harm c w wres = some (.ok br) ∧ Spec.erase br = sb

/-- **finding.**  A periodic source loses its internal resistance: `rect`, `V = 1`, `w0 = 2`,
`R = 5` analysed at `w = 2` becomes an *ideal* source (`Z = 0`) where `Z = 5` is intended. -/
theorem C07_harmonic_internal_counterexample : ¬ C07_harmonic_statement := by
  intro h
  let c : Component := ⟨"periodic_voltage_source", "V", ["1", "0"],
    [("wavetype", .str "rect"), ("V", .num 1), ("w", .num 2), ("phi", .num 0), ("R", .num 5)]⟩
  have hs : Spec.branchOf (fun _ => (1, 0)) (fun _ _ _ _ => (1, 0)) c 2 0
      = some { n1 := "1", n2 := "0", id := "V", e := .norton ⟨5, 0⟩ ⟨1, 0⟩ } := by decide +kernel
  have hm : transformComponent Gen.tables (fun _ => (1, 0)) (fun _ _ _ _ => (1, 0)) c 2 0
      = some (.ok { n1 := "1", n2 := "0", id := "V", ty := "voltage_source", e := .norton ⟨0, 0⟩ ⟨1, 0⟩ }) := by
    decide +kernel
  obtain ⟨br, hbr, he⟩ := h (fun _ => (1, 0)) (fun _ _ _ _ => (1, 0)) c 2 0 _ rfl (Or.inl rfl)
    (by decide +kernel) (by decide +kernel)
    (by intro w0 hw0; have : w0 = 2 := by
          have : Spec.num? c "w" = some 2 := by decide +kernel
          rw [this] at hw0; exact (Option.some.inj hw0).symm
        subst this; decide +kernel)
    (by intro wt hwt; have : wt = "rect" := by
          have : Spec.str? c "wavetype" = some "rect" := by decide +kernel
          rw [this] at hwt; exact (Option.some.inj hwt).symm
        subst this; decide)
    hs
  rw [hm] at hbr
  simp only [Option.some.injEq, Except.ok.injEq] at hbr
  subst hbr
  revert he
  decide +kernel

/-! ## the full faithfulness statement and why it fails -/

/-- whenever the specification defines the intended branch of a component, the conversion
produces it -/
def C07_faithful_statement : Prop :=
  ∀ (trig : Trig) (harm : Harm) (c : Component) (w wres : Rat) (sb : Branch String GQ),
    TrigZero trig → Spec.branchOf trig harm c w wres = some sb →
    ∃ br, transformComponent Gen.tables trig harm c w wres = some (.ok br) ∧ Spec.erase br = sb

/-- **finding.**  A conductance has an intended branch and no translator. -/
theorem C07_faithful_counterexample : ¬ C07_faithful_statement := by
  intro h
  let c : Component := ⟨"conductance", "G", ["1", "0"], [("G", .num 2)]⟩
  have hs : Spec.branchOf (fun _ => (1, 0)) (fun _ _ _ _ => (1, 0)) c 0 0
      = some { n1 := "1", n2 := "0", id := "G", e := .thevenin ⟨2, 0⟩ 0 } := by decide +kernel
  have hm : transformComponent Gen.tables (fun _ => (1, 0)) (fun _ _ _ _ => (1, 0)) c 0 0 = none := by
    decide +kernel
  obtain ⟨br, hbr, _⟩ := h (fun _ => (1, 0)) (fun _ _ _ _ => (1, 0)) c 0 0 _ rfl hs
  rw [hm] at hbr
  cases hbr

/-! ## reference node -/

theorem head?_of_node {c : Component} {n : String} (h : c.node 0 = .ok n) : c.nodes.head? = some n := by
  have := node_ok h
  cases hc : c.nodes with
  | nil => simp [hc] at this
  | cons x l => simpa [hc] using this

/-- **C07 (ground).**  The reference node of an accepted circuit is the ground component's
node, else the first terminal of the first component. -/
theorem C07_ground (cs : List Component) (C : Circuit) (hne : cs ≠ []) (h : Circuit.mk? cs = .ok C) :
    some C.ground = Spec.groundOf cs ∧ C.components = cs := by
  unfold Circuit.mk? at h
  cases cs with
  | nil => exact absurd rfl hne
  | cons c0 rest =>
    simp only at h
    obtain ⟨gs, hgs, h⟩ := bind_eq_ok.mp h
    split at h
    · cases h
    · obtain ⟨g, hg, h⟩ := bind_eq_ok.mp h
      split at h
      · cases h
      · simp only [Except.ok.injEq] at h
        subst h
        refine ⟨?_, rfl⟩
        have hf := mapM_ok_forall₂ _ _ _ hgs
        unfold Spec.groundOf
        cases hfil : (c0 :: rest).filter (fun c => decide (c.kind = "ground")) with
        | nil =>
          rw [hfil] at hf
          cases hf
          simp only [pickGround] at hg
          simp [head?_of_node hg]
        | cons g0 tl =>
          rw [hfil] at hf
          cases hf with
          | cons hg0 _ =>
            simp only [pickGround, Except.ok.injEq] at hg
            subst hg
            simp [head?_of_node hg0]

/-! ## limits -/

/-- **C07 (limits, w = 0).**  At `w = 0` an inductor's record `Z = j·0·L` is a short circuit
and a capacitor's record `Y = j·0·C` is an open circuit, for the very predicates the solver
uses (`is_short_circuit`, `is_open_circuit`). -/
theorem C07_limits_dc (L C : Rat) :
    (Elem.norton (⟨0, 0 * L⟩ : GQ) 0).isShort = true ∧ (Elem.thevenin (⟨0, 0 * C⟩ : GQ) 0).isOpen = true := by
  simp [Elem.isShort, Elem.isOpen, GQ.zero_def]

/-- **C07 (limits, R = 0).**  A resistor of zero ohms is a short circuit for the solver. -/
theorem C07_limits_zero_resistance :
    (Elem.norton (⟨0, 0⟩ : GQ) 0).isShort = true ∧ (Elem.norton (⟨0, 0⟩ : GQ) 0).isIdealVS = true := by
  simp [Elem.isShort, Elem.isIdealVS, GQ.zero_def]


/-! ## non-vacuity: concrete inputs that meet the hypotheses -/

section Examples

/-- ground, an AC voltage source `3∠0` at `w = 2` behind 1 Ω, a 4 F capacitor -/
def exCs : List Component :=
  [⟨"ground", "gnd", ["0"], []⟩,
   ⟨"ac_voltage_source", "V", ["1", "0"], [("V", .num 3), ("R", .num 1), ("w", .num 2), ("phi", .num 0)]⟩,
   ⟨"capacitor", "C", ["1", "0"], [("C", .num 4)]⟩]

theorem exCircuit : Circuit.mk? exCs = .ok ⟨exCs, "0"⟩ := by decide

theorem exBranches : transformBranches Gen.tables (fun _ => (1, 0)) (fun _ _ _ _ => (0, 0)) exCs 2 0
      = .ok [⟨"1", "0", "V", "voltage_source", .norton ⟨1, 0⟩ ⟨3, 0⟩⟩,
             ⟨"1", "0", "C", "admittance", .thevenin ⟨0, 8⟩ 0⟩] := by
  decide +kernel

/-- hypotheses of `C07_position_independent` / `C07_one_to_one` -/
theorem exNet : transformCircuit Gen.tables (fun _ => (1, 0)) (fun _ _ _ _ => (0, 0)) ⟨exCs, "0"⟩ 2 0
      = .ok ⟨[⟨"1", "0", "V", "voltage_source", .norton ⟨1, 0⟩ ⟨3, 0⟩⟩,
              ⟨"1", "0", "C", "admittance", .thevenin ⟨0, 8⟩ 0⟩], "0"⟩ := by
  simp [transformCircuit, exBranches, bind, Except.bind, Net.check, Net.nodeLabels, sortL, dedupL, Net.ids,
    pure, Except.pure]

example : (⟨[⟨"1", "0", "V", "voltage_source", .norton ⟨1, 0⟩ ⟨3, 0⟩⟩,
             ⟨"1", "0", "C", "admittance", .thevenin ⟨0, 8⟩ 0⟩], "0"⟩ : Net String GQ).branches.map (·.id)
    = (translated Gen.tables exCs).map (·.id) :=
  C07_one_to_one Gen.tables C07_table_wellformed _ _ ⟨exCs, "0"⟩ 2 0 _ exNet

/-- hypotheses of `C07_ground` -/
example : some (⟨exCs, "0"⟩ : Circuit).ground = Spec.groundOf exCs :=
  (C07_ground exCs _ (by decide) exCircuit).1

/-- hypotheses of `C07_faithful_ac_voltage_source` (and of the other per-kind theorems: a
component carrying the keys its constructor writes) -/
example := C07_faithful_ac_voltage_source (fun _ => (1, 0)) (fun _ _ _ _ => (0, 0))
  ⟨"ac_voltage_source", "V", ["1", "0"], [("V", .num 3), ("R", .num 1), ("w", .num 2), ("phi", .num 0)]⟩
  2 0 "1" "0" rfl 3 1 2 0 rfl rfl rfl rfl rfl rfl

/-- hypotheses of `C07_harmonic_voltage_partial`: `rect`, `w0 = 2`, analysed at `w = 6` with
`w_res = 1/1024` -/
example := C07_harmonic_voltage_partial (fun _ => (1, 0)) (fun _ _ _ _ => (1, 0))
  ⟨"periodic_voltage_source", "V", ["1", "0"],
    [("wavetype", .str "rect"), ("V", .num 1), ("w", .num 2), ("phi", .num 0), ("R", .num 0)]⟩
  6 (1 / 1024) "1" "0" rfl "rect" 1 2 0 rfl rfl rfl (by decide) rfl rfl rfl rfl
  (by decide +kernel) (by decide +kernel) (by decide +kernel) (by decide +kernel)

/-- hypotheses of `C07_harmonic_sound` / `C07_harmonic_complete`: the third harmonic of `w0 = 2` -/
example : ¬ periodicOff 6 2 (1 / 1024) := by decide +kernel
example : Spec.dist 6 ((3 : Int) * 2) ≤ 1 / 1024 := by decide +kernel

end Examples

end CC
