/-
  C13 — per-kind translation against the independent Spec of the symbols (CC/Spec/DrawSymbols.lean).

  For every symbol kind `sy : SymSpec.Symbol` (resistor, conductance, impedance, capacitor,
  inductance, lamp, switch open / closed, labelled wire, DC / complex / AC / rect / tri / saw voltage
  and current sources, lossy DC sources, ground, node, label node, wire, blank element), ALL
  parameter values, names, both reversal flags, anchors and terminal names:

      the symbol written the way the user writes it — `Class(<params>, name=…, reverse=…)` —,
      constructed by the model of Elements.py (`construct`, an interpreter of the generated class
      table) and translated by the model of CircuitComponentTranslators.py / components.py
      (`compOfSym`, `translateSym`: interpreters of the generated translator and constructor tables)

  is EXACTLY the component the Spec says (`SymSpec.expected`): kind, id = name, value map as a
  function of the USER parameters (DC amplitude real, no internal resistance, phase
  `phi·π/180` for `deg`, `− π/2` for `sin`, closed switch 1e-12 Ω, open switch ∞, `G = 1/R` of the
  lossy current source), terminals listed start → end and end → start when reversed, with the
  user's amplitude NOT negated (`C13_symbols`, `C13_symbols_translate`).  Coverage of the generated
  table: `C13_symbols_cover`.

  Where the generated table and the Spec DISAGREE (proved, with the model's actual result):
  * `Admittance` has no translator: `UnknownTranslator` instead of an `admittance` component
    (`C13_sym_admittance_untranslated`);
  * `RealVoltageSource` / `RealCurrentSource` with `reverse=True`: the terminals are swapped AND the
    amplitude is negated — the component of the symbol with amplitude `−V`, i.e. electrically the
    NON-reversed source (`C13_sym_real_reversed`, `C13_sym_real_reversed_ne`);
  * `Rect` / `Triangle` / `Sawtooth` `VoltageSource` / `CurrentSource` with `sin=True`: the flag is
    accepted, stored and IGNORED — no `− π/2`; the component is that of `sin=False`
    (`C13_sym_periodic_sin_ignored`, `C13_sym_periodic_sin_ne`), unlike `ACVoltageSource` /
    `ACCurrentSource`, which shift.

  NOT covered: the floating-point evaluation of `phi*pi/180` (the model is exact over ℚ with
  `π := math.pi` as a rational), `name` passed positionally, schemdraw's placement (anchors are
  parameters), values outside `SymSpec.Admissible` (the constructors raise).
-/
import CC.Spec.DrawSymbols
import CC.Proofs.DrawRoundTrip
import CC.Proofs.DrawInvariance
import CC.Proofs.GQField
import Mathlib.Tactic.NormNum
set_option linter.unusedSectionVars false
set_option linter.unusedSimpArgs false
set_option linter.unusedVariables false
namespace CC
open CC.Draw CC.Draw.SymSpec

/-! ## vocabulary -/

/-- the model component a Spec component record corresponds to -/
def C13_toComponent (c : SymSpec.Comp) : Component :=
  { type := c.kind, id := c.id, nodes := c.nodes, value := c.value }

/-- the drawing element: the symbol `sy` written as `sy.cls(**sy.kwargs name rev)`, placed from `a` to `b` -/
def C13_elemOf (sy : Symbol) (name : String) (rev : Bool) (a b : Pt) : DElem :=
  ⟨sy.cls, sy.kwargs name rev, a, b⟩

/-- the model's translation of that element for the terminal names `la` (start), `lb` (end) -/
def C13_modelComp (π : Rat) (sy : Symbol) (name : String) (rev : Bool) (a b : Pt) (la lb : String) :
    Except Err (Option Component) :=
  elemComp π (C13_elemOf sy name rev a b) [la, lb]

/-- what the Spec says it is -/
def C13_specComp (π : Rat) (sy : Symbol) (name : String) (rev : Bool) (la lb : String) : Option Component :=
  (expected π sy name rev la lb).map C13_toComponent

/-- the symbols on which table and Spec are compared with a positive result: everything but
`Admittance` (no translator), the reversed lossy sources and the rect / tri / saw sources with
`sin=True` (see the file header: there the table DISAGREES with the Spec) -/
def C13_Judged : Symbol → Bool → Prop
  | .admittance _, _ => False
  | .realVoltage _ _, rev => rev = false
  | .realCurrent _ _, rev => rev = false
  | .periodicVoltage _ _ _ _ sin _, _ => sin = false
  | .periodicCurrent _ _ _ _ sin _, _ => sin = false
  | _, _ => True

/-! ## arithmetic facts -/

theorem GQ.deg_sin (π : Rat) (phi : GQ) :
    (phi - { re := 90, im := 0 }) * { re := π, im := 0 } / 180 =
      phi * { re := π, im := 0 } / 180 - { re := π / 2, im := 0 } := by
  have h180 : (180 : GQ) = ⟨180, 0⟩ := rfl
  rw [h180]
  apply GQ.ext'
  · simp only [GQ.div_def, GQ.re_mul, GQ.im_mul, GQ.re_sub, GQ.im_sub, GQ.re_inv, GQ.im_inv, GQ.normSq]
    ring
  · simp only [GQ.div_def, GQ.re_mul, GQ.im_mul, GQ.re_sub, GQ.im_sub, GQ.re_inv, GQ.im_inv, GQ.normSq]
    ring

/-- the conductance `1/R` of a real positive resistance: `R ≠ 0` and `Re (1/R) = R.re / |R|² ≥ 0` -/
theorem GQ.one_div_pos {R : GQ} (h2 : 0 < R.re) : R ≠ 0 ∧ ¬ R.re / R.normSq < 0 := by
  refine ⟨?_, ?_⟩
  · intro h; rw [h] at h2; exact lt_irrefl _ h2
  · rw [not_lt]
    exact div_nonneg h2.le (add_nonneg (mul_self_nonneg _) (mul_self_nonneg _))

/-- the Spec's closed-switch resistance is the binary64 literal `1e-12` (the nearest double:
within half an ulp `2⁻⁹³` of `10⁻¹²`) -/
theorem C13_closedSwitchOhms :
    closedSwitchOhms = 4951760157141521 / 4951760157141521099596496896 ∧
      |closedSwitchOhms - 1 / 10 ^ 12| ≤ 1 / 2 ^ 93 := by
  unfold closedSwitchOhms
  constructor
  · norm_num
  · rw [abs_le]; constructor <;> norm_num

/-! ## symbol by symbol (symbolic evaluation of the interpreters over the generated tables) -/
section
attribute [local simp] C13_modelComp C13_specComp C13_elemOf C13_toComponent expected denotes Symbol.cls Symbol.kwargs
    Symbol.params SymSpec.twoTerminal SymSpec.oneTerminal SymSpec.pick realPart imagPart radians Wave.name
    elemComp DElem.toSym construct classInfo
    Gen.elemClasses classChain bindParams evalF evalP compOfSym ctorValue
    lookupD truthy dictSet List.lookup List.find? negVal Gen.translatorMap Gen.translators runCases runCase
    nodeTuple evalV Sym.getAttr Gen.ctors applyCtor evalC valNeg valNonPos
    bind Except.bind pure Except.pure List.mapM List.mapM.loop List.foldlM
    forIn List.contains List.elem Gen.knownWavetypes GQ.neg_def GQ.eta GQ.im_zero GQ.re_zero GQ.mk_zero GQ.mk_eq_zero
    Functor.map Except.map throw throwThe MonadExceptOf.throw GQ.deg_sin

set_option maxRecDepth 8000
set_option maxHeartbeats 400000
theorem sym_resistor (π : Rat) (R : GQ) (rev : Bool) (name : String) (a b : Pt) (la lb : String) (h : NonNeg R) :
    C13_modelComp π (.resistor R) name rev a b la lb = .ok (C13_specComp π (.resistor R) name rev la lb) := by
  obtain ⟨h1, h2⟩ := h
  have h3 : ¬ R.re < 0 := not_lt.mpr h2
  by_cases h0 : R = 0
  · subst h0; cases rev <;> simp
  · cases rev <;> simp [h0, h1, h3]
theorem sym_conductance (π : Rat) (G : GQ) (rev : Bool) (name : String) (a b : Pt) (la lb : String) (h : NonNeg G) :
    C13_modelComp π (.conductance G) name rev a b la lb = .ok (C13_specComp π (.conductance G) name rev la lb) := by
  obtain ⟨h1, h2⟩ := h
  have h3 : ¬ G.re < 0 := not_lt.mpr h2
  by_cases h0 : G = 0
  · subst h0; cases rev <;> simp
  · cases rev <;> simp [h0, h1, h3]
theorem sym_impedance (π : Rat) (Z : GQ) (rev : Bool) (name : String) (a b : Pt) (la lb : String) :
    C13_modelComp π (.impedance Z) name rev a b la lb = .ok (C13_specComp π (.impedance Z) name rev la lb) := by
  by_cases h0 : Z = 0
  · subst h0; cases rev <;> simp
  · cases rev <;> simp [h0]
theorem sym_capacitor (π : Rat) (C : GQ) (rev : Bool) (name : String) (a b : Pt) (la lb : String) (h : NonNeg C) :
    C13_modelComp π (.capacitor C) name rev a b la lb = .ok (C13_specComp π (.capacitor C) name rev la lb) := by
  obtain ⟨h1, h2⟩ := h
  have h3 : ¬ C.re < 0 := not_lt.mpr h2
  cases rev <;> simp [h1, h3]
theorem sym_inductance (π : Rat) (L : GQ) (rev : Bool) (name : String) (a b : Pt) (la lb : String) (h : NonNeg L) :
    C13_modelComp π (.inductance L) name rev a b la lb = .ok (C13_specComp π (.inductance L) name rev la lb) := by
  obtain ⟨h1, h2⟩ := h
  have h3 : ¬ L.re < 0 := not_lt.mpr h2
  cases rev <;> simp [h1, h3]
theorem sym_lamp (π : Rat) (V_ref P_ref : GQ) (rev : Bool) (name : String) (a b : Pt) (la lb : String) (h : Pos V_ref ∧ NonNeg P_ref) :
    C13_modelComp π (.lamp V_ref P_ref) name rev a b la lb = .ok (C13_specComp π (.lamp V_ref P_ref) name rev la lb) := by
  obtain ⟨⟨h1, h2⟩, h4, h5⟩ := h
  have h3 : ¬ V_ref.re ≤ 0 := not_le.mpr h2
  have h6 : ¬ P_ref.re < 0 := not_lt.mpr h5
  cases rev <;> simp [h1, h3, h4, h6]
theorem sym_switch (π : Rat) (closed : Bool) (rev : Bool) (name : String) (a b : Pt) (la lb : String) :
    C13_modelComp π (.switch closed) name rev a b la lb = .ok (C13_specComp π (.switch closed) name rev la lb) := by
  have hpos : ¬ ((4951760157141521 : Rat) / 4951760157141521099596496896 < 0) := by norm_num
  cases rev <;> cases closed <;> simp [C13_closedSwitchOhms.1, hpos]
theorem sym_short (π : Rat)  (rev : Bool) (name : String) (a b : Pt) (la lb : String) :
    C13_modelComp π (.short) name rev a b la lb = .ok (C13_specComp π (.short) name rev la lb) := by
  cases rev <;> simp
theorem sym_dcVoltage (π : Rat) (V : GQ) (rev : Bool) (name : String) (a b : Pt) (la lb : String) :
    C13_modelComp π (.dcVoltage V) name rev a b la lb = .ok (C13_specComp π (.dcVoltage V) name rev la lb) := by
  cases rev <;> simp
theorem sym_dcCurrent (π : Rat) (I : GQ) (rev : Bool) (name : String) (a b : Pt) (la lb : String) :
    C13_modelComp π (.dcCurrent I) name rev a b la lb = .ok (C13_specComp π (.dcCurrent I) name rev la lb) := by
  cases rev <;> simp
theorem sym_complexVoltage (π : Rat) (V : GQ) (rev : Bool) (name : String) (a b : Pt) (la lb : String) :
    C13_modelComp π (.complexVoltage V) name rev a b la lb = .ok (C13_specComp π (.complexVoltage V) name rev la lb) := by
  cases rev <;> simp
theorem sym_complexCurrent (π : Rat) (I : GQ) (rev : Bool) (name : String) (a b : Pt) (la lb : String) :
    C13_modelComp π (.complexCurrent I) name rev a b la lb = .ok (C13_specComp π (.complexCurrent I) name rev la lb) := by
  cases rev <;> simp
theorem sym_acVoltage_false (π : Rat) (V w phi : GQ) (sin deg : Bool) (name : String) (a b : Pt) (la lb : String) (h : NonNeg w) :
    C13_modelComp π (.acVoltage V w phi sin deg) name false a b la lb = .ok (C13_specComp π (.acVoltage V w phi sin deg) name false la lb) := by
  obtain ⟨h1, h2⟩ := h
  have h3 : ¬ w.re < 0 := not_lt.mpr h2
  cases sin <;> cases deg <;> simp [h1, h3]
theorem sym_acVoltage_true (π : Rat) (V w phi : GQ) (sin deg : Bool) (name : String) (a b : Pt) (la lb : String) (h : NonNeg w) :
    C13_modelComp π (.acVoltage V w phi sin deg) name true a b la lb = .ok (C13_specComp π (.acVoltage V w phi sin deg) name true la lb) := by
  obtain ⟨h1, h2⟩ := h
  have h3 : ¬ w.re < 0 := not_lt.mpr h2
  cases sin <;> cases deg <;> simp [h1, h3]
theorem sym_acCurrent_false (π : Rat) (I w phi : GQ) (sin deg : Bool) (name : String) (a b : Pt) (la lb : String) (h : NonNeg w) :
    C13_modelComp π (.acCurrent I w phi sin deg) name false a b la lb = .ok (C13_specComp π (.acCurrent I w phi sin deg) name false la lb) := by
  obtain ⟨h1, h2⟩ := h
  have h3 : ¬ w.re < 0 := not_lt.mpr h2
  cases sin <;> cases deg <;> simp [h1, h3]
theorem sym_acCurrent_true (π : Rat) (I w phi : GQ) (sin deg : Bool) (name : String) (a b : Pt) (la lb : String) (h : NonNeg w) :
    C13_modelComp π (.acCurrent I w phi sin deg) name true a b la lb = .ok (C13_specComp π (.acCurrent I w phi sin deg) name true la lb) := by
  obtain ⟨h1, h2⟩ := h
  have h3 : ¬ w.re < 0 := not_lt.mpr h2
  cases sin <;> cases deg <;> simp [h1, h3]
theorem sym_periodicVoltage_rect_false (π : Rat) (V w phi : GQ) (deg : Bool) (name : String) (a b : Pt) (la lb : String) (h : Pos w) :
    C13_modelComp π (.periodicVoltage .rect V w phi false deg) name false a b la lb =
      .ok (C13_specComp π (.periodicVoltage .rect V w phi false deg) name false la lb) := by
  obtain ⟨h1, h2⟩ := h
  have h3 : ¬ w.re ≤ 0 := not_le.mpr h2
  cases deg <;> simp [h1, h3]

/-- `sin=True` is accepted and IGNORED by the rect source: the component is that of `sin=False` -/
theorem sym_periodicVoltage_rect_false_sin (π : Rat) (V w phi : GQ) (deg : Bool) (name : String) (a b : Pt) (la lb : String) (h : Pos w) :
    C13_modelComp π (.periodicVoltage .rect V w phi true deg) name false a b la lb =
      .ok (C13_specComp π (.periodicVoltage .rect V w phi false deg) name false la lb) := by
  obtain ⟨h1, h2⟩ := h
  have h3 : ¬ w.re ≤ 0 := not_le.mpr h2
  cases deg <;> simp [h1, h3]

theorem sym_periodicVoltage_rect_true (π : Rat) (V w phi : GQ) (deg : Bool) (name : String) (a b : Pt) (la lb : String) (h : Pos w) :
    C13_modelComp π (.periodicVoltage .rect V w phi false deg) name true a b la lb =
      .ok (C13_specComp π (.periodicVoltage .rect V w phi false deg) name true la lb) := by
  obtain ⟨h1, h2⟩ := h
  have h3 : ¬ w.re ≤ 0 := not_le.mpr h2
  cases deg <;> simp [h1, h3]

/-- `sin=True` is accepted and IGNORED by the rect source: the component is that of `sin=False` -/
theorem sym_periodicVoltage_rect_true_sin (π : Rat) (V w phi : GQ) (deg : Bool) (name : String) (a b : Pt) (la lb : String) (h : Pos w) :
    C13_modelComp π (.periodicVoltage .rect V w phi true deg) name true a b la lb =
      .ok (C13_specComp π (.periodicVoltage .rect V w phi false deg) name true la lb) := by
  obtain ⟨h1, h2⟩ := h
  have h3 : ¬ w.re ≤ 0 := not_le.mpr h2
  cases deg <;> simp [h1, h3]

theorem sym_periodicCurrent_rect_false (π : Rat) (I w phi : GQ) (deg : Bool) (name : String) (a b : Pt) (la lb : String) (h : Pos w) :
    C13_modelComp π (.periodicCurrent .rect I w phi false deg) name false a b la lb =
      .ok (C13_specComp π (.periodicCurrent .rect I w phi false deg) name false la lb) := by
  obtain ⟨h1, h2⟩ := h
  have h3 : ¬ w.re ≤ 0 := not_le.mpr h2
  cases deg <;> simp [h1, h3]

/-- `sin=True` is accepted and IGNORED by the rect source: the component is that of `sin=False` -/
theorem sym_periodicCurrent_rect_false_sin (π : Rat) (I w phi : GQ) (deg : Bool) (name : String) (a b : Pt) (la lb : String) (h : Pos w) :
    C13_modelComp π (.periodicCurrent .rect I w phi true deg) name false a b la lb =
      .ok (C13_specComp π (.periodicCurrent .rect I w phi false deg) name false la lb) := by
  obtain ⟨h1, h2⟩ := h
  have h3 : ¬ w.re ≤ 0 := not_le.mpr h2
  cases deg <;> simp [h1, h3]

theorem sym_periodicCurrent_rect_true (π : Rat) (I w phi : GQ) (deg : Bool) (name : String) (a b : Pt) (la lb : String) (h : Pos w) :
    C13_modelComp π (.periodicCurrent .rect I w phi false deg) name true a b la lb =
      .ok (C13_specComp π (.periodicCurrent .rect I w phi false deg) name true la lb) := by
  obtain ⟨h1, h2⟩ := h
  have h3 : ¬ w.re ≤ 0 := not_le.mpr h2
  cases deg <;> simp [h1, h3]

/-- `sin=True` is accepted and IGNORED by the rect source: the component is that of `sin=False` -/
theorem sym_periodicCurrent_rect_true_sin (π : Rat) (I w phi : GQ) (deg : Bool) (name : String) (a b : Pt) (la lb : String) (h : Pos w) :
    C13_modelComp π (.periodicCurrent .rect I w phi true deg) name true a b la lb =
      .ok (C13_specComp π (.periodicCurrent .rect I w phi false deg) name true la lb) := by
  obtain ⟨h1, h2⟩ := h
  have h3 : ¬ w.re ≤ 0 := not_le.mpr h2
  cases deg <;> simp [h1, h3]

theorem sym_periodicVoltage_tri_false (π : Rat) (V w phi : GQ) (deg : Bool) (name : String) (a b : Pt) (la lb : String) (h : Pos w) :
    C13_modelComp π (.periodicVoltage .tri V w phi false deg) name false a b la lb =
      .ok (C13_specComp π (.periodicVoltage .tri V w phi false deg) name false la lb) := by
  obtain ⟨h1, h2⟩ := h
  have h3 : ¬ w.re ≤ 0 := not_le.mpr h2
  cases deg <;> simp [h1, h3]

/-- `sin=True` is accepted and IGNORED by the tri source: the component is that of `sin=False` -/
theorem sym_periodicVoltage_tri_false_sin (π : Rat) (V w phi : GQ) (deg : Bool) (name : String) (a b : Pt) (la lb : String) (h : Pos w) :
    C13_modelComp π (.periodicVoltage .tri V w phi true deg) name false a b la lb =
      .ok (C13_specComp π (.periodicVoltage .tri V w phi false deg) name false la lb) := by
  obtain ⟨h1, h2⟩ := h
  have h3 : ¬ w.re ≤ 0 := not_le.mpr h2
  cases deg <;> simp [h1, h3]

theorem sym_periodicVoltage_tri_true (π : Rat) (V w phi : GQ) (deg : Bool) (name : String) (a b : Pt) (la lb : String) (h : Pos w) :
    C13_modelComp π (.periodicVoltage .tri V w phi false deg) name true a b la lb =
      .ok (C13_specComp π (.periodicVoltage .tri V w phi false deg) name true la lb) := by
  obtain ⟨h1, h2⟩ := h
  have h3 : ¬ w.re ≤ 0 := not_le.mpr h2
  cases deg <;> simp [h1, h3]

/-- `sin=True` is accepted and IGNORED by the tri source: the component is that of `sin=False` -/
theorem sym_periodicVoltage_tri_true_sin (π : Rat) (V w phi : GQ) (deg : Bool) (name : String) (a b : Pt) (la lb : String) (h : Pos w) :
    C13_modelComp π (.periodicVoltage .tri V w phi true deg) name true a b la lb =
      .ok (C13_specComp π (.periodicVoltage .tri V w phi false deg) name true la lb) := by
  obtain ⟨h1, h2⟩ := h
  have h3 : ¬ w.re ≤ 0 := not_le.mpr h2
  cases deg <;> simp [h1, h3]

theorem sym_periodicCurrent_tri_false (π : Rat) (I w phi : GQ) (deg : Bool) (name : String) (a b : Pt) (la lb : String) (h : Pos w) :
    C13_modelComp π (.periodicCurrent .tri I w phi false deg) name false a b la lb =
      .ok (C13_specComp π (.periodicCurrent .tri I w phi false deg) name false la lb) := by
  obtain ⟨h1, h2⟩ := h
  have h3 : ¬ w.re ≤ 0 := not_le.mpr h2
  cases deg <;> simp [h1, h3]

/-- `sin=True` is accepted and IGNORED by the tri source: the component is that of `sin=False` -/
theorem sym_periodicCurrent_tri_false_sin (π : Rat) (I w phi : GQ) (deg : Bool) (name : String) (a b : Pt) (la lb : String) (h : Pos w) :
    C13_modelComp π (.periodicCurrent .tri I w phi true deg) name false a b la lb =
      .ok (C13_specComp π (.periodicCurrent .tri I w phi false deg) name false la lb) := by
  obtain ⟨h1, h2⟩ := h
  have h3 : ¬ w.re ≤ 0 := not_le.mpr h2
  cases deg <;> simp [h1, h3]

theorem sym_periodicCurrent_tri_true (π : Rat) (I w phi : GQ) (deg : Bool) (name : String) (a b : Pt) (la lb : String) (h : Pos w) :
    C13_modelComp π (.periodicCurrent .tri I w phi false deg) name true a b la lb =
      .ok (C13_specComp π (.periodicCurrent .tri I w phi false deg) name true la lb) := by
  obtain ⟨h1, h2⟩ := h
  have h3 : ¬ w.re ≤ 0 := not_le.mpr h2
  cases deg <;> simp [h1, h3]

/-- `sin=True` is accepted and IGNORED by the tri source: the component is that of `sin=False` -/
theorem sym_periodicCurrent_tri_true_sin (π : Rat) (I w phi : GQ) (deg : Bool) (name : String) (a b : Pt) (la lb : String) (h : Pos w) :
    C13_modelComp π (.periodicCurrent .tri I w phi true deg) name true a b la lb =
      .ok (C13_specComp π (.periodicCurrent .tri I w phi false deg) name true la lb) := by
  obtain ⟨h1, h2⟩ := h
  have h3 : ¬ w.re ≤ 0 := not_le.mpr h2
  cases deg <;> simp [h1, h3]

theorem sym_periodicVoltage_saw_false (π : Rat) (V w phi : GQ) (deg : Bool) (name : String) (a b : Pt) (la lb : String) (h : Pos w) :
    C13_modelComp π (.periodicVoltage .saw V w phi false deg) name false a b la lb =
      .ok (C13_specComp π (.periodicVoltage .saw V w phi false deg) name false la lb) := by
  obtain ⟨h1, h2⟩ := h
  have h3 : ¬ w.re ≤ 0 := not_le.mpr h2
  cases deg <;> simp [h1, h3]

/-- `sin=True` is accepted and IGNORED by the saw source: the component is that of `sin=False` -/
theorem sym_periodicVoltage_saw_false_sin (π : Rat) (V w phi : GQ) (deg : Bool) (name : String) (a b : Pt) (la lb : String) (h : Pos w) :
    C13_modelComp π (.periodicVoltage .saw V w phi true deg) name false a b la lb =
      .ok (C13_specComp π (.periodicVoltage .saw V w phi false deg) name false la lb) := by
  obtain ⟨h1, h2⟩ := h
  have h3 : ¬ w.re ≤ 0 := not_le.mpr h2
  cases deg <;> simp [h1, h3]

theorem sym_periodicVoltage_saw_true (π : Rat) (V w phi : GQ) (deg : Bool) (name : String) (a b : Pt) (la lb : String) (h : Pos w) :
    C13_modelComp π (.periodicVoltage .saw V w phi false deg) name true a b la lb =
      .ok (C13_specComp π (.periodicVoltage .saw V w phi false deg) name true la lb) := by
  obtain ⟨h1, h2⟩ := h
  have h3 : ¬ w.re ≤ 0 := not_le.mpr h2
  cases deg <;> simp [h1, h3]

/-- `sin=True` is accepted and IGNORED by the saw source: the component is that of `sin=False` -/
theorem sym_periodicVoltage_saw_true_sin (π : Rat) (V w phi : GQ) (deg : Bool) (name : String) (a b : Pt) (la lb : String) (h : Pos w) :
    C13_modelComp π (.periodicVoltage .saw V w phi true deg) name true a b la lb =
      .ok (C13_specComp π (.periodicVoltage .saw V w phi false deg) name true la lb) := by
  obtain ⟨h1, h2⟩ := h
  have h3 : ¬ w.re ≤ 0 := not_le.mpr h2
  cases deg <;> simp [h1, h3]

theorem sym_periodicCurrent_saw_false (π : Rat) (I w phi : GQ) (deg : Bool) (name : String) (a b : Pt) (la lb : String) (h : Pos w) :
    C13_modelComp π (.periodicCurrent .saw I w phi false deg) name false a b la lb =
      .ok (C13_specComp π (.periodicCurrent .saw I w phi false deg) name false la lb) := by
  obtain ⟨h1, h2⟩ := h
  have h3 : ¬ w.re ≤ 0 := not_le.mpr h2
  cases deg <;> simp [h1, h3]

/-- `sin=True` is accepted and IGNORED by the saw source: the component is that of `sin=False` -/
theorem sym_periodicCurrent_saw_false_sin (π : Rat) (I w phi : GQ) (deg : Bool) (name : String) (a b : Pt) (la lb : String) (h : Pos w) :
    C13_modelComp π (.periodicCurrent .saw I w phi true deg) name false a b la lb =
      .ok (C13_specComp π (.periodicCurrent .saw I w phi false deg) name false la lb) := by
  obtain ⟨h1, h2⟩ := h
  have h3 : ¬ w.re ≤ 0 := not_le.mpr h2
  cases deg <;> simp [h1, h3]

theorem sym_periodicCurrent_saw_true (π : Rat) (I w phi : GQ) (deg : Bool) (name : String) (a b : Pt) (la lb : String) (h : Pos w) :
    C13_modelComp π (.periodicCurrent .saw I w phi false deg) name true a b la lb =
      .ok (C13_specComp π (.periodicCurrent .saw I w phi false deg) name true la lb) := by
  obtain ⟨h1, h2⟩ := h
  have h3 : ¬ w.re ≤ 0 := not_le.mpr h2
  cases deg <;> simp [h1, h3]

/-- `sin=True` is accepted and IGNORED by the saw source: the component is that of `sin=False` -/
theorem sym_periodicCurrent_saw_true_sin (π : Rat) (I w phi : GQ) (deg : Bool) (name : String) (a b : Pt) (la lb : String) (h : Pos w) :
    C13_modelComp π (.periodicCurrent .saw I w phi true deg) name true a b la lb =
      .ok (C13_specComp π (.periodicCurrent .saw I w phi false deg) name true la lb) := by
  obtain ⟨h1, h2⟩ := h
  have h3 : ¬ w.re ≤ 0 := not_le.mpr h2
  cases deg <;> simp [h1, h3]

theorem sym_realVoltage (π : Rat) (V R : GQ) (name : String) (a b : Pt) (la lb : String) (h : NonNeg R) :
    C13_modelComp π (.realVoltage V R) name false a b la lb = .ok (C13_specComp π (.realVoltage V R) name false la lb) := by
  obtain ⟨h1, h2⟩ := h
  have h3 : ¬ R.re < 0 := not_lt.mpr h2
  by_cases h0 : R = 0
  · subst h0; simp
  · simp [h0, h1, h3]

theorem sym_realCurrent (π : Rat) (I R : GQ) (name : String) (a b : Pt) (la lb : String) (h : Pos R) :
    C13_modelComp π (.realCurrent I R) name false a b la lb = .ok (C13_specComp π (.realCurrent I R) name false la lb) := by
  obtain ⟨h0, h3⟩ := GQ.one_div_pos h.2
  simp [h0, h.1, h3]

/-- the reversed lossy sources: terminals swapped AND amplitude negated = the Spec's component of
the symbol with the NEGATED amplitude -/
theorem sym_realVoltage_rev (π : Rat) (V R : GQ) (name : String) (a b : Pt) (la lb : String) (h : NonNeg R) :
    C13_modelComp π (.realVoltage V R) name true a b la lb = .ok (C13_specComp π (.realVoltage (-V) R) name true la lb) := by
  obtain ⟨h1, h2⟩ := h
  have h3 : ¬ R.re < 0 := not_lt.mpr h2
  by_cases h0 : R = 0
  · subst h0; simp
  · simp [h0, h1, h3]

theorem sym_realCurrent_rev (π : Rat) (I R : GQ) (name : String) (a b : Pt) (la lb : String) (h : Pos R) :
    C13_modelComp π (.realCurrent I R) name true a b la lb = .ok (C13_specComp π (.realCurrent (-I) R) name true la lb) := by
  obtain ⟨h0, h3⟩ := GQ.one_div_pos h.2
  simp [h0, h.1, h3]

theorem sym_admittance (π : Rat) (Y : GQ) (name : String) (rev : Bool) (a b : Pt) (la lb : String) :
    C13_modelComp π (.admittance Y) name rev a b la lb = .error Err.unknownKind := by
  by_cases h0 : Y = 0
  · subst h0; cases rev <;> simp
  · cases rev <;> simp [h0]

theorem sym_ground (π : Rat)  (rev : Bool) (name : String) (a b : Pt) (la lb : String) :
    C13_modelComp π (.ground) name rev a b la lb = .ok (C13_specComp π (.ground) name rev la lb) := by
  cases rev <;> simp
theorem sym_node (π : Rat) (labelled : Bool) (rev : Bool) (name : String) (a b : Pt) (la lb : String) :
    C13_modelComp π (.node labelled) name rev a b la lb = .ok (C13_specComp π (.node labelled) name rev la lb) := by
  cases rev <;> cases labelled <;> simp
theorem sym_line (π : Rat)  (rev : Bool) (name : String) (a b : Pt) (la lb : String) :
    C13_modelComp π (.line) name rev a b la lb = .ok (C13_specComp π (.line) name rev la lb) := by
  cases rev <;> simp
theorem sym_blank (π : Rat)  (rev : Bool) (name : String) (a b : Pt) (la lb : String) :
    C13_modelComp π (.blank) name rev a b la lb = .ok (C13_specComp π (.blank) name rev la lb) := by
  cases rev <;> simp
/-- `Ground()` without a name: the component id and node id default to `'0'` -/
theorem sym_ground_default (π : Rat) (a b : Pt) (la lb : String) :
    elemComp π ⟨"Ground", [], a, b⟩ [la, lb] =
      .ok (some { type := "ground", id := "0", nodes := [la], value := [] }) := by
  simp

end

/-! ## the theorems -/

/-- **Per-kind translation = Spec.**  For every symbol kind, all admissible parameter values
(`SymSpec.Admissible`: what the component constructors accept), every name, both reversal flags,
all anchors and terminal names: constructing the symbol from its USER parameters (model of
Elements.py over the generated class table) and translating it (model of the translators and
component constructors over the generated tables) yields exactly the component of the independent
Spec — kind, id = name, value map, terminals start → end, swapped (amplitude not negated) when
reversed; no component for node, label node, wire and blank element.  `C13_Judged` excludes the three
places where table and Spec disagree (theorems below).  NOT said: anything about binary64 rounding
of `phi*pi/180` (exact rationals here), positional `name`, values outside `Admissible`. -/
theorem C13_symbols (π : Rat) (sy : Symbol) (name : String) (rev : Bool) (a b : Pt) (la lb : String)
    (hadm : Admissible sy) (hj : C13_Judged sy rev) :
    C13_modelComp π sy name rev a b la lb = .ok (C13_specComp π sy name rev la lb) := by
  cases sy with
  | resistor R => exact sym_resistor π R rev name a b la lb hadm
  | conductance G => exact sym_conductance π G rev name a b la lb hadm
  | impedance Z => exact sym_impedance π Z rev name a b la lb
  | admittance Y => exact absurd hj id
  | capacitor C => exact sym_capacitor π C rev name a b la lb hadm
  | inductance L => exact sym_inductance π L rev name a b la lb hadm
  | lamp V_ref P_ref => exact sym_lamp π V_ref P_ref rev name a b la lb hadm
  | switch closed => exact sym_switch π closed rev name a b la lb
  | short => exact sym_short π rev name a b la lb
  | dcVoltage V => exact sym_dcVoltage π V rev name a b la lb
  | dcCurrent I => exact sym_dcCurrent π I rev name a b la lb
  | complexVoltage V => exact sym_complexVoltage π V rev name a b la lb
  | complexCurrent I => exact sym_complexCurrent π I rev name a b la lb
  | acVoltage V w phi sin deg =>
    cases rev
    · exact sym_acVoltage_false π V w phi sin deg name a b la lb hadm
    · exact sym_acVoltage_true π V w phi sin deg name a b la lb hadm
  | acCurrent I w phi sin deg =>
    cases rev
    · exact sym_acCurrent_false π I w phi sin deg name a b la lb hadm
    · exact sym_acCurrent_true π I w phi sin deg name a b la lb hadm
  | periodicVoltage wave V w phi sin deg =>
    have hs : sin = false := hj
    subst hs
    cases wave <;> cases rev
    · exact sym_periodicVoltage_rect_false π V w phi deg name a b la lb hadm
    · exact sym_periodicVoltage_rect_true π V w phi deg name a b la lb hadm
    · exact sym_periodicVoltage_tri_false π V w phi deg name a b la lb hadm
    · exact sym_periodicVoltage_tri_true π V w phi deg name a b la lb hadm
    · exact sym_periodicVoltage_saw_false π V w phi deg name a b la lb hadm
    · exact sym_periodicVoltage_saw_true π V w phi deg name a b la lb hadm
  | periodicCurrent wave I w phi sin deg =>
    have hs : sin = false := hj
    subst hs
    cases wave <;> cases rev
    · exact sym_periodicCurrent_rect_false π I w phi deg name a b la lb hadm
    · exact sym_periodicCurrent_rect_true π I w phi deg name a b la lb hadm
    · exact sym_periodicCurrent_tri_false π I w phi deg name a b la lb hadm
    · exact sym_periodicCurrent_tri_true π I w phi deg name a b la lb hadm
    · exact sym_periodicCurrent_saw_false π I w phi deg name a b la lb hadm
    · exact sym_periodicCurrent_saw_true π I w phi deg name a b la lb hadm
  | realVoltage V R =>
    have hr : rev = false := hj
    subst hr
    exact sym_realVoltage π V R name a b la lb hadm
  | realCurrent I R =>
    have hr : rev = false := hj
    subst hr
    exact sym_realCurrent π I R name a b la lb hadm
  | ground => exact sym_ground π rev name a b la lb
  | node labelled => exact sym_node π labelled rev name a b la lb
  | line => exact sym_line π rev name a b la lb
  | blank => exact sym_blank π rev name a b la lb

/-- the hypotheses of `C13_symbols` are met, e.g. by a reversed 12 V / 5 W lamp and by a reversed AC
source with a sine-referenced phase in degrees -/
example : Admissible (.lamp ⟨12, 0⟩ ⟨5, 0⟩) ∧ C13_Judged (.lamp ⟨12, 0⟩ ⟨5, 0⟩) true ∧
    Admissible (.acVoltage ⟨-3, 0⟩ ⟨50, 0⟩ ⟨30, 0⟩ true true) ∧
    C13_Judged (.acVoltage ⟨-3, 0⟩ ⟨50, 0⟩ ⟨30, 0⟩ true true) true := by
  refine ⟨⟨⟨rfl, ?_⟩, rfl, ?_⟩, trivial, ⟨rfl, ?_⟩, trivial⟩ <;> norm_num

theorem toSym_shell {π : Rat} {d : DElem} {s : Sym} (h : d.toSym π = .ok s) :
    s.cls = d.cls ∧ s.start = d.start ∧ s.stop = d.stop := by
  unfold DElem.toSym at h
  cases hc : construct π d.cls d.kwargs with
  | error e => simp [hc, bind, Except.bind] at h
  | ok o =>
    simp only [hc, bind, Except.bind, pure, Except.pure] at h
    cases h
    exact ⟨rfl, rfl, rfl⟩

theorem translateSym_of_compOfSym {π : Rat} {L : Pt → Except Err String} {s : Sym} {la lb : String}
    {x : Option Component} (h1 : L s.n1 = .ok la) (h2 : L s.n2 = .ok lb)
    (hx : compOfSym π s [la, lb] = .ok x) : translateSym π L s = .ok x := by
  unfold translateSym
  cases hl : Gen.translatorMap.lookup s.cls with
  | none => unfold compOfSym at hx; rw [hl] at hx; cases hx
  | some f =>
    simp only
    rw [mapM_pair', h1, h2]
    simp only [bind, Except.bind, pure, Except.pure]
    rw [hx]; rfl

/-- **The same at the level of `DiagramTranslator.__call__`** (`translateSym`): the symbol object
built from the user parameters exists (construction does not raise), has the class and the
anchors of the drawing element, and — whenever the parser names its two rounded anchors `la`
and `lb` — is translated to exactly the Spec's component (`none`: the symbol is dropped from the
component list). -/
theorem C13_symbols_translate (π : Rat) (sy : Symbol) (name : String) (rev : Bool) (a b : Pt)
    (L : Pt → Except Err String) (la lb : String) (hadm : Admissible sy) (hj : C13_Judged sy rev) :
    (∃ s, (C13_elemOf sy name rev a b).toSym π = .ok s) ∧
    ∀ s, (C13_elemOf sy name rev a b).toSym π = .ok s →
      s.cls = sy.cls ∧ s.start = a ∧ s.stop = b ∧
      (L s.n1 = .ok la → L s.n2 = .ok lb →
        translateSym π L s = .ok (C13_specComp π sy name rev la lb)) := by
  have h := C13_symbols π sy name rev a b la lb hadm hj
  unfold C13_modelComp elemComp at h
  cases hs : (C13_elemOf sy name rev a b).toSym π with
  | error e => simp [hs, bind, Except.bind] at h
  | ok s =>
    simp only [hs, bind, Except.bind] at h
    refine ⟨⟨s, rfl⟩, ?_⟩
    intro s' hs'
    cases hs'
    obtain ⟨k1, k2, k3⟩ := toSym_shell hs
    exact ⟨k1, k2, k3, fun h1 h2 => translateSym_of_compOfSym h1 h2 h⟩

/-! ### where the generated table and the Spec disagree -/

/-- **`Admittance`** — Spec: an `admittance` component (`G = Re Y`, `B = Im Y`, the constructor
exists in components.py); table: the class has no entry in `circuit_translator_map`, the
translation raises `UnknownTranslator` for every value. -/
theorem C13_sym_admittance_untranslated (π : Rat) (Y : GQ) (name : String) (rev : Bool) (a b : Pt) (la lb : String) :
    C13_modelComp π (.admittance Y) name rev a b la lb = .error Err.unknownKind ∧
    (C13_specComp π (.admittance Y) name rev la lb).isSome = true :=
  ⟨sym_admittance π Y name rev a b la lb, rfl⟩

/-- **reversed lossy sources** — the model lists the terminals end → start AND negates the
amplitude: the result is the Spec's component of the symbol with amplitude `−V` (`−I`), i.e. the
reversal flag has no electrical effect on `RealVoltageSource` / `RealCurrentSource`, whereas it
reverses the polarity of every other source (`C13_symbols`). -/
theorem C13_sym_real_reversed (π : Rat) (V R : GQ) (name : String) (a b : Pt) (la lb : String) :
    (NonNeg R → C13_modelComp π (.realVoltage V R) name true a b la lb =
      .ok (C13_specComp π (.realVoltage (-V) R) name true la lb)) ∧
    (Pos R → C13_modelComp π (.realCurrent V R) name true a b la lb =
      .ok (C13_specComp π (.realCurrent (-V) R) name true la lb)) :=
  ⟨sym_realVoltage_rev π V R name a b la lb, sym_realCurrent_rev π V R name a b la lb⟩

/-- … which is not the Spec's component unless the amplitude is zero -/
theorem C13_sym_real_reversed_ne (π : Rat) (V R : GQ) (name : String) (a b : Pt) (la lb : String)
    (hR : NonNeg R) (hV : V.re ≠ 0) :
    C13_modelComp π (.realVoltage V R) name true a b la lb ≠
      .ok (C13_specComp π (.realVoltage V R) name true la lb) := by
  rw [sym_realVoltage_rev π V R name a b la lb hR]
  intro h
  have h' : (-V).re = V.re := by
    simpa [C13_specComp, expected, denotes, C13_toComponent, realPart] using h
  have : -V.re = V.re := h'
  apply hV
  linarith

theorem radians_sin_ne (π : Rat) (hπ : π ≠ 0) (phi : GQ) (deg : Bool) :
    radians π phi true deg ≠ radians π phi false deg := by
  unfold radians
  simp only [if_true, Bool.false_eq_true, if_false]
  intro h
  have := congrArg GQ.re h
  simp only [GQ.re_sub] at this
  apply hπ
  linarith

/-- **rect / tri / saw sources with `sin=True`** — Spec (as for the AC sources, whose
constructor signature they share): phase `− π/2`; table: the flag is stored and ignored, the
component is exactly that of `sin=False`, for every wave form, either reversal flag, `deg` or not. -/
theorem C13_sym_periodic_sin_ignored (π : Rat) (wave : Wave) (V w phi : GQ) (deg : Bool) (name : String)
    (rev : Bool) (a b : Pt) (la lb : String) (h : Pos w) :
    C13_modelComp π (.periodicVoltage wave V w phi true deg) name rev a b la lb =
      .ok (C13_specComp π (.periodicVoltage wave V w phi false deg) name rev la lb) ∧
    C13_modelComp π (.periodicCurrent wave V w phi true deg) name rev a b la lb =
      .ok (C13_specComp π (.periodicCurrent wave V w phi false deg) name rev la lb) := by
  cases wave <;> cases rev
  · exact ⟨sym_periodicVoltage_rect_false_sin π V w phi deg name a b la lb h, sym_periodicCurrent_rect_false_sin π V w phi deg name a b la lb h⟩
  · exact ⟨sym_periodicVoltage_rect_true_sin π V w phi deg name a b la lb h, sym_periodicCurrent_rect_true_sin π V w phi deg name a b la lb h⟩
  · exact ⟨sym_periodicVoltage_tri_false_sin π V w phi deg name a b la lb h, sym_periodicCurrent_tri_false_sin π V w phi deg name a b la lb h⟩
  · exact ⟨sym_periodicVoltage_tri_true_sin π V w phi deg name a b la lb h, sym_periodicCurrent_tri_true_sin π V w phi deg name a b la lb h⟩
  · exact ⟨sym_periodicVoltage_saw_false_sin π V w phi deg name a b la lb h, sym_periodicCurrent_saw_false_sin π V w phi deg name a b la lb h⟩
  · exact ⟨sym_periodicVoltage_saw_true_sin π V w phi deg name a b la lb h, sym_periodicCurrent_saw_true_sin π V w phi deg name a b la lb h⟩

/-- … which is not the Spec's component (`π ≠ 0`) -/
theorem C13_sym_periodic_sin_ne (π : Rat) (hπ : π ≠ 0) (wave : Wave) (V w phi : GQ) (deg : Bool) (name : String)
    (rev : Bool) (a b : Pt) (la lb : String) (h : Pos w) :
    C13_modelComp π (.periodicVoltage wave V w phi true deg) name rev a b la lb ≠
      .ok (C13_specComp π (.periodicVoltage wave V w phi true deg) name rev la lb) := by
  rw [(C13_sym_periodic_sin_ignored π wave V w phi deg name rev a b la lb h).1]
  intro h'
  have h'' : radians π phi false deg = radians π phi true deg := by
    simpa [C13_specComp, expected, denotes, C13_toComponent] using h'
  exact radians_sin_ne π hπ phi deg h''.symm

/-! ### coverage of the generated table -/

/-- the class names of all Spec symbols -/
def C13_symbolClasses : List String :=
  ([.resistor 0, .conductance 0, .impedance 0, .admittance 0, .capacitor 0, .inductance 0, .lamp 0 0,
    .switch false, .short, .dcVoltage 0, .dcCurrent 0, .complexVoltage 0, .complexCurrent 0,
    .acVoltage 0 0 0 false false, .acCurrent 0 0 0 false false,
    .periodicVoltage .rect 0 0 0 false false, .periodicVoltage .tri 0 0 0 false false, .periodicVoltage .saw 0 0 0 false false,
    .periodicCurrent .rect 0 0 0 false false, .periodicCurrent .tri 0 0 0 false false, .periodicCurrent .saw 0 0 0 false false,
    .realVoltage 0 0, .realCurrent 0 0, .ground, .node false, .node true, .line, .blank] : List Symbol).map Symbol.cls

/-- the annotation classes: no name, no component -/
def C13_annotationClasses : List String := ["VoltageLabel", "CurrentLabel", "PowerLabel"]

/-- **Every class of the generated table is covered**: every symbol class that carries a name
(`hasattr(e, 'name')`, the parser's circuit elements) is the class of a Spec symbol; every key of the
generated `circuit_translator_map` is such a class or one of the three annotation classes, and those
translate to nothing whatever they carry. -/
theorem C13_symbols_cover :
    (∀ c ∈ Gen.elemClasses, c.named = true → c.cls ∈ C13_symbolClasses) ∧
    (∀ kv ∈ Gen.translatorMap, kv.1 ∈ C13_symbolClasses ∨ kv.1 ∈ C13_annotationClasses) ∧
    (∀ (π : Rat) (s : Sym) (nodes : List String), s.cls ∈ C13_annotationClasses →
      compOfSym π s nodes = .ok none) := by
  refine ⟨by decide, by decide, ?_⟩
  intro π s nodes hs
  have h2 : Gen.translators.lookup "none_translator" =
      some [{ guard := none, ctor := none, nodes := .pair, args := [] }] := by decide
  simp only [C13_annotationClasses, List.mem_cons, List.not_mem_nil, or_false] at hs
  unfold compOfSym
  rcases hs with hs | hs | hs <;> rw [hs]
  · have h1 : Gen.translatorMap.lookup "VoltageLabel" = some "none_translator" := by decide
    rw [h1]; simp only [h2]; rfl
  · have h1 : Gen.translatorMap.lookup "CurrentLabel" = some "none_translator" := by decide
    rw [h1]; simp only [h2]; rfl
  · have h1 : Gen.translatorMap.lookup "PowerLabel" = some "none_translator" := by decide
    rw [h1]; simp only [h2]; rfl

/-- `Ground()` written without a name: component id (and node id) `'0'` -/
theorem C13_sym_ground_default (π : Rat) (a b : Pt) (la lb : String) :
    elemComp π ⟨"Ground", [], a, b⟩ [la, lb] =
      .ok (some { type := "ground", id := "0", nodes := [la], value := [] }) :=
  sym_ground_default π a b la lb

end CC
