/-
  C11 (flow clause) — along the flow of the derived dynamics the stored energy cannot grow.

  `C11.lean` proves the RATE form: `xᵀ(W A + Aᵀ W)x ≤ 0` at every state (`C11_lyapunov`,
  `C11_model_lyapunov` for the `A` the executable model returns) and `d/dt ½xᵀWx = xᵀW A x`
  (`C11_energy_rate`, an algebraic identity).  This file integrates it, over ℝ (Mathlib analysis):

    C11_flow_energy_deriv      along `ẋ = A x`:  d/dt xᵀPx = xᵀ(P A + Aᵀ P)x   (a derivative now);
    C11_flow_antitone          rate form ⇒ `t ↦ x(t)ᵀ P x(t)` is antitone on every interval of times on
                               which `x` solves `ẋ = A x`;
    C11_flow_antitone_global   the same for solutions on all of ℝ;
    C11_flow_bounded           with `λ·xᵀx ≤ xᵀPx`, `λ > 0`:  x(t)ᵀx(t) ≤ x(t₀)ᵀPx(t₀)/λ, every
                               component `x_k(t)² ≤ …` for `t ≥ t₀`;
    C11_flow_forced            `ẋ = A x + B u(t)`: antitone on every interval of times with `u = 0`;
    C11_flow_after_sources     `u(t) = 0` for all `t ≥ t₁` ⇒ energy antitone on `[t₁, ∞)` and the state
                               bounded there by the energy at `t₁`;
    C11_flow_of_model_lyapunov takes the conclusion of `C11_model_lyapunov` VERBATIM as hypothesis;
    C11_model_flow             composed with the model: for the `A` (and `B`) that `stateSpaceMatrices`
                               returns over `K := ℝ`, RLC network without negative conductances, any
                               certificates: the stored energy `½ΣC v² + ½ΣL i²` of every solution of
                               `ẋ = A x + B u(t)` is non-increasing on every interval on which all
                               sources are zero;
    C11_model_flow_nodal       the same stated with `nodalStateSpaceModel`;
    C11_model_bounded          with positive C, L: every capacitor voltage / inductor current satisfies
                               `x_k(t)² ≤ 2·E(t₁)/w_k` after the sources have returned to zero;
    C11_flow_output_bounded / C11_model_output_bounded   every output row `C x` is bounded likewise
                               (rows of the model's `C` matrix: all nodal unknowns);
    C11_flow_exp               the flow exists: `t ↦ exp(tA) x₀` is a solution for every `x₀`, hence
                               `½ (e^{tA}x₀)ᵀ W (e^{tA}x₀)` is antitone in `t`.

  What this does NOT say: a "solution" is a function with the stated derivative — the EXACT flow of the
  differential equation.  `scipy.signal.lsim` (which `TransientSolution` calls and which evaluates
  `exp(A·Δt)` numerically on a sampling grid, with an interpolation of the input between samples) is
  not modelled; that the simulated samples follow this flow stays a trusted assumption of the
  sampled-energy oracle.  Binary64 rounding of `A` is outside as well (the theorems speak about the
  model's exact `A` over ℝ).
-/
import CC.Properties.C11
import CC.Proofs.StateFlow
import Mathlib.Tactic.Positivity

set_option linter.unusedSectionVars false

namespace CC
open Matrix Mx StateFlow

section abstract
variable {n q : Type} [Fintype n] [Fintype q] [DecidableEq n] [DecidableEq q]

/-- along `ẋ = A x` (derivative within the set of times `T`) the form `xᵀPx` HAS the derivative
`xᵀ(P A + Aᵀ P)x` — the analytic content behind `C11_energy_rate` (for symmetric `P = W` this is
`2·xᵀW(Ax)`). -/
theorem C11_flow_energy_deriv (A P : Matrix n n ℝ) {x : ℝ → n → ℝ} {T : Set ℝ} {t : ℝ}
    (hx : HasDerivWithinAt x (A *ᵥ x t) T t) :
    HasDerivWithinAt (fun s => x s ⬝ᵥ P *ᵥ x s) (x t ⬝ᵥ (P * A + Aᵀ * P) *ᵥ x t) T t :=
  hasDerivWithinAt_energy A P hx

/-- **Lyapunov flow lemma.**  `A`, `P` real square matrices with the rate inequality
`xᵀ(P A + Aᵀ P)x ≤ 0` for every `x` (the form in which `C11_lyapunov` / `C11_model_lyapunov` state it;
`P` need not be symmetric or definite here).  `T` a convex set of times (interval, half line, ℝ), `x` any
function with derivative `A x(t)` within `T` at every `t ∈ T` (one-sided at end points).  Then
`t ↦ x(t)ᵀ P x(t)` is antitone on `T`.  Speaks about exact solutions of the ODE only. -/
theorem C11_flow_antitone (A P : Matrix n n ℝ)
    (hlyap : ∀ x : n → ℝ, x ⬝ᵥ (P * A + Aᵀ * P) *ᵥ x ≤ 0)
    {T : Set ℝ} (hT : Convex ℝ T) {x : ℝ → n → ℝ}
    (hx : ∀ t ∈ T, HasDerivWithinAt x (A *ᵥ x t) T t) :
    AntitoneOn (fun t => x t ⬝ᵥ P *ᵥ x t) T :=
  energy_antitoneOn A P hlyap hT hx

/-- solutions on all of ℝ: the energy is antitone -/
theorem C11_flow_antitone_global (A P : Matrix n n ℝ)
    (hlyap : ∀ x : n → ℝ, x ⬝ᵥ (P * A + Aᵀ * P) *ᵥ x ≤ 0)
    {x : ℝ → n → ℝ} (hx : ∀ t, HasDerivAt x (A *ᵥ x t) t) :
    Antitone fun t => x t ⬝ᵥ P *ᵥ x t :=
  antitoneOn_univ.1 <| energy_antitoneOn A P hlyap convex_univ fun t _ => (hx t).hasDerivWithinAt

/-- **bounded response.**  If moreover `λ·xᵀx ≤ xᵀPx` with `λ > 0` (`P` positive definite), a solution on
`T` satisfies `x(t)ᵀx(t) ≤ x(t₀)ᵀPx(t₀)/λ`, and so does the square of every component, for all
`t₀ ≤ t` in `T`. -/
theorem C11_flow_bounded (A P : Matrix n n ℝ)
    (hlyap : ∀ x : n → ℝ, x ⬝ᵥ (P * A + Aᵀ * P) *ᵥ x ≤ 0)
    {lam : ℝ} (hlam : 0 < lam) (hP : ∀ x : n → ℝ, lam * (x ⬝ᵥ x) ≤ x ⬝ᵥ P *ᵥ x)
    {T : Set ℝ} (hT : Convex ℝ T) {x : ℝ → n → ℝ}
    (hx : ∀ t ∈ T, HasDerivWithinAt x (A *ᵥ x t) T t)
    {t0 t : ℝ} (ht0 : t0 ∈ T) (ht : t ∈ T) (h : t0 ≤ t) :
    x t ⬝ᵥ x t ≤ (x t0 ⬝ᵥ P *ᵥ x t0) / lam ∧ ∀ k, x t k ^ 2 ≤ (x t0 ⬝ᵥ P *ᵥ x t0) / lam := by
  have hb := bounded_of_antitoneOn P hlam hP (energy_antitoneOn A P hlyap hT hx) ht0 ht h
  exact ⟨hb, fun k => (sq_le_dot_self (x t) k).trans hb⟩

/-- **forced system** `ẋ = A x + B u(t)`: on a convex set of times on which the input is zero the
energy is antitone -/
theorem C11_flow_forced (A P : Matrix n n ℝ) (B : Matrix n q ℝ)
    (hlyap : ∀ x : n → ℝ, x ⬝ᵥ (P * A + Aᵀ * P) *ᵥ x ≤ 0)
    {T : Set ℝ} (hT : Convex ℝ T) {x : ℝ → n → ℝ} {u : ℝ → q → ℝ}
    (hx : ∀ t ∈ T, HasDerivWithinAt x (A *ᵥ x t + B *ᵥ u t) T t)
    (hu : ∀ t ∈ T, u t = 0) :
    AntitoneOn (fun t => x t ⬝ᵥ P *ᵥ x t) T :=
  energy_antitoneOn_forced A P B hlyap hT hx hu

/-- **after all sources have returned to zero.**  `x` solves `ẋ = A x + B u(t)` at all times (any input
before `t₁`), `u(t) = 0` for `t ≥ t₁`: the energy is antitone on `[t₁, ∞)`; with `λ·xᵀx ≤ xᵀPx`,
`λ > 0`, the response stays bounded by the energy at `t₁`. -/
theorem C11_flow_after_sources (A P : Matrix n n ℝ) (B : Matrix n q ℝ)
    (hlyap : ∀ x : n → ℝ, x ⬝ᵥ (P * A + Aᵀ * P) *ᵥ x ≤ 0)
    {x : ℝ → n → ℝ} {u : ℝ → q → ℝ} {t1 : ℝ}
    (hx : ∀ t, HasDerivAt x (A *ᵥ x t + B *ᵥ u t) t) (hu : ∀ t, t1 ≤ t → u t = 0) :
    AntitoneOn (fun t => x t ⬝ᵥ P *ᵥ x t) (Set.Ici t1)
    ∧ ∀ lam : ℝ, 0 < lam → (∀ x : n → ℝ, lam * (x ⬝ᵥ x) ≤ x ⬝ᵥ P *ᵥ x) →
        ∀ t, t1 ≤ t → x t ⬝ᵥ x t ≤ (x t1 ⬝ᵥ P *ᵥ x t1) / lam := by
  have h := energy_antitoneOn_forced A P B hlyap (convex_Ici t1)
    (fun t _ => (hx t).hasDerivWithinAt) (fun t ht => hu t ht)
  exact ⟨h, fun lam hlam hP t ht => bounded_of_antitoneOn P hlam hP h Set.self_mem_Ici ht ht⟩

/-- the stored energy `½ Σ_k w_k x_k²` is `½ xᵀ diag(w) x` -/
theorem C11_stored_eq (w x : n → ℝ) : stored w x = (1 / 2) * (x ⬝ᵥ diagonal w *ᵥ x) := stored_eq w x

/-- **the flow exists and the energy decreases along it** ("along exp(tA)").  For every initial state `x₀`,
`x(t) = exp(tA)·x₀` (Mathlib's matrix exponential, Banach-algebra `NormedSpace.exp`) solves `ẋ = A x`,
`x(0) = x₀`, and under the rate inequality for `W = diag(w)` the stored energy `½ Σ_k w_k x_k(t)²` is
antitone in `t` on all of ℝ. -/
theorem C11_flow_exp (A : Matrix n n ℝ) (w : n → ℝ)
    (hlyap : ∀ x : n → ℝ, x ⬝ᵥ (diagonal w * A + Aᵀ * diagonal w) *ᵥ x ≤ 0) (x0 : n → ℝ) :
    (∀ t : ℝ, HasDerivAt (fun s : ℝ => NormedSpace.exp (s • A) *ᵥ x0) (A *ᵥ (NormedSpace.exp (t • A) *ᵥ x0)) t)
    ∧ NormedSpace.exp ((0 : ℝ) • A) *ᵥ x0 = x0
    ∧ Antitone fun t : ℝ => (1 / 2) * ∑ k, w k * (NormedSpace.exp (t • A) *ᵥ x0) k ^ 2 :=
  ⟨hasDerivAt_exp_mulVec A x0, exp_zero_mulVec A x0, stored_exp_antitone A w hlyap x0⟩

/-- Cauchy–Schwarz for one output row -/
theorem row_sq_le {r : Type} (Cm : Matrix r n ℝ) (x : n → ℝ) (i : r) :
    (Cm *ᵥ x) i ^ 2 ≤ (∑ j, Cm i j ^ 2) * (x ⬝ᵥ x) := by
  have h := Finset.sum_mul_sq_le_sq_mul_sq Finset.univ (fun j => Cm i j) x
  have e : x ⬝ᵥ x = ∑ j, x j ^ 2 := by
    unfold dotProduct; exact Finset.sum_congr rfl fun j _ => (pow_two _).symm
  rw [e]
  exact h

/-- `λ ≤ w_k` for all `k` ⇒ `λ·xᵀx ≤ xᵀ diag(w) x` -/
theorem diag_lower (w : n → ℝ) {lam : ℝ} (hw : ∀ k, lam ≤ w k) (x : n → ℝ) :
    lam * (x ⬝ᵥ x) ≤ x ⬝ᵥ diagonal w *ᵥ x := by
  unfold dotProduct
  rw [Finset.mul_sum]
  apply Finset.sum_le_sum
  intro k _
  rw [mulVec_diagonal]
  nlinarith [mul_self_nonneg (x k), hw k]

/-- **bounded outputs.**  Every output `y = Cm·x(t)` of a solution of `ẋ = A x` on `T` (the potentials,
voltages and currents `C x + D u` read off the state after the input has returned to zero) satisfies
`y_i(t)² ≤ (Σ_j Cm_ij²)·x(t₀)ᵀPx(t₀)/λ` for `t₀ ≤ t` in `T`. -/
theorem C11_flow_output_bounded {r : Type} [Fintype r] (A P : Matrix n n ℝ) (Cm : Matrix r n ℝ)
    (hlyap : ∀ x : n → ℝ, x ⬝ᵥ (P * A + Aᵀ * P) *ᵥ x ≤ 0)
    {lam : ℝ} (hlam : 0 < lam) (hP : ∀ x : n → ℝ, lam * (x ⬝ᵥ x) ≤ x ⬝ᵥ P *ᵥ x)
    {T : Set ℝ} (hT : Convex ℝ T) {x : ℝ → n → ℝ}
    (hx : ∀ t ∈ T, HasDerivWithinAt x (A *ᵥ x t) T t)
    {t0 t : ℝ} (ht0 : t0 ∈ T) (ht : t ∈ T) (h : t0 ≤ t) (i : r) :
    (Cm *ᵥ x t) i ^ 2 ≤ (∑ j, Cm i j ^ 2) * ((x t0 ⬝ᵥ P *ᵥ x t0) / lam) :=
  (row_sq_le Cm (x t) i).trans <|
    mul_le_mul_of_nonneg_left (C11_flow_bounded A P hlyap hlam hP hT hx ht0 ht h).1
      (Finset.sum_nonneg fun _ _ => sq_nonneg _)

end abstract

/-! ### non-vacuity of the abstract hypotheses -/

/-- series R–L–C loop with `C = 2`, `L = 1/2`, `R = 1` (states `(v_C, i_L)`):
`A = [[0, 1/C], [−1/L, −R/L]]`, `W = diag(C, L)`: the rate inequality holds (`xᵀ(WA+AᵀW)x = −2R·i_L²`),
`W ≥ ½·1`, and through every `x₀` there is a solution of `ẋ = A x` — the hypotheses of
`C11_flow_antitone`, `C11_flow_antitone_global`, `C11_flow_bounded`, `C11_flow_exp` -/
example :
    let A : Matrix (Fin 2) (Fin 2) ℝ := !![0, 1 / 2; -2, -2]
    let w : Fin 2 → ℝ := ![2, 1 / 2]
    (∀ x : Fin 2 → ℝ, x ⬝ᵥ (diagonal w * A + Aᵀ * diagonal w) *ᵥ x ≤ 0)
    ∧ (∀ x : Fin 2 → ℝ, (1 / 2) * (x ⬝ᵥ x) ≤ x ⬝ᵥ diagonal w *ᵥ x)
    ∧ ∀ x0 : Fin 2 → ℝ, ∃ x : ℝ → Fin 2 → ℝ, x 0 = x0 ∧ ∀ t, HasDerivAt x (A *ᵥ x t) t := by
  intro A w
  refine ⟨?_, ?_, ?_⟩
  · intro x
    simp [A, w, dotProduct, Matrix.mulVec, Matrix.mul_apply, Matrix.diagonal, Fin.sum_univ_succ]
    nlinarith [sq_nonneg (x 1)]
  · intro x
    simp [w, dotProduct, Matrix.mulVec, Matrix.diagonal, Fin.sum_univ_succ]
    nlinarith [sq_nonneg (x 0), sq_nonneg (x 1)]
  · intro x0
    exact ⟨fun t => NormedSpace.exp (t • A) *ᵥ x0, exp_zero_mulVec A x0, hasDerivAt_exp_mulVec A x0⟩

/-- the hypotheses of `C11_flow_forced` / `C11_flow_after_sources` with an input that is NOT zero before
`t₁ = 0`: on `T = [0, ∞)` the function `exp(tA)x₀` solves `ẋ = A x + B u(t)` within `T` for the input
`u(t) = 1` (`t < 0`), `0` (`t ≥ 0`) -/
example :
    let A : Matrix (Fin 2) (Fin 2) ℝ := !![0, 1 / 2; -2, -2]
    let B : Matrix (Fin 2) (Fin 1) ℝ := !![0; 2]
    let u : ℝ → Fin 1 → ℝ := fun t => if t < 0 then fun _ => 1 else 0
    ∀ x0 : Fin 2 → ℝ, ∃ x : ℝ → Fin 2 → ℝ, x 0 = x0 ∧ u (-1) ≠ 0
      ∧ (∀ t ∈ Set.Ici (0 : ℝ), HasDerivWithinAt x (A *ᵥ x t + B *ᵥ u t) (Set.Ici 0) t)
      ∧ ∀ t ∈ Set.Ici (0 : ℝ), u t = 0 := by
  intro A B u x0
  have hu : ∀ t ∈ Set.Ici (0 : ℝ), u t = 0 := fun t ht => if_neg (not_lt.mpr ht)
  refine ⟨fun t => NormedSpace.exp (t • A) *ᵥ x0, exp_zero_mulVec A x0, ?_, ?_, hu⟩
  · intro h
    have := congrFun h 0
    simp [u] at this
  · intro t ht
    rw [hu t ht, mulVec_zero, add_zero]
    exact (hasDerivAt_exp_mulVec A x0 t).hasDerivWithinAt


/-! ### composition with the executable model (`K := ℝ`) -/

section model
variable {L : Type} [DecidableEq L] [LabelOrd L]

/-- **the chain link**: the hypothesis `hlyap` is the conclusion of `C11_model_lyapunov` (for `F := ℝ`)
VERBATIM, quantified over the state `x`.  Then the stored energy `½ Σ_k w_k x_k(t)²`,
`w = (C…, L…)` in dictionary order, of every solution of `ẋ = A x + B u(t)` (`A`, `B` the model's matrices)
is antitone on every convex set of times on which the input vanishes. -/
theorem C11_flow_of_model_lyapunov {N : Net L ℝ} {cvals lvals : ValDict ℝ} {m : SSMats ℝ}
    (hlyap : ∀ x : Fin (ssNStates N cvals lvals) → ℝ,
      let W : Matrix (Fin (ssNStates N cvals lvals)) (Fin (ssNStates N cvals lvals)) ℝ :=
        diagonal fun k => (cvals.vals ++ lvals.vals).getD k 0
      let A := toM (ssNStates N cvals lvals) (ssNStates N cvals lvals) m.A
      x ⬝ᵥ (W * A + Aᵀ * W) *ᵥ x ≤ 0)
    {T : Set ℝ} (hT : Convex ℝ T) {x : ℝ → Fin (ssNStates N cvals lvals) → ℝ}
    {u : ℝ → Fin (ssNInputs N lvals) → ℝ}
    (hx : ∀ t ∈ T, HasDerivWithinAt x
      (toM (ssNStates N cvals lvals) (ssNStates N cvals lvals) m.A *ᵥ x t
        + toM (ssNStates N cvals lvals) (ssNInputs N lvals) m.B *ᵥ u t) T t)
    (hu : ∀ t ∈ T, u t = 0) :
    AntitoneOn (fun t => (1 / 2) * ∑ k : Fin (ssNStates N cvals lvals), (cvals.vals ++ lvals.vals).getD k 0 * x t k ^ 2) T := by
  have hx' : ∀ t ∈ T, HasDerivWithinAt x
      (toM (ssNStates N cvals lvals) (ssNStates N cvals lvals) m.A *ᵥ x t) T t := by
    intro t ht
    have := hx t ht
    rwa [hu t ht, mulVec_zero, add_zero] at this
  exact stored_antitoneOn _ (fun k : Fin (ssNStates N cvals lvals) => (cvals.vals ++ lvals.vals).getD k 0) hlyap hT hx'

/-- **C11 flow clause for the executable model.**  `N` the `w = 0` network (over ℝ) of an RLC + ideal-source
circuit without negative conductances (`RLC`, `hpos`), `m` the matrices `stateSpaceMatrices` returns for
any certificates (`ModelCert`: `Ã·Ainv = 1`, `(DQᵀAinvDQ)·S = 1`, no zero C / L) — the hypotheses of
`C11_model_lyapunov`, nothing more.  For every input `u` and every function `x` that solves
`ẋ = A x + B u(t)` on a convex set of times `T` on which all sources are zero, the stored energy
`½ Σ C_k v_k² + ½ Σ L_k i_k²` (`= ½ Σ_k w_k x_k²`, states in dictionary order) is non-increasing on `T`.
Exact flow of the ODE; `lsim` is not modelled. -/
theorem C11_model_flow {N : Net L ℝ} {cvals lvals : ValDict ℝ} {Ainv S Delta : List (List ℝ)} {m : SSMats ℝ}
    (h : RLC N cvals lvals) (hD : ssDelta N cvals = .ok Delta)
    (hm : stateSpaceMatrices N cvals lvals Ainv S = .ok m)
    (hc : ModelCert id N cvals lvals Ainv S Delta)
    (hpos : ∀ b ∈ N.branches, 0 ≤ b.e.Yfin)
    {T : Set ℝ} (hT : Convex ℝ T) {x : ℝ → Fin (ssNStates N cvals lvals) → ℝ}
    {u : ℝ → Fin (ssNInputs N lvals) → ℝ}
    (hx : ∀ t ∈ T, HasDerivWithinAt x
      (toM (ssNStates N cvals lvals) (ssNStates N cvals lvals) m.A *ᵥ x t
        + toM (ssNStates N cvals lvals) (ssNInputs N lvals) m.B *ᵥ u t) T t)
    (hu : ∀ t ∈ T, u t = 0) :
    AntitoneOn (fun t => (1 / 2) * ∑ k : Fin (ssNStates N cvals lvals), (cvals.vals ++ lvals.vals).getD k 0 * x t k ^ 2) T :=
  C11_flow_of_model_lyapunov (fun x => C11_model_lyapunov h hD hm hc hpos x) hT hx hu

/-- a successful `nodalStateSpaceModel` carries the matrices of `stateSpaceMatrices` -/
theorem nodalStateSpaceModel_mats {K : Type} [Field K] [DecidableEq K] {N : Net L K} {cvals lvals : ValDict K}
    {Ainv S : List (List K)} {M : NSSM L K} (hM : nodalStateSpaceModel N cvals lvals Ainv S = .ok M) :
    stateSpaceMatrices N cvals lvals Ainv S = .ok M.mats := by
  unfold nodalStateSpaceModel at hM
  cases hm : stateSpaceMatrices N cvals lvals Ainv S with
  | error e => rw [hm] at hM; cases hM
  | ok m =>
    rw [hm] at hM
    simp only [bind, Except.bind, pure, Except.pure] at hM
    cases hM; rfl

/-- `C11_model_flow` stated for the object `nodal_state_space_model` returns (`M.mats.A`, `M.mats.B`) -/
theorem C11_model_flow_nodal {N : Net L ℝ} {cvals lvals : ValDict ℝ} {Ainv S Delta : List (List ℝ)} {M : NSSM L ℝ}
    (h : RLC N cvals lvals) (hD : ssDelta N cvals = .ok Delta)
    (hM : nodalStateSpaceModel N cvals lvals Ainv S = .ok M)
    (hc : ModelCert id N cvals lvals Ainv S Delta)
    (hpos : ∀ b ∈ N.branches, 0 ≤ b.e.Yfin)
    {T : Set ℝ} (hT : Convex ℝ T) {x : ℝ → Fin (ssNStates N cvals lvals) → ℝ}
    {u : ℝ → Fin (ssNInputs N lvals) → ℝ}
    (hx : ∀ t ∈ T, HasDerivWithinAt x
      (toM (ssNStates N cvals lvals) (ssNStates N cvals lvals) M.mats.A *ᵥ x t
        + toM (ssNStates N cvals lvals) (ssNInputs N lvals) M.mats.B *ᵥ u t) T t)
    (hu : ∀ t ∈ T, u t = 0) :
    AntitoneOn (fun t => (1 / 2) * ∑ k : Fin (ssNStates N cvals lvals), (cvals.vals ++ lvals.vals).getD k 0 * x t k ^ 2) T :=
  C11_model_flow h hD (nodalStateSpaceModel_mats hM) hc hpos hT hx hu

/-- **bounded response of the model after all sources have returned to zero.**  Hypotheses of
`C11_model_eig` (those of `C11_model_lyapunov` and positive C, L).  `x` solves `ẋ = A x + B u(t)` at all
times, with any input before `t₁` and `u(t) = 0` for `t ≥ t₁`.  Then on `[t₁, ∞)` the stored energy
`E(t) = ½ΣC v² + ½ΣL i²` is non-increasing and every capacitor voltage / inductor current satisfies
`x_k(t)² ≤ 2·E(t₁)/w_k`. -/
theorem C11_model_bounded {N : Net L ℝ} {cvals lvals : ValDict ℝ} {Ainv S Delta : List (List ℝ)} {m : SSMats ℝ}
    (h : RLC N cvals lvals) (hD : ssDelta N cvals = .ok Delta)
    (hm : stateSpaceMatrices N cvals lvals Ainv S = .ok m)
    (hc : ModelCert id N cvals lvals Ainv S Delta)
    (hpos : ∀ b ∈ N.branches, 0 ≤ b.e.Yfin)
    (hval : ∀ k : Fin (ssNStates N cvals lvals), 0 < (cvals.vals ++ lvals.vals).getD k 0)
    {x : ℝ → Fin (ssNStates N cvals lvals) → ℝ} {u : ℝ → Fin (ssNInputs N lvals) → ℝ} {t1 : ℝ}
    (hx : ∀ t, HasDerivAt x
      (toM (ssNStates N cvals lvals) (ssNStates N cvals lvals) m.A *ᵥ x t
        + toM (ssNStates N cvals lvals) (ssNInputs N lvals) m.B *ᵥ u t) t)
    (hu : ∀ t, t1 ≤ t → u t = 0) :
    let E := fun t => (1 / 2) * ∑ k : Fin (ssNStates N cvals lvals), (cvals.vals ++ lvals.vals).getD k 0 * x t k ^ 2
    AntitoneOn E (Set.Ici t1)
    ∧ ∀ t, t1 ≤ t → ∀ k : Fin (ssNStates N cvals lvals),
        x t k ^ 2 ≤ 2 * E t1 / (cvals.vals ++ lvals.vals).getD k 0 := by
  intro E
  have ha : AntitoneOn E (Set.Ici t1) :=
    C11_model_flow h hD hm hc hpos (convex_Ici t1) (fun t _ => (hx t).hasDerivWithinAt) (fun t ht => hu t ht)
  exact ⟨ha, fun t ht k =>
    state_bounded (w := fun k : Fin (ssNStates N cvals lvals) => (cvals.vals ++ lvals.vals).getD k 0)
      hval ha Set.self_mem_Ici ht ht k⟩

/-- **C11 flow clause along `exp(tA)` for the model**: for every initial state `x₀` the stored energy of
`exp(tA)·x₀`, `A` the model's state matrix, is antitone in `t` (hypotheses of `C11_model_lyapunov`). -/
theorem C11_model_flow_exp {N : Net L ℝ} {cvals lvals : ValDict ℝ} {Ainv S Delta : List (List ℝ)} {m : SSMats ℝ}
    (h : RLC N cvals lvals) (hD : ssDelta N cvals = .ok Delta)
    (hm : stateSpaceMatrices N cvals lvals Ainv S = .ok m)
    (hc : ModelCert id N cvals lvals Ainv S Delta)
    (hpos : ∀ b ∈ N.branches, 0 ≤ b.e.Yfin) (x0 : Fin (ssNStates N cvals lvals) → ℝ) :
    Antitone fun t : ℝ => (1 / 2) * ∑ k : Fin (ssNStates N cvals lvals), (cvals.vals ++ lvals.vals).getD k 0
      * (NormedSpace.exp (t • toM (ssNStates N cvals lvals) (ssNStates N cvals lvals) m.A) *ᵥ x0) k ^ 2 :=
  stored_exp_antitone _ (fun k : Fin (ssNStates N cvals lvals) => (cvals.vals ++ lvals.vals).getD k 0)
    (fun x => C11_model_lyapunov h hD hm hc hpos x) x0

/-- **bounded outputs of the model after all sources have returned to zero**: with `0 < λ ≤` every C, L,
every output `y = C x + D u` of the model (`u(t) = 0` for `t ≥ t₁`) satisfies
`y_i(t)² ≤ (Σ_j C_ij²)·2E(t₁)/λ` for `t ≥ t₁`. -/
theorem C11_model_output_bounded {N : Net L ℝ} {cvals lvals : ValDict ℝ} {Ainv S Delta : List (List ℝ)} {m : SSMats ℝ}
    (h : RLC N cvals lvals) (hD : ssDelta N cvals = .ok Delta)
    (hm : stateSpaceMatrices N cvals lvals Ainv S = .ok m)
    (hc : ModelCert id N cvals lvals Ainv S Delta)
    (hpos : ∀ b ∈ N.branches, 0 ≤ b.e.Yfin)
    {lam : ℝ} (hlam : 0 < lam)
    (hval : ∀ k : Fin (ssNStates N cvals lvals), lam ≤ (cvals.vals ++ lvals.vals).getD k 0)
    {x : ℝ → Fin (ssNStates N cvals lvals) → ℝ} {u : ℝ → Fin (ssNInputs N lvals) → ℝ} {t1 : ℝ}
    (hx : ∀ t, HasDerivAt x
      (toM (ssNStates N cvals lvals) (ssNStates N cvals lvals) m.A *ᵥ x t
        + toM (ssNStates N cvals lvals) (ssNInputs N lvals) m.B *ᵥ u t) t)
    (hu : ∀ t, t1 ≤ t → u t = 0) (t : ℝ) (ht : t1 ≤ t) (i : Fin N.nY) :
    let E := fun t => (1 / 2) * ∑ k : Fin (ssNStates N cvals lvals), (cvals.vals ++ lvals.vals).getD k 0 * x t k ^ 2
    let Cm := toM N.nY (ssNStates N cvals lvals) m.C
    let Dm := toM N.nY (ssNInputs N lvals) m.D
    (Cm *ᵥ x t + Dm *ᵥ u t) i ^ 2 ≤ (∑ j, Cm i j ^ 2) * (2 * E t1 / lam) := by
  intro E Cm Dm
  rw [hu t ht, mulVec_zero, add_zero]
  set w : Fin (ssNStates N cvals lvals) → ℝ := fun k => (cvals.vals ++ lvals.vals).getD k 0 with hw
  have hx' : ∀ s ∈ Set.Ici t1, HasDerivWithinAt x
      (toM (ssNStates N cvals lvals) (ssNStates N cvals lvals) m.A *ᵥ x s) (Set.Ici t1) s := by
    intro s hs
    have := (hx s).hasDerivWithinAt (s := Set.Ici t1)
    rwa [hu s hs, mulVec_zero, add_zero] at this
  have hb := C11_flow_output_bounded _ (diagonal w) Cm (fun x => C11_model_lyapunov h hD hm hc hpos x) hlam
    (diag_lower w hval) (convex_Ici t1) hx' Set.self_mem_Ici ht ht i
  have e : x t1 ⬝ᵥ diagonal w *ᵥ x t1 = 2 * E t1 := by
    have := stored_eq w (x t1)
    simp only [stored] at this
    simp only [E]
    linarith
  rwa [e] at hb


end model


/-! ### non-vacuity of the model-level hypotheses over ℝ

the series circuit `V(1,0) – R=1 (1,2) – C=1 (2,0)` of `C10.lean` (`netRC`, there over ℚ), as a network
over ℝ with the two inverses the driver finds: it meets `RLC`, `ModelCert`, `hpos`, `hval`, and
`stateSpaceMatrices` succeeds — every hypothesis of `C11_model_flow`, `C11_model_flow_nodal`,
`C11_model_bounded`, `C11_model_flow_exp`; solutions exist by `C11_flow_exp`. -/

def netRCr : Net String ℝ := { zero := "0", branches := [
  { n1 := "1", n2 := "0", id := "V", e := .norton 0 1 },
  { n1 := "1", n2 := "2", id := "R", e := .norton 1 0 },
  { n1 := "2", n2 := "0", id := "C", e := .thevenin 0 0 }] }

theorem netRCr_nodes : netRCr.nodes = ["1", "2"] := by
  simp [netRCr, Net.nodes, Net.nodeLabels, dedupL, sortL, List.mergeSort, LabelOrd.le, List.MergeSort.Internal.splitInTwo]
theorem netRCr_vsIds : netRCr.vsIds = ["V"] := by
  simp [netRCr, Net.vsIds, Net.vs, Elem.isIdealVS, sortL]
theorem netRCr_csIds : netRCr.csIds = [] := by
  simp [netRCr, Net.csIds, Net.cs, Elem.isCS, Elem.Ival, sortL]
theorem netRCr_At : ssAtilde id netRCr = [[1, -1, 1], [-1, 1, 0], [1, 0, 0]] := by
  simp only [ssAtilde, Net.mnaA, Net.vsSorted, Net.byIds, netRCr_nodes, netRCr_vsIds]
  simp [Net.get?, Net.Yentry, Net.nonVS, Branch.dir, Elem.isIdealVS, Elem.Yfin, netRCr]
theorem netRCr_getC : netRCr.get? "C" = some { n1 := "2", n2 := "0", id := "C", e := .thevenin 0 0 } := by
  simp [Net.get?, netRCr]
theorem netRCr_Delta : ssDelta netRCr [("C", 1)] = .ok [[0, 1, 0]] := by
  simp only [ssDelta, ValDict.keys, List.map_cons, List.map_nil, List.mapM_cons, List.mapM_nil, netRCr_nodes,
    netRCr_getC, ssDeltaRow, Net.nV, netRCr_vsIds]
  simp [bind, Except.bind, pure, Except.pure]
theorem netRCr_colsL : ssColsL netRCr [] = [] := by
  simp [ssColsL, ValDict.keys]
theorem netRCr_colsS : ssColsS netRCr [] = [0] := by
  simp [ssColsS, netRCr_csIds, netRCr_vsIds, Net.nC, ValDict.has, ValDict.keys, idxOf?]
theorem netRCr_nY : netRCr.nY = 3 := by simp [Net.nY, Net.nN, Net.nV, netRCr_nodes, netRCr_vsIds]
theorem netRCr_ns : ssNStates netRCr [("C", 1)] [] = 1 := by simp [ssNStates, netRCr_colsL]

def rcAinvR : List (List ℝ) := [[0, 0, 1], [0, 1, 1], [1, 1, 0]]
def rcSR : List (List ℝ) := [[1]]

theorem netRCr_DQ : ssDQ netRCr [("C", 1)] [] [[0, 1, 0]] = [[0], [1], [0]] := by
  simp only [ssDQ, netRCr_nY, netRCr_colsL, ssQL]
  simp [Mx.hstack, Mx.transpose, Mx.ofFn, Mx.get, Mx.selectCols, List.range_succ]

theorem netRCr_cert : ModelCert id netRCr [("C", 1)] [] rcAinvR rcSR [[0, 1, 0]] where
  hA := by
    apply toM_mul_eq_one
    rw [netRCr_nY, netRCr_At]
    simp [Mx.mul, Mx.one, Mx.ofFn, Mx.sumTo, Mx.get, rcAinvR, List.range_succ]
  hre := rfl
  hS := by
    rw [netRCr_nY, netRCr_ns, netRCr_DQ, ← toM_transpose, ← toM_mul, ← toM_mul]
    apply toM_mul_eq_one
    simp [Mx.mul, Mx.one, Mx.ofFn, Mx.sumTo, Mx.get, Mx.transpose, rcAinvR, rcSR, List.range_succ]
  hnz := by simp [ssLambda, ValDict.vals]

theorem netRCr_ssm : ∃ m, stateSpaceMatrices netRCr [("C", 1)] [] rcAinvR rcSR = .ok m := by
  simp [stateSpaceMatrices, netRCr_Delta, netRCr_colsL, bind, Except.bind, pure, Except.pure]

theorem netRCr_rlc : RLC netRCr [("C", 1)] [] where
  wf := { ids_nodup := by simp [Net.ids, netRCr]
          zero_mem := by
            simp [netRCr, Net.nodeLabels, dedupL, sortL, List.mergeSort, LabelOrd.le,
              List.MergeSort.Internal.splitInTwo]
          no_self_loop := by intro b hb; simp [netRCr] at hb; rcases hb with rfl | rfl | rfl <;> simp }
  capOpen := by intro b hb hk; simp [netRCr] at hb; rcases hb with rfl | rfl | rfl <;> simp [ValDict.keys] at hk ⊢
  indShort := by intro b _ hk; simp [ValDict.keys] at hk
  capMem := by simp [ValDict.keys, Net.ids, netRCr]
  indMem := by simp [ValDict.keys]
  capNodup := by simp [ValDict.keys]
  indNodup := by simp [ValDict.keys]
  notLossy := by intro b hb; simp [netRCr] at hb; rcases hb with rfl | rfl | rfl <;> simp [Elem.isLossy, Elem.kind]

theorem netRCr_pos : ∀ b ∈ netRCr.branches, 0 ≤ b.e.Yfin := by
  intro b hb; simp [netRCr] at hb; rcases hb with rfl | rfl | rfl <;> simp [Elem.Yfin]

theorem netRCr_val : ∀ k : Fin (ssNStates netRCr [("C", 1)] []), 0 < (ValDict.vals [("C", (1 : ℝ))] ++ ValDict.vals []).getD k 0 := by
  rw [netRCr_ns]; intro k; fin_cases k; simp [ValDict.vals]

/-- `hval` of `C11_model_output_bounded` with `λ = 1` -/
example : ∀ k : Fin (ssNStates netRCr [("C", 1)] []), (1 : ℝ) ≤ (ValDict.vals [("C", (1 : ℝ))] ++ ValDict.vals []).getD k 0 := by
  rw [netRCr_ns]; intro k; fin_cases k; simp [ValDict.vals]

/-- the theorems applied: the stored energy of the RC circuit over ℝ decreases along `exp(tA)` -/
example : ∃ m, stateSpaceMatrices netRCr [("C", 1)] [] rcAinvR rcSR = .ok m ∧
    ∀ x0, Antitone fun t : ℝ => (1 / 2) * ∑ k : Fin (ssNStates netRCr [("C", 1)] []),
      (ValDict.vals [("C", (1 : ℝ))] ++ ValDict.vals []).getD k 0
        * (NormedSpace.exp (t • toM (ssNStates netRCr [("C", 1)] []) (ssNStates netRCr [("C", 1)] []) m.A) *ᵥ x0) k ^ 2 := by
  obtain ⟨m, hm⟩ := netRCr_ssm
  exact ⟨m, hm, fun x0 => C11_model_flow_exp netRCr_rlc netRCr_Delta hm netRCr_cert netRCr_pos x0⟩

end CC
