/-
  C14 (round 5) — polar, time-function, power and zero annotations: the C18 round-5 theorems
  (`CC.Properties.C18Polar`) transferred to the annotation model `CC.Model.Annot` over the generated adapter table.

  The runtime parameters `Derived` (`absV = abs(signed value)`, `angle = np.angle(·, deg)`, `phase`, `phaseDeg`, `w`,
  `wHz`) are computed by libm / numpy in the code and handed to the model: the polar and (for `w ≠ 0`) the
  time-function texts of the model depend on the solution value `q` *only through them*.  The theorems below say what
  the label text denotes in terms of these numbers; that they are the modulus / argument of the signed solution value
  is covered by the correspondence and the oracle, not by these theorems.
-/
import CC.Properties.C14
import CC.Properties.C18Polar

namespace CC
open CC.Fmt CC.Annot CC.Gen.Annot

/-- the adapter of a kind / quantity with its printer and unit (from `C14_adapters`, `C14_denotes_value`) -/
theorem adapter_facts (k : Kind) (qt : Quantity) (hk : ¬ (k = .real ∧ qt = .power)) (reverse : Bool) (q : GQ) :
    ∃ a, findAdapter k qt = some a ∧ a.printer = specPrinter k qt ∧ a.unit = some (specUnit qt)
      ∧ signedValue a reverse q = specValue qt reverse q := by
  obtain ⟨a, ha, _, hs, hpr, hu⟩ := C14_adapters k qt
  obtain ⟨a', ha', hv⟩ := C14_denotes_value k qt reverse q
  have haa : a' = a := by rw [ha] at ha'; exact (Option.some.inj ha').symm
  subst haa
  refine ⟨a', ha, hpr, ?_, hv⟩
  rcases hu with h | ⟨h, _, _⟩
  · exact h
  · exfalso
    rw [hpr] at h
    cases k <;> cases qt <;> first | exact hk ⟨rfl, rfl⟩ | exact absurd h (by decide)

theorem specUnit_ok (qt : Quantity) : UnitOK (specUnit qt) ∧ '∠' ∉ specUnit qt := by
  cases qt <;> exact ⟨by decide, by decide⟩

/-! ## polar annotations -/

/-- **C14_denotes_polar** — a complex annotation in polar form (`polar=True`), every quantity, both directions: the
label is the real-path text of the magnitude `d.absV` in the unit of the quantity followed by the generated polar
suffix; the polar reader splits it into a magnitude that satisfies every clause of `RealOK` w.r.t. `d.absV` (half a unit
of the `p`-th digit, engineering form, range `u…k`) and — exactly when `|d.angle|` exceeds `10^-2`° / `10^-5` rad — an
angle within `0.5·10^-2`° / `0.5·10^-4` rad of `d.angle`, never of the opposite sign.  `d.absV`, `d.angle` are the
modulus and argument of the *signed* value as computed at run time (parameters). -/
theorem C14_denotes_polar (qt : Quantity) (reverse : Bool) (q : GQ) (d : Derived) (o : Opts)
    (hpol : o.polar = true) (hp : 1 ≤ o.precision) (habs : InDomain d.absV o.precision) :
    ∃ (s : List Char) (t : Text), annotText .complex qt reverse q d o = some s
      ∧ s = printAbs d.absV (specUnit qt) o.precision ++ polarSuffix o.deg d.angle
      ∧ realFailures d.absV o.precision 3 (some t) = []
      ∧ (|d.angle| ≤ polarCut o.deg → parsePolar (specUnit qt) s = some (t, none, false))
      ∧ (¬ |d.angle| ≤ polarCut o.deg →
          ∃ a : ℚ, parsePolar (specUnit qt) s = some (t, some a, o.deg)
            ∧ |a - d.angle| ≤ (if o.deg then 1 / 200 else 1 / 20000)
            ∧ (0 ≤ d.angle → 0 ≤ a) ∧ (d.angle < 0 → a ≤ 0)) := by
  obtain ⟨a, ha, hpr, hunit, hv⟩ := adapter_facts .complex qt (by simp) reverse q
  have hprinter : a.printer = "print_complex" := by rw [hpr]; cases qt <;> rfl
  obtain ⟨huok, hang⟩ := specUnit_ok qt
  set c := scOfCall CC.Gen.Fmt.print_complex_call0 (specUnit qt) o.precision o.polar o.deg with hc
  have hcfg : CfgOK c.toSFCfg := cfgOK_print_complex _ _ _ _ hp huok
  have hpolar : c.polar = true := by
    show (CC.Gen.Fmt.print_complex_call0.polar.getD o.polar) = true
    rw [hpol]; rfl
  have hdeg : c.deg = o.deg := rfl
  have htext : annotText .complex qt reverse q d o
      = some (c.str (specValue qt reverse q).re (specValue qt reverse q).im d.absV d.angle) := by
    rw [annotText_eq ha, hv]
    unfold textOf
    simp only [hprinter, hunit, Option.getD_some]
    rfl
  have htab : ∀ p ∈ c.table, '∠' ∉ p.2 := by
    show ∀ p ∈ CC.Gen.Fmt.print_complex_call0.table, '∠' ∉ p.2
    decide
  obtain ⟨t, h1, h2, h3⟩ := C18_polar_reads_back c (specValue qt reverse q).re (specValue qt reverse q).im
    d.absV d.angle hpolar hcfg habs hang htab
  rw [hdeg] at h2 h3
  refine ⟨_, t, htext, ?_, h1, h2, h3⟩
  rw [C18_polar_text c _ _ _ _ hpolar, hdeg]
  rfl

example : InDomain ({ absV := 5, angle := 1 / 2 } : Derived).absV ({ polar := true } : Opts).precision := by
  refine ⟨by norm_num, by rw [abs_of_pos (by norm_num)]; norm_num, ?_⟩
  unfold RoundsUpToOne; rw [abs_of_pos (by norm_num)]; norm_num

example : annotText .complex .voltage false ⟨4, 3⟩ { absV := 5, angle := 1 / 2 } { polar := true }
    = some ['5', '.', '0', '0', 'V', '∠', '0', '.', '5', '0', '0', '0'] := by decide +kernel

/-! ## time-function annotations -/

/-- **C14_denotes_time** — a time-function annotation, every quantity, both directions.
* `d.w = 0`: the label is the real annotation of `Re` of the solution's value in the element's reference direction
  (negated in reverse), and for a value in the domain reads back to it (`RealOK`, all clauses).
* `d.w ≠ 0`: the label is amplitude `·` `sin`/`cos` `(` frequency `·t` phase `)` (`C18_time_text`), where the amplitude
  text is the real-path text of `d.absV` in the unit of the quantity and reads back to it (`RealOK`); phase and
  frequency texts: `C18_time_parts_read_back`, `C18_time_phase_rule`.
`d.absV` (peak modulus), `d.phase` (argument, plus the quarter turn in the sine form), `d.phaseDeg`, `d.wHz` are run-time
parameters.  Not claimed: that the time-function *power* label is `p(t)` (it is not: open finding). -/
theorem C14_denotes_time (qt : Quantity) (reverse : Bool) (q : GQ) (d : Derived) (o : Opts) (hp : 1 ≤ o.precision) :
    (d.w = 0 →
      annotText .timeDomain qt reverse q d o = some (printReal (specValue qt reverse q).re (specUnit qt) o.precision)
      ∧ (InDomain (specValue qt reverse q).re o.precision →
          RealOK (specValue qt reverse q).re o.precision 3 (specUnit qt)
            (printReal (specValue qt reverse q).re (specUnit qt) o.precision)))
    ∧ (d.w ≠ 0 →
      annotText .timeDomain qt reverse q d o =
        some (printAbs d.absV (specUnit qt) o.precision ++ ['·'] ++ (if o.sin then ['s', 'i', 'n'] else ['c', 'o', 's'])
          ++ ['('] ++ (if o.hertz then ['2', 'π', '·'] ++ (cfgOfCall CC.Gen.Fmt.print_sinosoidal_call4 [] o.precision).str d.wHz
                       else (cfgOfCall CC.Gen.Fmt.print_sinosoidal_call5 [] o.precision).str d.w)
          ++ ['·', 't'] ++ timePhasePart d.phase d.phaseDeg o.precision o.deg ++ [')'])
      ∧ (InDomain d.absV o.precision →
          RealOK d.absV o.precision 3 (specUnit qt) (printAbs d.absV (specUnit qt) o.precision))) := by
  obtain ⟨a, ha, hpr, hunit, hv⟩ := adapter_facts .timeDomain qt (by simp) reverse q
  have hprinter : a.printer = "print_sinosoidal" := by rw [hpr]; cases qt <;> rfl
  obtain ⟨huok, _⟩ := specUnit_ok qt
  have htext : annotText .timeDomain qt reverse q d o
      = some (printSinusoidal (specValue qt reverse q).re d.absV d.phase d.phaseDeg d.w d.wHz (specUnit qt)
          o.precision o.sin o.deg o.hertz) := by
    rw [annotText_eq ha, hv]
    unfold textOf
    simp only [hprinter, hunit, Option.getD_some]
    rfl
  obtain ⟨r1, _, _, _, _, r6⟩ := C18_time_parts_read_back (specUnit qt) o.precision hp huok
  constructor
  · intro hw
    rw [htext, hw, C18_time_w_zero]
    exact ⟨rfl, r6 _⟩
  · intro hw
    rw [htext, C18_time_text _ _ _ _ _ _ _ _ _ _ _ hw]
    exact ⟨rfl, r1 _⟩

example : annotText .timeDomain .voltage true ⟨10, 0⟩ { absV := 10, w := 0 } {}
    = some ['-', '1', '0', '.', '0', 'V'] := by decide +kernel

/-! ## power and zero annotations (DC) -/

/-- **C14_denotes_power** — the DC power annotation: the real-path text of `|P|` in `W` followed by `↓` exactly for
`P > 0` (else `↑`), `P` being the solution's power in the element's reference direction, negated in reverse; for `P` in
the domain the number reads back (`RealOK`, prefixes `p…T`) to `|P|`. -/
theorem C14_denotes_power (reverse : Bool) (q : GQ) (d : Derived) (o : Opts) (hp : 1 ≤ o.precision) :
    ∃ T : List Char,
      annotText .real .power reverse q d o
        = some (T ++ (if (specValue .power reverse q).re > 0 then ['↓'] else ['↑']))
      ∧ (InDomain (specValue .power reverse q).re o.precision →
          RealOK (qabs (specValue .power reverse q).re) o.precision 12 ['W'] T) := by
  obtain ⟨a, ha, _, _, hpr, _⟩ := C14_adapters .real .power
  obtain ⟨a', ha', hv⟩ := C14_denotes_value .real .power reverse q
  have haa : a' = a := by rw [ha] at ha'; exact (Option.some.inj ha').symm
  subst haa
  have hprinter : a'.printer = "print_active_power" := by rw [hpr]; rfl
  obtain ⟨h1, h2⟩ := C18_active_power_text (specValue .power reverse q).re o.precision hp
  refine ⟨_, ?_, h2⟩
  rw [annotText_eq ha, hv, ← h1]
  unfold textOf
  simp only [hprinter]
  rfl

/-- **C14_denotes_real_zero** — the DC voltage / current / potential annotation of a quantity that is exactly `0` reads
back (`parseBack`) to exactly `0`, unsigned, in the unit of the quantity (closes the value `0` excluded by
`C14_denotes_real`). -/
theorem C14_denotes_real_zero (qt : Quantity) (hqt : qt ≠ .power) (reverse : Bool) (q : GQ) (d : Derived) (o : Opts)
    (hp : 1 ≤ o.precision) (h0 : (specValue qt reverse q).re = 0) :
    ∃ (s : List Char) (r : Parsed), annotText .real qt reverse q d o = some s
      ∧ parseBack (specUnit qt) s = some (.num r) ∧ r.value = 0 ∧ r.neg = false := by
  obtain ⟨a, ha, hpr, hunit, hv⟩ := adapter_facts .real qt (fun h => hqt h.2) reverse q
  have hprinter : a.printer = "print_real" := by
    rw [hpr]; cases qt <;> first | rfl | exact absurd rfl hqt
  obtain ⟨huok, _⟩ := specUnit_ok qt
  have hcfg : CfgOK (cfgOfCall CC.Gen.Fmt.print_real_call0 (specUnit qt) o.precision) :=
    cfgOK_of_call _ _ _ hp huok ⟨by decide, by decide, by decide, by decide⟩
  obtain ⟨r, hr, hval, hneg, _⟩ := C18_zero_text _ hcfg
  refine ⟨_, r, ?_, hr, hval, hneg⟩
  rw [annotText_eq ha, hv]
  unfold textOf
  simp only [hprinter, hunit, ↓reduceIte, Option.getD_some, h0]
  rfl

example : annotText .real .current false ⟨0, 0⟩ {} {} = some ['0', '.', '0', '0', '0', 'A'] := by decide +kernel

/-! ## complex Cartesian annotations with a zero part -/

/-- **C14_denotes_complex_zero_part** — the compact Cartesian annotation of a purely real phasor (imaginary part exactly
`0`) is the sign of the real part and the real-path text of its magnitude, no `j` part; of a purely imaginary phasor whose
imaginary part is not suppressed, `j` (preceded by `-` for a negative part) and the real-path text of its magnitude, no
real part.  The part shown reads back (`RealOK`) to the magnitude of the part when it is in the domain. -/
theorem C14_denotes_complex_zero_part (qt : Quantity) (reverse : Bool) (q : GQ) (d : Derived) (o : Opts)
    (hpol : o.polar = false) (hp : 1 ≤ o.precision) :
    let v := specValue qt reverse q
    let sf := (scOfCall CC.Gen.Fmt.print_complex_call0 (specUnit qt) o.precision o.polar o.deg).toSFCfg
    (v.im = 0 → annotText .complex qt reverse q d o = some ((if 0 ≤ v.re then [] else ['-']) ++ sf.str (qabs v.re)))
    ∧ (v.re = 0 → (sf.value3 (qabs v.im)).isZero = false →
        annotText .complex qt reverse q d o
          = some (if v.im < 0 then ['-'] ++ ['j'] ++ sf.str (qabs v.im) else ['j'] ++ sf.str (qabs v.im)))
    ∧ (InDomain v.re o.precision → RealOK (qabs v.re) o.precision 3 (specUnit qt) (sf.str (qabs v.re)))
    ∧ (InDomain v.im o.precision → RealOK (qabs v.im) o.precision 3 (specUnit qt) (sf.str (qabs v.im))) := by
  intro v sf
  obtain ⟨a, ha, hpr, hunit, hv⟩ := adapter_facts .complex qt (by simp) reverse q
  have hprinter : a.printer = "print_complex" := by rw [hpr]; cases qt <;> rfl
  obtain ⟨huok, _⟩ := specUnit_ok qt
  set c := scOfCall CC.Gen.Fmt.print_complex_call0 (specUnit qt) o.precision o.polar o.deg with hc
  have hcfg : CfgOK c.toSFCfg := cfgOK_print_complex _ _ _ _ hp huok
  have hpolar : c.polar = false := by
    show (CC.Gen.Fmt.print_complex_call0.polar.getD o.polar) = false
    rw [hpol]; rfl
  have hcompact : c.compact = true := rfl
  have htext : annotText .complex qt reverse q d o = some (c.str v.re v.im d.absV d.angle) := by
    rw [annotText_eq ha, hv]
    unfold textOf
    simp only [hprinter, hunit, Option.getD_some]
    rfl
  obtain ⟨z1, z2⟩ := C18_zero_part_read_back c hcfg
  refine ⟨?_, ?_, z1 _, z2 _⟩
  · intro him
    rw [htext, him, C18_cartesian_zero_im c _ _ _ hpolar, hcompact]
    rfl
  · intro hre hz
    rw [htext, hre, (C18_cartesian_zero_re c _ _ _ hpolar).1 hz, hcompact]
    rfl

example : annotText .complex .voltage false ⟨0, -5⟩ {} {} = some ['-', 'j', '5', '.', '0', '0', 'V'] := by
  decide +kernel

end CC
