/-
  Property C02 — existence and uniqueness of the phasor solution (round 5).

  `C02_exact` (CC/Properties/C02.lean) says: whatever vector solves the matrix equation of the
  converted network, the reported quantities satisfy the circuit equations of the intended phasor
  network `S`.  It states neither that such a vector exists nor that the result is unique.  With
  the determinant form of C01 (CC/Properties/C01Det.lean) both follow for a well-posed `S`:

    C02_wellPosed_transfer   the converted network is well-posed when `S` is (the `type` strings
                             that distinguish them play no role in the circuit equations)
    C02_exists_unique        the matrix equation has exactly one solution, its determinant is
                             non-zero, and the reported quantities are THE solution of `S`
-/
import CC.Properties.C02
import CC.Properties.C01Det
set_option linter.unusedSectionVars false

namespace CC
open Gen

/-- source zeroing commutes with forgetting the `type` strings -/
theorem zeroSources_erase (N : Net String GQ) :
    (⟨N.zeroSources.branches.map Spec.erase, N.zero⟩ : Net String GQ)
      = (⟨N.branches.map Spec.erase, N.zero⟩ : Net String GQ).zeroSources := by
  simp [Net.zeroSources, List.map_map, Function.comp_def, Spec.erase]

/-- agreement of two reports on a network does not look at the `type` strings -/
theorem agreeOn_of_erase (N : Net String GQ) (R T : Report String GQ)
    (h : R.AgreeOn (⟨N.branches.map Spec.erase, N.zero⟩ : Net String GQ) T) : R.AgreeOn N T := by
  refine ⟨?_, ?_⟩
  · intro n hn
    apply h.1 n
    simpa [Net.allLabels, List.map_map, Function.comp_def, Spec.erase] using hn
  · intro b hb
    exact h.2 (Spec.erase b) (List.mem_map_of_mem hb)

/-- **C02 (well-posedness transfers to the converted network).**  If the network with the `type`
strings erased is well-posed, so is the network itself. -/
theorem C02_wellPosed_transfer (N : Net String GQ)
    (hw : WellPosed (⟨N.branches.map Spec.erase, N.zero⟩ : Net String GQ)) : WellPosed N := by
  intro R hR
  have h1 := circuitEqs_erase N.zeroSources.branches N.zero R hR
  rw [zeroSources_erase] at h1
  exact agreeOn_of_erase N _ _ (hw R h1)

/-- **C02 (existence and uniqueness).**  Hypotheses of `C02_exact` (accepted circuit over the kinds
of C02, intended phasor network `S` at frequency `w` exists, passes `Network`'s checks, has no
self-loop branch) plus: `S` is well-posed (its source-free circuit has only the zero solution).
Then `transform_circuit` yields a network `N` such that
 * the determinant of the matrix the code builds for `N` is non-zero — `numpy.linalg.solve` is
   never handed a singular matrix in exact arithmetic;
 * the matrix equation has exactly one solution vector of the right length;
 * for that vector (hence for whatever the solver returns, if it returns an exact solution) the
   accessors succeed, what they report solves the circuit equations of `S`, and it agrees — on every
   node label, every branch voltage and every branch current — with EVERY solution of the circuit
   equations of `S`: the reported quantities are the phasor solution.
Not stated: anything about floating-point rounding of the solver; circuits whose phasor network
is not well-posed (e.g. a capacitor in series with a current source at `w = 0`). -/
theorem C02_exists_unique (trig : Trig) (harm : Harm) (h0 : TrigZero trig)
    (cs : List Component) (C : Circuit) (w wres : Rat) (hne : cs ≠ [])
    (hC : Circuit.mk? cs = .ok C) (hex : ExactList cs)
    (S : Net String GQ) (hS : Spec.phasorNet trig harm cs w wres = some S)
    (hcheck : S.check = .ok ()) (hloop : ∀ b ∈ S.branches, b.n1 ≠ b.n2) (hw : WellPosed S) :
    ∃ N, transformCircuit Gen.tables trig harm C w wres = .ok N ∧
      (toMatrix (N.nodes.length + N.vsIds.length) N.mnaA).det ≠ 0 ∧
      (∃! x : List GQ, x.length = N.nodes.length + N.vsIds.length ∧ matVec N.mnaA x = N.mnaB) ∧
      ∀ x : List GQ, x.length = N.nodes.length + N.vsIds.length → matVec N.mnaA x = N.mnaB →
        CircuitEqs S (N.reportOf x) ∧
        (∀ R : Report String GQ, CircuitEqs S R → (N.reportOf x).AgreeOn S R) ∧
        (∀ n ∈ N.allLabels, N.potential x n = .ok ((N.reportOf x).pot n)) ∧
        (∀ b ∈ N.branches, N.voltage x b.id = .ok ((N.reportOf x).v b.id) ∧
                            N.current x b.id = .ok ((N.reportOf x).i b.id)) := by
  obtain ⟨N, hN, hmap, hz⟩ := (C02_transform_eq_spec trig harm h0 cs C w wres hne hC hex S hS).2 hcheck
  obtain ⟨N', hN', hex'⟩ := C02_exact trig harm h0 cs C w wres hne hC hex S hS hcheck hloop
  have hNN : N' = N := by rw [hN] at hN'; exact (Except.ok.inj hN').symm
  subst hNN
  have hSeq : S = (⟨N'.branches.map Spec.erase, N'.zero⟩ : Net String GQ) := by
    cases S; simp only at hmap hz; rw [hmap, hz]
  have hNcheck : N'.check = .ok () := by
    have := check_erase N'.branches N'.zero
    rw [hmap] at this
    show Net.check ⟨N'.branches, N'.zero⟩ = _
    rw [← this, hz]; exact hcheck
  obtain ⟨hzero, hids⟩ := (Net.check_ok_iff N').mp hNcheck
  have wf : N'.WF := ⟨hids, hzero, by
    intro b hb
    have : Spec.erase b ∈ S.branches := by rw [← hmap]; exact List.mem_map_of_mem hb
    exact hloop (Spec.erase b) this⟩
  have hwN : WellPosed N' := C02_wellPosed_transfer N' (hSeq ▸ hw)
  have hSids : S.ids.Nodup := ((Net.check_ok_iff S).mp hcheck).2
  refine ⟨N', hN, C01_det_ne_zero N' wf hwN, ?_, ?_⟩
  · obtain ⟨x, hx, hsol, _⟩ := C01_exists N' wf hwN
    exact ⟨x, ⟨hx, hsol⟩, fun y hy => C01_matrix_unique N' wf hwN y x hy.1 hx hy.2 hsol⟩
  · intro x hx hsol
    obtain ⟨heq, hp, hvi⟩ := hex' x hx hsol
    exact ⟨heq, fun R hR => C01_unique S hSids hw _ _ heq hR, hp, hvi⟩

/-! ### non-vacuity: the example circuit of C02 / C07 meets every hypothesis -/

/-- the intended network of `exCs` at `w = 2` (source `3∠0` behind 1 Ω, capacitor `j8` S) -/
def exS : Net String GQ :=
  ⟨[⟨"1", "0", "V", "", .norton ⟨1, 0⟩ ⟨3, 0⟩⟩, ⟨"1", "0", "C", "", .thevenin ⟨0, 8⟩ 0⟩], "0"⟩

/-- … is well-posed: the source-free circuit forces `(1 + 8j)·φ₁ = 0` -/
theorem exS_wellPosed : WellPosed exS := by
  intro R hR
  have hz : exS.zeroSources = (⟨[⟨"1", "0", "V", "", .norton ⟨1, 0⟩ 0⟩,
      ⟨"1", "0", "C", "", .thevenin ⟨0, 8⟩ 0⟩], "0"⟩ : Net String GQ) := by
    simp [Net.zeroSources, exS, Elem.zeroSources]
  rw [hz] at hR
  have h0 : R.pot "0" = 0 := hR.ref_zero
  have v1 := hR.volt ⟨"1", "0", "V", "", .norton ⟨1, 0⟩ 0⟩ (by simp)
  have v2 := hR.volt ⟨"1", "0", "C", "", .thevenin ⟨0, 8⟩ 0⟩ (by simp)
  have l1 := hR.law ⟨"1", "0", "V", "", .norton ⟨1, 0⟩ 0⟩ (by simp)
  have l2 := hR.law ⟨"1", "0", "C", "", .thevenin ⟨0, 8⟩ 0⟩ (by simp)
  have k1 := hR.kcl "1" (by simp [Net.allLabels])
  have nz1 : (⟨1, 0⟩ : GQ) ≠ 0 := by intro h; have := congrArg GQ.re h; simp at this
  have nz2 : (⟨0, 8⟩ : GQ) ≠ 0 := by intro h; have := congrArg GQ.im h; simp at this
  simp only [voltResidual] at v1 v2
  simp only [Elem.lawResidual, nz1, nz2, if_false, if_true] at l1 l2
  simp [kclResidual, incidence, Elem.physCurrent, Elem.isLossy, Elem.kind, nz1, nz2] at k1
  have one1 : (⟨1, 0⟩ : GQ) = 1 := rfl
  rw [one1] at l1
  have e : ((1 : GQ) + ⟨0, 8⟩) * R.pot "1" = 0 := by
    linear_combination k1 - v1 + h0 + l1 - l2 - (⟨0, 8⟩ : GQ) * v2 + (⟨0, 8⟩ : GQ) * h0
  have nz3 : ((1 : GQ) + ⟨0, 8⟩) ≠ 0 := by intro h; have := congrArg GQ.re h; simp at this
  have p1 : R.pot "1" = 0 := (mul_eq_zero.mp e).resolve_left nz3
  have vV : R.v "V" = 0 := by linear_combination v1 + p1 - h0
  have vC : R.v "C" = 0 := by linear_combination v2 + p1 - h0
  have iV : R.i "V" = 0 := by linear_combination vV - l1
  have iC : R.i "C" = 0 := by linear_combination l2 + (⟨0, 8⟩ : GQ) * vC
  constructor
  · intro n hn
    simp only [exS, Net.allLabels, List.map_cons, List.map_nil, List.cons_append,
      List.nil_append, List.mem_cons, List.mem_nil_iff, or_false] at hn
    rcases hn with rfl | rfl | rfl | rfl | rfl <;> simp [Report.zeroRep, h0, p1]
  · intro b hb
    simp only [exS, List.mem_cons, List.mem_nil_iff, or_false] at hb
    rcases hb with rfl | rfl <;> simp only [Report.zeroRep]
    · exact ⟨vV, iV⟩
    · exact ⟨vC, iC⟩

/-- every hypothesis of `C02_exists_unique` is met by `exCs` at `w = 2` -/
example := C02_exists_unique (fun _ => (1, 0)) (fun _ _ _ _ => (0, 0)) rfl exCs _ 2 0 (by decide) exCircuit exExact
  exS exSpec
  (by simp [exS, Net.check, Net.nodeLabels, sortL, dedupL, Net.ids])
  (by intro b hb; simp only [exS, List.mem_cons, List.mem_nil_iff, or_false] at hb; rcases hb with rfl | rfl <;> decide)
  exS_wellPosed

end CC

