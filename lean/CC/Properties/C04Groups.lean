/-
  Property C04 — superposition over the library's OWN zeroing operations, ANY number of groups (round 5c).

  `C04_zeroing_superpose` (CC/Properties/C04Zeroing.lean) treats two exemption lists `keepA`, `keepB`.  The
  property quantifies over "every subset decomposition of the source set"; its textbook form is "each source
  acting alone".  This file proves the n-group statement directly from linearity (CC/Proofs/Linear.lean,
  `C04_linear`), by induction on the list of groups:

    C04_linear_list                 n-fold linearity over a skeleton: potentials, voltages and PHYSICAL currents
                                    of the sum of n source assignments are the sums
    C04_zeroing_superpose_groups    the active sources partitioned by exemption lists keep₁ … keepₙ (every active
                                    source exempted by exactly one of them), part k = what the library returns
                                    for `deactivateOthers N keepₖ`: potentials and voltages of `N` are the sums
                                    over the parts; reported currents are the sums on every branch that is not a
                                    linear (lossy) source; for a lossy source the reported current is the SIGNED
                                    sum (+ for the group that keeps it, − for every other group), i.e.
                                    `i = i_j − Σ_{k≠j} i_k` for its own group j
    C04_reported_zeroing_superpose_groups   the same about the values the accessors return for whatever vectors
                                    satisfy the n+1 matrix equations
    C04_each_source_alone, C04_reported_each_source_alone
                                    the textbook case: one part per active source, `keepₖ = [sₖ]`
    C04_groups_two                  the two-group theorem `C04_zeroing_superpose` is the case n = 2
    triN …                          non-vacuity: three sources (a lossy voltage source, a lossy current source,
                                    an ideal current source), each alone
-/
import CC.Properties.C04Zeroing
set_option linter.unusedSectionVars false
set_option linter.unusedVariables false
set_option linter.unusedTactic false
set_option linter.unreachableTactic false

namespace CC
variable {L K : Type} [DecidableEq L] [LabelOrd L] [Field K] [DecidableEq K]

/-! ### list sums -/

theorem sum_map_ite_const {α : Type} (l : List α) (q : α → Bool) (c : K) :
    (l.map fun p => if q p = true then c else 0).sum = ((l.filter q).length : K) * c := by
  induction l with
  | nil => simp
  | cons a l ih =>
    rw [List.map_cons, List.sum_cons, ih]
    by_cases h : q a = true
    · rw [List.filter_cons_of_pos h, List.length_cons]; simp only [h, if_true]; push_cast; ring
    · rw [List.filter_cons_of_neg h]; simp only [h, Bool.false_eq_true, if_false]; ring

theorem sum_map_neg' {α : Type} (l : List α) (f : α → K) :
    (l.map fun p => - f p).sum = - (l.map f).sum := by
  induction l with
  | nil => simp
  | cons a l ih => rw [List.map_cons, List.sum_cons, ih, List.map_cons, List.sum_cons]; ring

theorem sum_map_zero' {α : Type} (l : List α) (f : α → K) (h : ∀ p ∈ l, f p = 0) : (l.map f).sum = 0 := by
  apply List.sum_eq_zero
  intro y hy
  obtain ⟨p, hp, rfl⟩ := List.mem_map.mp hy
  exact h p hp

/-! ### n-fold linearity -/

/-- **C04 (linearity, any number of source assignments).**  Over a skeleton `bs` with distinct identifiers: if
for every `p` of a finite list the report `rep p` solves the skeleton with the source assignment `s p`, then
the skeleton with the SUM of the assignments has a solution whose potentials and voltages are the sums of
those of the parts and whose physical (first→second) branch currents are the sums of the physical currents.
(`C04_linear` is the case of two parts with coefficients; the empty list gives the zero solution.) -/
theorem C04_linear_list {α : Type} (bs : List (Branch L K)) (z : L) (hids : (bs.map (·.id)).Nodup)
    (ps : List α) (s : α → String → K) (rep : α → Report L K)
    (h : ∀ p ∈ ps, CircuitEqsAll (withSrc bs (s p)) z (rep p)) :
    ∃ R : Report L K,
      CircuitEqsAll (withSrc bs fun id => (ps.map fun p => s p id).sum) z R ∧
      (∀ n, R.pot n = (ps.map fun p => (rep p).pot n).sum) ∧
      (∀ id, R.v id = (ps.map fun p => (rep p).v id).sum) ∧
      (∀ b ∈ bs, (b.e.setSrc ((ps.map fun p => s p b.id).sum)).physCurrent (R.i b.id)
          = (ps.map fun p => (b.e.setSrc (s p b.id)).physCurrent ((rep p).i b.id)).sum) := by
  induction ps with
  | nil =>
    refine ⟨Report.zeroRep, ?_, fun n => rfl, fun id => rfl, fun b _ => ?_⟩
    · exact C04_zero_all bs z
    · simp [Elem.physCurrent, Report.zeroRep]
  | cons p ps ih =>
    obtain ⟨R', hR', hp', hv', hi'⟩ := ih (fun q hq => h q (List.mem_cons_of_mem _ hq))
    obtain ⟨R, hR, hp, hv, hi⟩ := C04_linear bs z hids 1 1 (s p) _ (rep p) R' (h p List.mem_cons_self) hR'
    simp only [one_mul] at hR hp hv hi
    refine ⟨R, ?_, fun n => ?_, fun id => ?_, fun b hb => ?_⟩
    · simpa only [List.map_cons, List.sum_cons] using hR
    · rw [hp, hp', List.map_cons, List.sum_cons]
    · rw [hv, hv', List.map_cons, List.sum_cons]
    · have := hi b hb
      rw [hi' b hb] at this
      simpa only [List.map_cons, List.sum_cons] using this

/-! ### the source value a part gives to a branch -/

theorem srcWhere_selSrc (N : Net L K) (hids : (N.branches.map (·.id)).Nodup) (keep : List (ElemKey K))
    {b : Branch L K} (hb : b ∈ N.branches) :
    srcWhere N.branches (selSrc keep) b.id
      = if keep.contains b.key = true then b.e.src else if b.e.isActive = true then 0 else b.e.src := by
  simp only [srcWhere, findId_of_mem hids hb, selSrc]
  by_cases hk : keep.contains b.key = true
  · simp only [hk, Bool.not_true, Bool.false_and, Bool.false_eq_true, if_false, if_true]
  · have hk' : keep.contains b.key = false := by simpa using hk
    simp only [hk', Bool.not_false, Bool.true_and, Bool.false_eq_true, if_false]

/-- the core, over an arbitrary index type: `keep p`, `net p`, `rep p` are the exemption list, the returned
network and a solution of part `p` -/
theorem zeroing_superpose_groups_core {α : Type} (N : Net L K) (parts : List α)
    (keep : α → List (ElemKey K)) (net : α → Net L K) (rep : α → Report L K)
    (hids : N.ids.Nodup) (hw : WellPosed N)
    (hdeact : ∀ p ∈ parts, deactivateOthers N (keep p) = .ok (net p))
    (hsol : ∀ p ∈ parts, CircuitEqs (net p) (rep p))
    (hpart : ∀ b ∈ N.branches, b.e.isActive = true →
      (parts.filter fun p => (keep p).contains b.key).length = 1)
    (R : Report L K) (hR : CircuitEqs N R) :
    (∀ n ∈ N.allLabels, R.pot n = (parts.map fun p => (rep p).pot n).sum) ∧
    (∀ b ∈ N.branches, R.v b.id = (parts.map fun p => (rep p).v b.id).sum) ∧
    (∀ b ∈ N.branches, b.e.isLossy = false → R.i b.id = (parts.map fun p => (rep p).i b.id).sum) ∧
    (∀ b ∈ N.branches, b.e.isLossy = true →
      R.i b.id = (parts.map fun p =>
        if (keep p).contains b.key = true then (rep p).i b.id else - (rep p).i b.id).sum) := by
  have hids' : (N.branches.map (·.id)).Nodup := hids
  have hall : ∀ p ∈ parts, CircuitEqsAll (withSrc N.branches (srcWhere N.branches (selSrc (keep p)))) N.zero (rep p) :=
    fun p hp => (C04_deactivate_solutions_withSrc N (net p) (keep p) hids (hdeact p hp) (rep p)).mp (hsol p hp)
  obtain ⟨S, hS, hp, hv, hi⟩ := C04_linear_list N.branches N.zero hids' parts
    (fun p => srcWhere N.branches (selSrc (keep p))) rep hall
  -- the partial assignments add up to the network's own source values
  have hsum : ∀ b ∈ N.branches,
      (parts.map fun p => srcWhere N.branches (selSrc (keep p)) b.id).sum = b.e.src := by
    intro b hb
    by_cases ha : b.e.isActive = true
    · have e : (parts.map fun p => srcWhere N.branches (selSrc (keep p)) b.id)
          = parts.map fun p => if (keep p).contains b.key = true then b.e.src else 0 := by
        apply List.map_congr_left; intro p _
        rw [srcWhere_selSrc N hids' (keep p) hb]; simp only [ha, if_true]
      rw [e, sum_map_ite_const parts (fun p => (keep p).contains b.key) b.e.src, hpart b hb ha]
      simp
    · have ha' : b.e.isActive = false := by simpa using ha
      rw [Elem.src_of_inactive b.e ha']
      apply sum_map_zero'
      intro p _
      rw [srcWhere_selSrc N hids' (keep p) hb]
      simp [ha', Elem.src_of_inactive b.e ha']
  have hself : (withSrc N.branches fun id =>
      (parts.map fun p => srcWhere N.branches (selSrc (keep p)) id).sum) = N.branches :=
    withSrc_self _ _ hsum
  rw [hself] at hS
  have hS' : CircuitEqs N S := (circuitEqsAll_iff N S).mp hS
  obtain ⟨ap, ab⟩ := C01_unique N hids hw R S hR hS'
  refine ⟨fun n hn => by rw [ap n hn, hp], fun b hb => by rw [(ab b hb).1, hv], ?_, ?_⟩
  · intro b hb hl
    have h := hi b hb
    rw [hsum b hb, Elem.setSrc_src] at h
    have e : (parts.map fun p => (b.e.setSrc (srcWhere N.branches (selSrc (keep p)) b.id)).physCurrent ((rep p).i b.id))
        = parts.map fun p => (rep p).i b.id := by
      apply List.map_congr_left; intro p _
      have : (b.e.setSrc (srcWhere N.branches (selSrc (keep p)) b.id)).isLossy = false := by
        rw [srcWhere_selSrc N hids' (keep p) hb]
        by_cases hk : (keep p).contains b.key = true
        · simp only [hk, if_true, Elem.setSrc_src]; exact hl
        · by_cases ha : b.e.isActive = true
          · simp only [hk, ha, if_true, Bool.false_eq_true, if_false]; exact Elem.setSrc_zero_not_lossy _
          · simp only [hk, ha, Bool.false_eq_true, if_false, Elem.setSrc_src]; exact hl
      simp only [Elem.physCurrent, this, Bool.false_eq_true, if_false]
    rw [e] at h
    simp only [Elem.physCurrent, hl, Bool.false_eq_true, if_false] at h
    rw [(ab b hb).2, h]
  · intro b hb hl
    have ha := Elem.active_of_lossy b.e hl
    have h := hi b hb
    rw [hsum b hb, Elem.setSrc_src] at h
    have e : (parts.map fun p => (b.e.setSrc (srcWhere N.branches (selSrc (keep p)) b.id)).physCurrent ((rep p).i b.id))
        = parts.map fun p => - (if (keep p).contains b.key = true then (rep p).i b.id else - (rep p).i b.id) := by
      apply List.map_congr_left; intro p _
      rw [srcWhere_selSrc N hids' (keep p) hb]
      by_cases hk : (keep p).contains b.key = true
      · simp only [hk, if_true, Elem.setSrc_src, Elem.physCurrent, hl]
      · simp only [hk, ha, if_true, Bool.false_eq_true, if_false, Elem.physCurrent,
          Elem.setSrc_zero_not_lossy, neg_neg]
    rw [e, sum_map_neg'] at h
    simp only [Elem.physCurrent, hl, if_true] at h
    rw [(ab b hb).2]; linear_combination -h

/-! ### the reported current of a lossy source against its own group -/

theorem signed_sum_split {α : Type} (l₁ l₂ : List α) (p : α) (q : α → Bool) (f : α → K)
    (hq : q p = true) (h1 : ((l₁ ++ p :: l₂).filter q).length = 1) :
    ((l₁ ++ p :: l₂).map fun r => if q r = true then f r else - f r).sum = f p - ((l₁ ++ l₂).map f).sum := by
  rw [List.filter_append, List.filter_cons_of_pos hq, List.length_append, List.length_cons] at h1
  have e1 : l₁.filter q = [] := List.eq_nil_of_length_eq_zero (by omega)
  have e2 : l₂.filter q = [] := List.eq_nil_of_length_eq_zero (by omega)
  have n1 : ∀ r ∈ l₁, (if q r = true then f r else - f r) = - f r := by
    intro r hr
    have : ¬ q r = true := (List.filter_eq_nil_iff.mp e1) r hr
    simp only [this, Bool.false_eq_true, if_false]
  have n2 : ∀ r ∈ l₂, (if q r = true then f r else - f r) = - f r := by
    intro r hr
    have : ¬ q r = true := (List.filter_eq_nil_iff.mp e2) r hr
    simp only [this, Bool.false_eq_true, if_false]
  rw [List.map_append, List.sum_append, List.map_cons, List.sum_cons, List.map_congr_left n1,
    List.map_congr_left n2, sum_map_neg', sum_map_neg', List.map_append, List.sum_append]
  simp only [hq, if_true]; ring

/-! ### the statement with named parts -/

/-- one group of a superposition: the exemption list, the network the library's zeroing returns for it, and
a report (potentials, voltages, reported currents) of that network -/
structure ZeroPart (L K : Type) where
  keep : List (ElemKey K)
  net : Net L K
  rep : Report L K

/-- the same with a solution VECTOR of the returned network's matrix equation instead of a report -/
structure ZeroPartX (L K : Type) where
  keep : List (ElemKey K)
  net : Net L K
  x : List K

/-- **C04 (superposition over the library's own zeroing operations, any finite partition of the sources).**
Let `N` have distinct identifiers and be well-posed.  `parts` is a finite list of groups; group `p` has the
exemption list `p.keep`, `p.net` is what the library returns when it deactivates everything but `p.keep`
(`short_circuitify_voltage_sources` then `open_circuitify_current_sources`, record classes changed as the code
changes them) and `p.rep` is ANY solution of `p.net`.  The exemption lists partition the active sources: every
active source of `N` is exempted by exactly one group (`hpart`; passive elements may be listed or not; a
network without active sources allows the empty list of groups).  Then for ANY solution `R` of `N`:
* the potential of every node label and the voltage of every branch of `N` are the sums over the groups;
* the reported current of every branch that is not a linear (lossy) source is the sum over the groups;
* the reported current of a linear (lossy) source is the SIGNED sum: `+` the current reported in the group that
  keeps it, `−` the current reported in every group that deactivates it (the zeroed record reports first→second,
  the active record in generator direction, `C04_zeroed_not_lossy`);
* in particular, for the group `p` (at any position `parts = l₁ ++ p :: l₂`) that keeps the lossy source,
  `i = i_p − Σ_{q ≠ p} i_q` — the generalisation of `i = i_A − i_B` of `C04_zeroing_superpose`.
Not covered: floating point, ill-posed networks, the link model ↔ Python (`C16_gen_*` + structural
correspondence).  The plain sum for a lossy source is false already for two groups
(`C04_zeroing_lossy_sum_fails`). -/
theorem C04_zeroing_superpose_groups (N : Net L K) (parts : List (ZeroPart L K))
    (hids : N.ids.Nodup) (hw : WellPosed N)
    (hdeact : ∀ p ∈ parts, deactivateOthers N p.keep = .ok p.net)
    (hsol : ∀ p ∈ parts, CircuitEqs p.net p.rep)
    (hpart : ∀ b ∈ N.branches, b.e.isActive = true →
      (parts.filter fun p => p.keep.contains b.key).length = 1)
    (R : Report L K) (hR : CircuitEqs N R) :
    (∀ n ∈ N.allLabels, R.pot n = (parts.map fun p => p.rep.pot n).sum) ∧
    (∀ b ∈ N.branches, R.v b.id = (parts.map fun p => p.rep.v b.id).sum) ∧
    (∀ b ∈ N.branches, b.e.isLossy = false → R.i b.id = (parts.map fun p => p.rep.i b.id).sum) ∧
    (∀ b ∈ N.branches, b.e.isLossy = true →
      R.i b.id = (parts.map fun p =>
        if p.keep.contains b.key = true then p.rep.i b.id else - p.rep.i b.id).sum) ∧
    (∀ b ∈ N.branches, b.e.isLossy = true → ∀ l₁ p l₂, parts = l₁ ++ p :: l₂ →
      p.keep.contains b.key = true →
      R.i b.id = p.rep.i b.id - ((l₁ ++ l₂).map fun q => q.rep.i b.id).sum) := by
  obtain ⟨h1, h2, h3, h4⟩ := zeroing_superpose_groups_core N parts (·.keep) (·.net) (·.rep) hids hw hdeact hsol
    hpart R hR
  refine ⟨h1, h2, h3, h4, ?_⟩
  intro b hb hl l₁ p l₂ hsplit hk
  have ha := Elem.active_of_lossy b.e hl
  have hc := hpart b hb ha
  rw [h4 b hb hl]
  subst hsplit
  exact signed_sum_split l₁ l₂ p (fun q => q.keep.contains b.key) (fun q => q.rep.i b.id) hk hc

/-- **C04 (superposition over the library's zeroing, any finite partition, reported values).**  `N` valid and
well-posed; the exemption lists of `parts` partition its active sources; `p.net` is what the library's zeroing
returns for `p.keep`.  Whatever vectors `x`, `p.x` satisfy the matrix equations the code builds for `N` and
for every `p.net` (right length): the potentials and voltages the accessors report for `N` are the sums over
the groups of those reported for `p.net`; so are the reported currents of all branches that are not linear
(lossy) sources; the reported current of a linear source is the signed sum, i.e. `i_p − Σ_{q≠p} i_q` for its
own group `p`.  Exact arithmetic; nothing is assumed about the `p.net` beyond the matrix equations (their
validity follows, `deactivateOthers_wf`). -/
theorem C04_reported_zeroing_superpose_groups (N : Net L K) (parts : List (ZeroPartX L K))
    (wf : N.WF) (hw : WellPosed N)
    (hdeact : ∀ p ∈ parts, deactivateOthers N p.keep = .ok p.net)
    (hlen : ∀ p ∈ parts, p.x.length = p.net.nodes.length + p.net.vsIds.length)
    (hmat : ∀ p ∈ parts, matVec p.net.mnaA p.x = p.net.mnaB)
    (hpart : ∀ b ∈ N.branches, b.e.isActive = true →
      (parts.filter fun p => p.keep.contains b.key).length = 1)
    (x : List K) (hx : x.length = N.nodes.length + N.vsIds.length) (h : matVec N.mnaA x = N.mnaB) :
    let R := N.reportOf x
    (∀ n ∈ N.allLabels, R.pot n = (parts.map fun p => (p.net.reportOf p.x).pot n).sum) ∧
    (∀ b ∈ N.branches, R.v b.id = (parts.map fun p => (p.net.reportOf p.x).v b.id).sum) ∧
    (∀ b ∈ N.branches, b.e.isLossy = false →
      R.i b.id = (parts.map fun p => (p.net.reportOf p.x).i b.id).sum) ∧
    (∀ b ∈ N.branches, b.e.isLossy = true →
      R.i b.id = (parts.map fun p =>
        if p.keep.contains b.key = true then (p.net.reportOf p.x).i b.id
        else - (p.net.reportOf p.x).i b.id).sum) ∧
    (∀ b ∈ N.branches, b.e.isLossy = true → ∀ l₁ p l₂, parts = l₁ ++ p :: l₂ →
      p.keep.contains b.key = true →
      R.i b.id = (p.net.reportOf p.x).i b.id - ((l₁ ++ l₂).map fun q => (q.net.reportOf q.x).i b.id).sum) := by
  intro R
  obtain ⟨h1, h2, h3, h4⟩ := zeroing_superpose_groups_core N parts (·.keep) (·.net)
    (fun p => p.net.reportOf p.x) wf.ids_nodup hw hdeact
    (fun p hp => (C01_sound p.net p.x (deactivateOthers_wf N p.net p.keep (hdeact p hp) wf)
      (hlen p hp) (hmat p hp)).2.2)
    hpart R (C01_sound N x wf hx h).2.2
  refine ⟨h1, h2, h3, h4, ?_⟩
  intro b hb hl l₁ p l₂ hsplit hk
  have ha := Elem.active_of_lossy b.e hl
  have hc := hpart b hb ha
  rw [h4 b hb hl]
  subst hsplit
  exact signed_sum_split l₁ l₂ p (fun q => q.keep.contains b.key) (fun q => (q.net.reportOf q.x).i b.id) hk hc

/-! ### each source alone -/

theorem key_id_eq {b c : Branch L K} (h : b.key = c.key) : b.id = c.id := congrArg ElemKey.id h

theorem singleton_contains_key (b c : Branch L K) : ([c.key].contains b.key = true) ↔ b.key = c.key := by
  simp

/-- among branches with distinct identifiers exactly one has the key of a given member -/
theorem filter_key_length (bs : List (Branch L K)) (hids : (bs.map (·.id)).Nodup) (q : Branch L K → Bool)
    (b : Branch L K) (hb : b ∈ bs) (hq : q b = true) :
    ((bs.filter q).filter fun c => [c.key].contains b.key).length = 1 := by
  have none : ∀ l : List (Branch L K), (∀ c ∈ l, c.id ≠ b.id) →
      (l.filter q).filter (fun c => [c.key].contains b.key) = [] := by
    intro l hl
    rw [List.filter_eq_nil_iff]
    intro c hc hk
    have hc' : c ∈ l := (List.mem_filter.mp hc).1
    exact hl c hc' (key_id_eq ((singleton_contains_key b c).mp hk)).symm
  induction bs with
  | nil => simp at hb
  | cons c l ih =>
    simp only [List.map_cons, List.nodup_cons, List.mem_map, not_exists, not_and] at hids
    rcases List.mem_cons.mp hb with rfl | hb'
    · rw [List.filter_cons_of_pos hq,
        List.filter_cons_of_pos (p := fun c : Branch L K => [c.key].contains b.key) ((singleton_contains_key b b).mpr rfl),
        none l (fun c hc he => hids.1 c hc he)]
      rfl
    · have hne : ¬ ([c.key].contains b.key = true) := by
        intro hk
        exact hids.1 b hb' (key_id_eq ((singleton_contains_key b c).mp hk))
      by_cases hqc : q c = true
      · rw [List.filter_cons_of_pos hqc,
          List.filter_cons_of_neg (p := fun c : Branch L K => [c.key].contains b.key) hne]; exact ih hids.2 hb'
      · rw [List.filter_cons_of_neg hqc]; exact ih hids.2 hb'

/-- "each source alone" is a partition: one exemption list `[s]` per active source `s` of `N` -/
theorem each_source_partition {α : Type} (N : Net L K) (hids : N.ids.Nodup) (parts : List α)
    (keep : α → List (ElemKey K))
    (hkeeps : parts.map keep = (N.branches.filter (·.e.isActive)).map fun b => [b.key]) :
    ∀ b ∈ N.branches, b.e.isActive = true → (parts.filter fun p => (keep p).contains b.key).length = 1 := by
  intro b hb ha
  have e : (parts.filter fun p => (keep p).contains b.key).length
      = ((parts.map keep).filter fun k => k.contains b.key).length := by
    rw [List.filter_map, List.length_map]; rfl
  rw [e, hkeeps, List.filter_map, List.length_map]
  exact filter_key_length N.branches hids (·.e.isActive) b hb ha

/-- **C04 (each source acting alone — the textbook statement).**  `N` with distinct identifiers, well-posed.
There is one part per active source of `N` (`is_voltage_source` or `is_current_source`), in listing order, and
the exemption list of the part of source `s` is `[s]`: `p.net` is the network the library returns when it
deactivates every source but `s`.  Then for ANY solutions: potentials and voltages of `N` are the sums over the
sources of the responses to each source alone; so are the reported currents of every branch that is not a
linear (lossy) source; and the reported current of a lossy source `s` is its current when acting alone MINUS
the currents through it when each of the other sources acts alone.  Same scope as
`C04_zeroing_superpose_groups`, of which this is the instance `keepₖ = [sₖ]`. -/
theorem C04_each_source_alone (N : Net L K) (parts : List (ZeroPart L K))
    (hids : N.ids.Nodup) (hw : WellPosed N)
    (hkeeps : parts.map (·.keep) = (N.branches.filter (·.e.isActive)).map fun b => [b.key])
    (hdeact : ∀ p ∈ parts, deactivateOthers N p.keep = .ok p.net)
    (hsol : ∀ p ∈ parts, CircuitEqs p.net p.rep)
    (R : Report L K) (hR : CircuitEqs N R) :
    (∀ n ∈ N.allLabels, R.pot n = (parts.map fun p => p.rep.pot n).sum) ∧
    (∀ b ∈ N.branches, R.v b.id = (parts.map fun p => p.rep.v b.id).sum) ∧
    (∀ b ∈ N.branches, b.e.isLossy = false → R.i b.id = (parts.map fun p => p.rep.i b.id).sum) ∧
    (∀ b ∈ N.branches, b.e.isLossy = true → ∀ l₁ p l₂, parts = l₁ ++ p :: l₂ → p.keep = [b.key] →
      R.i b.id = p.rep.i b.id - ((l₁ ++ l₂).map fun q => q.rep.i b.id).sum) := by
  obtain ⟨h1, h2, h3, _, h5⟩ := C04_zeroing_superpose_groups N parts hids hw hdeact hsol
    (each_source_partition N hids parts (·.keep) hkeeps) R hR
  refine ⟨h1, h2, h3, fun b hb hl l₁ p l₂ hs hk => h5 b hb hl l₁ p l₂ hs ?_⟩
  rw [hk]; simp

/-- **C04 (each source acting alone, reported values).**  As `C04_each_source_alone`, about the values the
accessors return for whatever vectors satisfy the matrix equations of `N` and of the network returned for
each source. -/
theorem C04_reported_each_source_alone (N : Net L K) (parts : List (ZeroPartX L K))
    (wf : N.WF) (hw : WellPosed N)
    (hkeeps : parts.map (·.keep) = (N.branches.filter (·.e.isActive)).map fun b => [b.key])
    (hdeact : ∀ p ∈ parts, deactivateOthers N p.keep = .ok p.net)
    (hlen : ∀ p ∈ parts, p.x.length = p.net.nodes.length + p.net.vsIds.length)
    (hmat : ∀ p ∈ parts, matVec p.net.mnaA p.x = p.net.mnaB)
    (x : List K) (hx : x.length = N.nodes.length + N.vsIds.length) (h : matVec N.mnaA x = N.mnaB) :
    let R := N.reportOf x
    (∀ n ∈ N.allLabels, R.pot n = (parts.map fun p => (p.net.reportOf p.x).pot n).sum) ∧
    (∀ b ∈ N.branches, R.v b.id = (parts.map fun p => (p.net.reportOf p.x).v b.id).sum) ∧
    (∀ b ∈ N.branches, b.e.isLossy = false →
      R.i b.id = (parts.map fun p => (p.net.reportOf p.x).i b.id).sum) ∧
    (∀ b ∈ N.branches, b.e.isLossy = true → ∀ l₁ p l₂, parts = l₁ ++ p :: l₂ → p.keep = [b.key] →
      R.i b.id = (p.net.reportOf p.x).i b.id - ((l₁ ++ l₂).map fun q => (q.net.reportOf q.x).i b.id).sum) := by
  intro R
  obtain ⟨h1, h2, h3, _, h5⟩ := C04_reported_zeroing_superpose_groups N parts wf hw hdeact hlen hmat
    (each_source_partition N wf.ids_nodup parts (·.keep) hkeeps) x hx h
  refine ⟨h1, h2, h3, fun b hb hl l₁ p l₂ hs hk => h5 b hb hl l₁ p l₂ hs ?_⟩
  rw [hk]; simp

/-! ### the two-group theorem is the case n = 2 -/

/-- `C04_zeroing_superpose` (two groups `keepA`, `keepB`) re-derived from the n-group theorem -/
theorem C04_groups_two (N NA NB : Net L K) (keepA keepB : List (ElemKey K))
    (hids : N.ids.Nodup) (hw : WellPosed N)
    (hA : deactivateOthers N keepA = .ok NA) (hB : deactivateOthers N keepB = .ok NB)
    (hpart : ∀ b ∈ N.branches, b.e.isActive = true → keepA.contains b.key = !(keepB.contains b.key))
    (R RA RB : Report L K) (hR : CircuitEqs N R) (hRA : CircuitEqs NA RA) (hRB : CircuitEqs NB RB) :
    (∀ n ∈ N.allLabels, R.pot n = RA.pot n + RB.pot n) ∧
    (∀ b ∈ N.branches, R.v b.id = RA.v b.id + RB.v b.id) ∧
    (∀ b ∈ N.branches, b.e.isLossy = false → R.i b.id = RA.i b.id + RB.i b.id) ∧
    (∀ b ∈ N.branches, b.e.isLossy = true → keepA.contains b.key = true → R.i b.id = RA.i b.id - RB.i b.id) ∧
    (∀ b ∈ N.branches, b.e.isLossy = true → keepB.contains b.key = true → R.i b.id = RB.i b.id - RA.i b.id) := by
  have hp : ∀ b ∈ N.branches, b.e.isActive = true →
      (([⟨keepA, NA, RA⟩, ⟨keepB, NB, RB⟩] : List (ZeroPart L K)).filter
        fun p => p.keep.contains b.key).length = 1 := by
    intro b hb ha
    have := hpart b hb ha
    by_cases hk : keepB.contains b.key = true
    · have hkA : keepA.contains b.key = false := by rw [this, hk]; rfl
      simp only [List.filter_cons, hkA, hk, List.filter_nil, Bool.false_eq_true, if_false, if_true, List.length_cons,
        List.length_nil]
    · have hk' : keepB.contains b.key = false := by simpa using hk
      have hkA : keepA.contains b.key = true := by rw [this, hk']; rfl
      simp only [List.filter_cons, hkA, hk', List.filter_nil, Bool.false_eq_true, if_false, if_true, List.length_cons,
        List.length_nil]
  obtain ⟨h1, h2, h3, _, h5⟩ := C04_zeroing_superpose_groups N [⟨keepA, NA, RA⟩, ⟨keepB, NB, RB⟩] hids hw
    (by intro p hp'; simp only [List.mem_cons, List.mem_nil_iff, or_false] at hp'; rcases hp' with rfl | rfl <;> assumption)
    (by intro p hp'; simp only [List.mem_cons, List.mem_nil_iff, or_false] at hp'; rcases hp' with rfl | rfl <;> assumption)
    hp R hR
  refine ⟨fun n hn => by rw [h1 n hn]; simp, fun b hb => by rw [h2 b hb]; simp,
    fun b hb hl => by rw [h3 b hb hl]; simp, fun b hb hl hk => ?_, fun b hb hl hk => ?_⟩
  · have := h5 b hb hl [] ⟨keepA, NA, RA⟩ [⟨keepB, NB, RB⟩] rfl hk
    rw [this]; simp
  · have := h5 b hb hl [⟨keepA, NA, RA⟩] ⟨keepB, NB, RB⟩ [] rfl hk
    rw [this]; simp

/-! ### non-vacuity: three sources, each acting alone -/

/-- `Vq = 8 V` behind 2 Ω (linear voltage source), `Iq = 1 A` beside 1/2 S (linear current source) and the
ideal current source `J = 2 A`, all between nodes `1` and `0` -/
def triN : Net String ℚ :=
  ⟨[⟨"1", "0", "Vq", "", .norton 2 8⟩, ⟨"1", "0", "Iq", "", .thevenin (1/2) 1⟩,
    ⟨"1", "0", "J", "", .thevenin 0 2⟩], "0"⟩
/-- `Vq` alone: `Iq` becomes `impedance("Iq", 2)`, `J` becomes `admittance("J", 0)` -/
def triNA : Net String ℚ :=
  ⟨[⟨"1", "0", "Vq", "", .norton 2 8⟩, ⟨"1", "0", "Iq", "impedance", .norton 2 0⟩,
    ⟨"1", "0", "J", "admittance", .thevenin 0 0⟩], "0"⟩
/-- `Iq` alone -/
def triNB : Net String ℚ :=
  ⟨[⟨"1", "0", "Vq", "impedance", .norton 2 0⟩, ⟨"1", "0", "Iq", "", .thevenin (1/2) 1⟩,
    ⟨"1", "0", "J", "admittance", .thevenin 0 0⟩], "0"⟩
/-- `J` alone -/
def triNC : Net String ℚ :=
  ⟨[⟨"1", "0", "Vq", "impedance", .norton 2 0⟩, ⟨"1", "0", "Iq", "impedance", .norton 2 0⟩,
    ⟨"1", "0", "J", "", .thevenin 0 2⟩], "0"⟩

def triR : Report String ℚ :=
  { pot := fun n => if n = "1" then -7 else 0, v := fun _ => -7,
    i := fun id => if id = "Vq" then -1/2 else if id = "Iq" then 5/2 else 2 }
def triRA : Report String ℚ :=
  { pot := fun n => if n = "1" then -4 else 0, v := fun _ => -4,
    i := fun id => if id = "Vq" then -2 else if id = "Iq" then -2 else 0 }
def triRB : Report String ℚ :=
  { pot := fun n => if n = "1" then -1 else 0, v := fun _ => -1,
    i := fun id => if id = "Vq" then -1/2 else if id = "Iq" then -1/2 else 0 }
def triRC : Report String ℚ :=
  { pot := fun n => if n = "1" then -2 else 0, v := fun _ => -2,
    i := fun id => if id = "Vq" then -1 else if id = "Iq" then -1 else 2 }

def triParts : List (ZeroPart String ℚ) :=
  [⟨[⟨"Vq", "", .norton 2 8⟩], triNA, triRA⟩, ⟨[⟨"Iq", "", .thevenin (1/2) 1⟩], triNB, triRB⟩,
   ⟨[⟨"J", "", .thevenin 0 2⟩], triNC, triRC⟩]

theorem triN_ids : triN.ids.Nodup := by simp [Net.ids, triN]

theorem triN_deact (keep : List (ElemKey ℚ)) :
    deactivateOthers triN keep = .ok ⟨triN.branches.map fun b => zeroCS keep (zeroVS keep b), "0"⟩ :=
  deactivateOthers_ok triN keep ⟨⟨"1", "0", "Vq", "", .norton 2 8⟩, by simp [triN], Or.inr rfl⟩ triN_ids

theorem triN_A : deactivateOthers triN [⟨"Vq", "", .norton 2 8⟩] = .ok triNA := by
  rw [triN_deact]
  simp [triN, triNA, zeroCS, zeroVS, Branch.key, zeroInVoltage, zeroInCurrent,
    Elem.isVSrc, Elem.Vval, Elem.isCS, Elem.Ival, Elem.Zfin, Elem.Yfin]

theorem triN_B : deactivateOthers triN [⟨"Iq", "", .thevenin (1/2) 1⟩] = .ok triNB := by
  rw [triN_deact]
  simp [triN, triNB, zeroCS, zeroVS, Branch.key, zeroInVoltage, zeroInCurrent,
    Elem.isVSrc, Elem.Vval, Elem.isCS, Elem.Ival, Elem.Zfin, Elem.Yfin]

theorem triN_C : deactivateOthers triN [⟨"J", "", .thevenin 0 2⟩] = .ok triNC := by
  rw [triN_deact]
  simp [triN, triNC, zeroCS, zeroVS, Branch.key, zeroInVoltage, zeroInCurrent,
    Elem.isVSrc, Elem.Vval, Elem.isCS, Elem.Ival, Elem.Zfin, Elem.Yfin]

theorem triR_solves : CircuitEqs triN triR := by
  rw [← circuitEqsAll_iff]
  refine ⟨by decide, ?_, ?_, ?_⟩
  · intro b hb
    simp only [triN, List.mem_cons, List.mem_nil_iff, or_false] at hb
    rcases hb with rfl | rfl | rfl <;> simp [voltResidual, triR]
  · intro b hb
    simp only [triN, List.mem_cons, List.mem_nil_iff, or_false] at hb
    rcases hb with rfl | rfl | rfl <;> simp [Elem.lawResidual, triR] <;> norm_num
  · intro n
    by_cases h : "1" = n <;>
      simp [triN, kclResidual, incidence, Elem.physCurrent, Elem.isLossy, Elem.kind, triR, h] <;>
      try (split_ifs <;> norm_num)

theorem triRA_solves : CircuitEqs triNA triRA := by
  rw [← circuitEqsAll_iff]
  refine ⟨by decide, ?_, ?_, ?_⟩
  · intro b hb
    simp only [triNA, List.mem_cons, List.mem_nil_iff, or_false] at hb
    rcases hb with rfl | rfl | rfl <;> simp [voltResidual, triRA]
  · intro b hb
    simp only [triNA, List.mem_cons, List.mem_nil_iff, or_false] at hb
    rcases hb with rfl | rfl | rfl <;> simp [Elem.lawResidual, triRA] <;> norm_num
  · intro n
    by_cases h : "1" = n <;>
      simp [triNA, kclResidual, incidence, Elem.physCurrent, Elem.isLossy, Elem.kind, triRA, h] <;>
      try (split_ifs <;> norm_num)

theorem triRB_solves : CircuitEqs triNB triRB := by
  rw [← circuitEqsAll_iff]
  refine ⟨by decide, ?_, ?_, ?_⟩
  · intro b hb
    simp only [triNB, List.mem_cons, List.mem_nil_iff, or_false] at hb
    rcases hb with rfl | rfl | rfl <;> simp [voltResidual, triRB]
  · intro b hb
    simp only [triNB, List.mem_cons, List.mem_nil_iff, or_false] at hb
    rcases hb with rfl | rfl | rfl <;> simp [Elem.lawResidual, triRB] <;> norm_num
  · intro n
    by_cases h : "1" = n <;>
      simp [triNB, kclResidual, incidence, Elem.physCurrent, Elem.isLossy, Elem.kind, triRB, h] <;>
      try (split_ifs <;> norm_num)

theorem triRC_solves : CircuitEqs triNC triRC := by
  rw [← circuitEqsAll_iff]
  refine ⟨by decide, ?_, ?_, ?_⟩
  · intro b hb
    simp only [triNC, List.mem_cons, List.mem_nil_iff, or_false] at hb
    rcases hb with rfl | rfl | rfl <;> simp [voltResidual, triRC]
  · intro b hb
    simp only [triNC, List.mem_cons, List.mem_nil_iff, or_false] at hb
    rcases hb with rfl | rfl | rfl <;> simp [Elem.lawResidual, triRC] <;> norm_num
  · intro n
    by_cases h : "1" = n <;>
      simp [triNC, kclResidual, incidence, Elem.physCurrent, Elem.isLossy, Elem.kind, triRC, h] <;>
      try (split_ifs <;> norm_num)

theorem triN_wellPosed : WellPosed triN := by
  intro R hR
  have hz : triN.zeroSources = (⟨[⟨"1", "0", "Vq", "", .norton 2 0⟩, ⟨"1", "0", "Iq", "", .thevenin (1/2) 0⟩,
      ⟨"1", "0", "J", "", .thevenin 0 0⟩], "0"⟩ : Net String ℚ) := by
    simp [Net.zeroSources, triN, Elem.zeroSources]
  rw [hz] at hR
  have h0 : R.pot "0" = 0 := hR.ref_zero
  have v1 := hR.volt ⟨"1", "0", "Vq", "", .norton 2 0⟩ (by simp)
  have v2 := hR.volt ⟨"1", "0", "Iq", "", .thevenin (1/2) 0⟩ (by simp)
  have v3 := hR.volt ⟨"1", "0", "J", "", .thevenin 0 0⟩ (by simp)
  have l1 := hR.law ⟨"1", "0", "Vq", "", .norton 2 0⟩ (by simp)
  have l2 := hR.law ⟨"1", "0", "Iq", "", .thevenin (1/2) 0⟩ (by simp)
  have l3 := hR.law ⟨"1", "0", "J", "", .thevenin 0 0⟩ (by simp)
  have k1 := hR.kcl "1" (by simp [Net.allLabels])
  simp [voltResidual] at v1 v2 v3
  simp [Elem.lawResidual] at l1 l2 l3
  simp [kclResidual, incidence, Elem.physCurrent, Elem.isLossy, Elem.kind] at k1
  have p1 : R.pot "1" = 0 := by
    linear_combination k1 + (1/2) * l1 - l2 - l3 - (1/2) * v1 - (1/2) * v2 + h0
  have i1 : R.i "Vq" = 0 := by linear_combination (1/2) * (v1 - l1) + (1/2) * p1 - (1/2) * h0
  have i2 : R.i "Iq" = 0 := by linear_combination l2 + (1/2) * v2 + (1/2) * p1 - (1/2) * h0
  constructor
  · intro n hn
    simp only [triN, Net.allLabels, List.map_cons, List.map_nil, List.cons_append,
      List.nil_append, List.mem_cons, List.mem_nil_iff, or_false] at hn
    rcases hn with rfl | rfl | rfl | rfl | rfl | rfl | rfl <;> simp [Report.zeroRep, h0, p1]
  · intro b hb
    simp only [triN, List.mem_cons, List.mem_nil_iff, or_false] at hb
    rcases hb with rfl | rfl | rfl <;> simp only [Report.zeroRep]
    · exact ⟨by linear_combination v1 + p1 - h0, i1⟩
    · exact ⟨by linear_combination v2 + p1 - h0, i2⟩
    · exact ⟨by linear_combination v3 + p1 - h0, l3⟩

/-- the exemption lists of `triParts` are "each active source alone", in listing order -/
theorem triParts_keeps :
    triParts.map (·.keep) = (triN.branches.filter (·.e.isActive)).map fun b => [b.key] := by
  simp [triParts, triN, Elem.isActive, Elem.isVSrc, Elem.Vval, Elem.isCS, Elem.Ival, Branch.key]

theorem triParts_deact : ∀ p ∈ triParts, deactivateOthers triN p.keep = .ok p.net := by
  intro p hp
  simp only [triParts, List.mem_cons, List.mem_nil_iff, or_false] at hp
  rcases hp with rfl | rfl | rfl
  · exact triN_A
  · exact triN_B
  · exact triN_C

theorem triParts_sol : ∀ p ∈ triParts, CircuitEqs p.net p.rep := by
  intro p hp
  simp only [triParts, List.mem_cons, List.mem_nil_iff, or_false] at hp
  rcases hp with rfl | rfl | rfl
  · exact triRA_solves
  · exact triRB_solves
  · exact triRC_solves

/-- **C04 (three sources, each alone — non-vacuity).**  The three-source network `triN` meets every
hypothesis of `C04_each_source_alone` / `C04_zeroing_superpose_groups` (distinct identifiers, well-posed, one
part per active source, the library returns `triNA` / `triNB` / `triNC`, all four circuits solved), and the
conclusions read on it: the potential −7 = −4 − 1 − 2; the reported current of the ideal source `J` is the
plain sum 2 = 0 + 0 + 2; the reported current of the lossy source `Vq` is −1/2 = −2 − (−1/2) − (−1) (own part
minus the others), NOT the plain sum −7/2; that of the lossy `Iq` is 5/2 = −1/2 − (−2) − (−1). -/
theorem C04_three_sources :
    triN.ids.Nodup ∧ WellPosed triN ∧
    (triParts.map (·.keep) = (triN.branches.filter (·.e.isActive)).map fun b => [b.key]) ∧
    (∀ p ∈ triParts, deactivateOthers triN p.keep = .ok p.net) ∧
    (∀ p ∈ triParts, CircuitEqs p.net p.rep) ∧ CircuitEqs triN triR ∧
    triR.pot "1" = triRA.pot "1" + triRB.pot "1" + triRC.pot "1" ∧
    triR.i "J" = triRA.i "J" + triRB.i "J" + triRC.i "J" ∧
    triR.i "Vq" = triRA.i "Vq" - triRB.i "Vq" - triRC.i "Vq" ∧
    triR.i "Iq" = triRB.i "Iq" - triRA.i "Iq" - triRC.i "Iq" ∧
    triR.i "Vq" ≠ triRA.i "Vq" + triRB.i "Vq" + triRC.i "Vq" := by
  refine ⟨triN_ids, triN_wellPosed, triParts_keeps, triParts_deact, triParts_sol, triR_solves, ?_, ?_, ?_, ?_, ?_⟩ <;>
    simp [triR, triRA, triRB, triRC] <;> norm_num

/-- the relation for the lossy `Iq` (middle part) obtained FROM `C04_each_source_alone` -/
example : triR.i "Iq" = triRB.i "Iq" - (triRA.i "Iq" + (triRC.i "Iq" + 0)) :=
  (C04_each_source_alone triN triParts triN_ids triN_wellPosed triParts_keeps triParts_deact triParts_sol
    triR triR_solves).2.2.2 ⟨"1", "0", "Iq", "", .thevenin (1/2) 1⟩ (by simp [triN])
    (by simp [Elem.isLossy, Elem.kind])
    [⟨[⟨"Vq", "", .norton 2 8⟩], triNA, triRA⟩] ⟨[⟨"Iq", "", .thevenin (1/2) 1⟩], triNB, triRB⟩
    [⟨[⟨"J", "", .thevenin 0 2⟩], triNC, triRC⟩] rfl rfl

/-- the potential of node `1` obtained FROM `C04_zeroing_superpose_groups` (partition hypothesis included) -/
example : triR.pot "1" = triRA.pot "1" + (triRB.pot "1" + (triRC.pot "1" + 0)) :=
  (C04_zeroing_superpose_groups triN triParts triN_ids triN_wellPosed triParts_deact triParts_sol
    (each_source_partition triN triN_ids triParts (·.keep) triParts_keeps) triR triR_solves).1 "1"
    (by simp [Net.allLabels, triN])

/-- the validity hypothesis of the reported versions on the three-source network, and existence of the
solution vectors they quantify over -/
theorem triN_wf : triN.WF := by
  refine ⟨triN_ids, ?_, ?_⟩
  · rw [mem_nodeLabels]; right
    exact ⟨⟨"1", "0", "Vq", "", .norton 2 8⟩, by simp [triN], Or.inr rfl⟩
  · intro b hb
    simp only [triN, List.mem_cons, List.mem_nil_iff, or_false] at hb
    rcases hb with rfl | rfl | rfl <;> simp

example : ∃ x : List ℚ, x.length = triN.nodes.length + triN.vsIds.length ∧ matVec triN.mnaA x = triN.mnaB := by
  obtain ⟨x, hx, h, _⟩ := C01_exists triN triN_wf triN_wellPosed
  exact ⟨x, hx, h⟩

end CC
