/-
  Property C04 — linearity at the level of the numbers the code reports (round 5).

  `CC/Properties/C04.lean` proves linearity, scaling and the all-sources-zero case for *any*
  solution of the Spec (`CircuitEqsAll`), and one reported-level corollary
  (`C04_reported_superpose`: potentials and voltages).  This file closes the remaining
  reported-level gaps, always through `C01_sound` (whatever solves the matrix equation is a
  solution of the circuit) and `C01_reported_is_the_solution` (for a well-posed network the
  accessors report *the* solution):

    C04_reported_zero_all          all sources zero ⇒ the code reports 0 everywhere (the `a = 0` case)
    C04_reported_scale             sources scaled by ANY `a` (zero included) ⇒ every reported
                                   potential, voltage and current scales by `a`, every reported
                                   power by `a · conj a` (= |a|²)
    C04_reported_superpose_current reported currents superpose on every branch that is not a
                                   linear (lossy) source in any of the three networks
                                   (the exclusion is the open finding C04; it is a hypothesis here)
    C04_lossy_current_counterexample          the exclusion is necessary: unrestricted superposition of
                                   reported currents is FALSE (Spec level, concrete witness over ℚ)
    C04_reported_lossy_current_counterexample the same for the values `get_current` returns

  Validity (`Net.WF`) and well-posedness are assumed for ONE of the networks only: both depend on
  the skeleton, not on the source values (`withSrc_wf`, `withSrc_wellPosed`).
-/
import CC.Properties.C04
import CC.Properties.C01Det
import CC.Proofs.GQField
set_option linter.unusedSectionVars false
set_option linter.unnecessarySeqFocus false

namespace CC
variable {L K : Type} [DecidableEq L] [LabelOrd L] [Field K] [DecidableEq K]

/-! ### validity and well-posedness do not depend on the source values -/

theorem withSrc_n1 (bs : List (Branch L K)) (s : String → K) :
    (withSrc bs s).map (·.n1) = bs.map (·.n1) := by simp [withSrc, Function.comp_def]

theorem withSrc_n2 (bs : List (Branch L K)) (s : String → K) :
    (withSrc bs s).map (·.n2) = bs.map (·.n2) := by simp [withSrc, Function.comp_def]

theorem withSrc_isEmpty (bs : List (Branch L K)) (s : String → K) :
    (withSrc bs s).isEmpty = bs.isEmpty := by simp [withSrc]

theorem withSrc_nodeLabels (bs : List (Branch L K)) (z : L) (s t : String → K) :
    (⟨withSrc bs s, z⟩ : Net L K).nodeLabels = (⟨withSrc bs t, z⟩ : Net L K).nodeLabels := by
  simp only [Net.nodeLabels, withSrc_n1, withSrc_n2, withSrc_isEmpty]

theorem withSrc_allLabels (bs : List (Branch L K)) (z : L) (s t : String → K) :
    (⟨withSrc bs s, z⟩ : Net L K).allLabels = (⟨withSrc bs t, z⟩ : Net L K).allLabels := by
  simp only [Net.allLabels, withSrc_n1, withSrc_n2]

theorem mem_withSrc {bs : List (Branch L K)} (s : String → K) {b : Branch L K} (hb : b ∈ bs) :
    ({ b with e := b.e.setSrc (s b.id) } : Branch L K) ∈ withSrc bs s :=
  List.mem_map.mpr ⟨b, hb, rfl⟩

/-- validity of a network is a property of its skeleton -/
theorem withSrc_wf (bs : List (Branch L K)) (z : L) (s t : String → K)
    (wf : (⟨withSrc bs s, z⟩ : Net L K).WF) : (⟨withSrc bs t, z⟩ : Net L K).WF := by
  refine ⟨?_, ?_, ?_⟩
  · have := wf.ids_nodup
    simpa [Net.ids, withSrc_ids] using this
  · rw [withSrc_nodeLabels bs z t s]; exact wf.zero_mem
  · intro b hb
    obtain ⟨c, hc, rfl⟩ := List.mem_map.mp hb
    exact wf.no_self_loop ({ c with e := c.e.setSrc (s c.id) } : Branch L K) (mem_withSrc s hc)

theorem setSrc_zeroSources (e : Elem K) (s : K) : (e.setSrc s).zeroSources = e.zeroSources := by
  cases e <;> rfl

theorem withSrc_zeroSources (bs : List (Branch L K)) (z : L) (s t : String → K) :
    (⟨withSrc bs s, z⟩ : Net L K).zeroSources = (⟨withSrc bs t, z⟩ : Net L K).zeroSources := by
  simp [Net.zeroSources, withSrc, setSrc_zeroSources, Function.comp_def]

theorem withSrc_agreeOn (bs : List (Branch L K)) (z : L) (s t : String → K) (R S : Report L K)
    (h : R.AgreeOn (⟨withSrc bs s, z⟩ : Net L K) S) : R.AgreeOn (⟨withSrc bs t, z⟩ : Net L K) S := by
  refine ⟨?_, ?_⟩
  · intro n hn
    rw [withSrc_allLabels bs z t s] at hn
    exact h.1 n hn
  · intro b hb
    obtain ⟨c, hc, rfl⟩ := List.mem_map.mp hb
    exact h.2 ({ c with e := c.e.setSrc (s c.id) } : Branch L K) (mem_withSrc s hc)

/-- well-posedness of a network is a property of its skeleton -/
theorem withSrc_wellPosed (bs : List (Branch L K)) (z : L) (s t : String → K)
    (hw : WellPosed (⟨withSrc bs s, z⟩ : Net L K)) : WellPosed (⟨withSrc bs t, z⟩ : Net L K) := by
  intro R hR
  rw [withSrc_zeroSources bs z t s] at hR
  exact withSrc_agreeOn bs z s t _ _ (hw R hR)

/-! ### all sources zero: the code reports zero (the case `a = 0` of the scaling clause) -/

/-- **C04 (all sources deactivated, reported values).**  For a valid, well-posed skeleton whose
source values are all zero: whatever vector satisfies the matrix equation the code builds, every
accessor succeeds and returns `0` — the potential of every node label, the voltage, the current
and the power (`V·conj I`, any ring endomorphism `conj`) of every branch.

Not covered: that the library's zeroing operations produce `withSrc bs fun _ => 0`
(`C16_zero_voltage_spec` / `C16_zero_current_spec` plus the structural correspondence). -/
theorem C04_reported_zero_all (conj : K →+* K) (bs : List (Branch L K)) (z : L)
    (wf : (⟨withSrc bs fun _ => 0, z⟩ : Net L K).WF)
    (hw : WellPosed (⟨withSrc bs fun _ => 0, z⟩ : Net L K))
    (x : List K)
    (hx : x.length = (⟨withSrc bs fun _ => 0, z⟩ : Net L K).nodes.length
        + (⟨withSrc bs fun _ => 0, z⟩ : Net L K).vsIds.length)
    (h : matVec (⟨withSrc bs fun _ => 0, z⟩ : Net L K).mnaA x
        = (⟨withSrc bs fun _ => 0, z⟩ : Net L K).mnaB) :
    let N : Net L K := ⟨withSrc bs fun _ => 0, z⟩
    (∀ n ∈ N.allLabels, N.potential x n = .ok 0) ∧
    (∀ b ∈ N.branches, N.voltage x b.id = .ok 0 ∧ N.current x b.id = .ok 0 ∧
        N.power conj x b.id = .ok 0) := by
  intro N
  have hS : CircuitEqs N (Report.zeroRep : Report L K) :=
    (circuitEqsAll_iff N _).mp (C04_zero_all bs z)
  obtain ⟨ap, ab⟩ := C01_reported_is_the_solution N wf hw x hx h _ hS
  obtain ⟨sp, sb, _⟩ := C01_sound N x wf hx h
  refine ⟨?_, ?_⟩
  · intro n hn
    rw [sp n hn, ap n hn]; rfl
  · intro b hb
    have hv : (N.reportOf x).v b.id = 0 := (ab b hb).1
    have hi : (N.reportOf x).i b.id = 0 := (ab b hb).2
    refine ⟨?_, ?_, ?_⟩
    · rw [(sb b hb).1, hv]
    · rw [(sb b hb).2, hi]
    · rw [C01_power (⇑conj) N x wf b hb, hv, hi, map_zero, mul_zero]

/-! ### scaling, reported values -/

/-- **C04 (scaling, reported values).**  Let `bs` be a skeleton (topology, identifiers,
immittances) with reference `z`, valid and well-posed, `s` any source assignment and `a` ANY
scalar (zero included).  Whatever vectors `x1`, `x` satisfy the two matrix equations the code
builds for the sources `s` and `a·s`: on every node label and every branch the accessors of both
runs succeed, and the scaled run returns `a` times the potential, `a` times the voltage, `a` times
the current — reported current, in the library's reference direction, lossy sources included —
and `a · conj a` times the power of the unscaled run.  (`conj` is any ring endomorphism; for
`K = ℂ` and complex conjugation `a · conj a = |a|²`.)

Not covered: floating-point rounding (the statement is about exact solutions of the two matrix
equations), and networks that are not well-posed (no unique solution to compare). -/
theorem C04_reported_scale (conj : K →+* K) (bs : List (Branch L K)) (z : L) (s : String → K) (a : K)
    (wf1 : (⟨withSrc bs s, z⟩ : Net L K).WF) (hw1 : WellPosed (⟨withSrc bs s, z⟩ : Net L K))
    (x1 x : List K)
    (hx1 : x1.length = (⟨withSrc bs s, z⟩ : Net L K).nodes.length + (⟨withSrc bs s, z⟩ : Net L K).vsIds.length)
    (hx : x.length = (⟨withSrc bs fun id => a * s id, z⟩ : Net L K).nodes.length
        + (⟨withSrc bs fun id => a * s id, z⟩ : Net L K).vsIds.length)
    (h1 : matVec (⟨withSrc bs s, z⟩ : Net L K).mnaA x1 = (⟨withSrc bs s, z⟩ : Net L K).mnaB)
    (h : matVec (⟨withSrc bs fun id => a * s id, z⟩ : Net L K).mnaA x
        = (⟨withSrc bs fun id => a * s id, z⟩ : Net L K).mnaB) :
    let N1 : Net L K := ⟨withSrc bs s, z⟩
    let N : Net L K := ⟨withSrc bs fun id => a * s id, z⟩
    (∀ n ∈ N.allLabels, ∃ p, N1.potential x1 n = .ok p ∧ N.potential x n = .ok (a * p)) ∧
    (∀ b ∈ bs, ∃ v i, N1.voltage x1 b.id = .ok v ∧ N1.current x1 b.id = .ok i ∧
        N1.power conj x1 b.id = .ok (v * conj i) ∧
        N.voltage x b.id = .ok (a * v) ∧ N.current x b.id = .ok (a * i) ∧
        N.power conj x b.id = .ok ((a * conj a) * (v * conj i))) := by
  intro N1 N
  have wf : N.WF := withSrc_wf bs z s _ wf1
  have hw : WellPosed N := withSrc_wellPosed bs z s _ hw1
  have hids : (bs.map (·.id)).Nodup := by
    have := wf1.ids_nodup
    simpa [Net.ids, withSrc_ids] using this
  obtain ⟨sp1, sb1, e1'⟩ := C01_sound N1 x1 wf1 hx1 h1
  obtain ⟨sp, sb, _⟩ := C01_sound N x wf hx h
  have e1 := (circuitEqsAll_iff N1 _).mpr e1'
  -- a solution of the scaled circuit whose values are `a` times the reported ones
  have key : ∃ S : Report L K, CircuitEqsAll (withSrc bs fun id => a * s id) z S ∧
      (∀ n, S.pot n = a * (N1.reportOf x1).pot n) ∧ (∀ id, S.v id = a * (N1.reportOf x1).v id) ∧
      (∀ b ∈ bs, S.i b.id = a * (N1.reportOf x1).i b.id) := by
    by_cases ha : a = 0
    · refine ⟨Report.zeroRep, ?_, ?_, ?_, ?_⟩
      · have e : (fun id => a * s id) = fun _ => (0 : K) := by funext id; rw [ha, zero_mul]
        rw [e]; exact C04_zero_all bs z
      · intro n; simp [Report.zeroRep, ha]
      · intro id; simp [Report.zeroRep, ha]
      · intro b _; simp [Report.zeroRep, ha]
    · exact C04_scale bs z hids a ha s _ e1
  obtain ⟨S, hS, hp, hv, hi⟩ := key
  have hS' : CircuitEqs N S := (circuitEqsAll_iff N S).mp hS
  obtain ⟨ap, ab⟩ := C01_reported_is_the_solution N wf hw x hx h S hS'
  refine ⟨?_, ?_⟩
  · intro n hn
    have hn1 : n ∈ N1.allLabels := by rw [withSrc_allLabels bs z s fun id => a * s id]; exact hn
    exact ⟨_, sp1 n hn1, by rw [sp n hn, ap n hn, hp]⟩
  · intro b hb
    have m1 := mem_withSrc s hb
    have m := mem_withSrc (fun id => a * s id) hb
    have q1 := sb1 _ m1
    have q := sb _ m
    have r := ab _ m
    have pw1 := C01_power (⇑conj) N1 x1 wf1 _ m1
    have pw := C01_power (⇑conj) N x wf _ m
    simp only at q1 q r pw1 pw
    refine ⟨_, _, q1.1, q1.2, pw1, ?_, ?_, ?_⟩
    · rw [q.1, r.1, hv]
    · rw [q.2, r.2, hi b hb]
    · rw [pw, r.1, r.2, hv, hi b hb, C04_scale_power]

/-! ### superposition of reported currents (lossy sources excluded by hypothesis) -/

/-- **C04 (superposition of reported currents — PARTIAL).**  For a valid, well-posed skeleton:
whatever vectors satisfy the three matrix equations the code builds for the source assignments
`s1`, `s2` and `s1 + s2`, the current the accessor returns for the sum is the sum of the currents
returned for the parts, on every branch that is not a linear (lossy) source in any of the three
networks.

The three `isLossy = false` hypotheses are the open finding C04 and are NOT removable: the reported
current of a lossy source is in generator direction while its source value is non-zero and in
passive direction once it is zero (see `C04_superpose`); only its physical current superposes
(`C04_linear`). -/
theorem C04_reported_superpose_current (bs : List (Branch L K)) (z : L) (s1 s2 : String → K)
    (wf : (⟨withSrc bs fun id => s1 id + s2 id, z⟩ : Net L K).WF)
    (hw : WellPosed (⟨withSrc bs fun id => s1 id + s2 id, z⟩ : Net L K))
    (x1 x2 x : List K)
    (hx1 : x1.length = (⟨withSrc bs s1, z⟩ : Net L K).nodes.length + (⟨withSrc bs s1, z⟩ : Net L K).vsIds.length)
    (hx2 : x2.length = (⟨withSrc bs s2, z⟩ : Net L K).nodes.length + (⟨withSrc bs s2, z⟩ : Net L K).vsIds.length)
    (hx : x.length = (⟨withSrc bs fun id => s1 id + s2 id, z⟩ : Net L K).nodes.length
        + (⟨withSrc bs fun id => s1 id + s2 id, z⟩ : Net L K).vsIds.length)
    (h1 : matVec (⟨withSrc bs s1, z⟩ : Net L K).mnaA x1 = (⟨withSrc bs s1, z⟩ : Net L K).mnaB)
    (h2 : matVec (⟨withSrc bs s2, z⟩ : Net L K).mnaA x2 = (⟨withSrc bs s2, z⟩ : Net L K).mnaB)
    (h : matVec (⟨withSrc bs fun id => s1 id + s2 id, z⟩ : Net L K).mnaA x
        = (⟨withSrc bs fun id => s1 id + s2 id, z⟩ : Net L K).mnaB) :
    let N : Net L K := ⟨withSrc bs fun id => s1 id + s2 id, z⟩
    let N1 : Net L K := ⟨withSrc bs s1, z⟩
    let N2 : Net L K := ⟨withSrc bs s2, z⟩
    ∀ b ∈ bs, (b.e.setSrc (s1 b.id + s2 b.id)).isLossy = false →
      (b.e.setSrc (s1 b.id)).isLossy = false → (b.e.setSrc (s2 b.id)).isLossy = false →
      ∃ i1 i2, N1.current x1 b.id = .ok i1 ∧ N2.current x2 b.id = .ok i2 ∧
        N.current x b.id = .ok (i1 + i2) := by
  intro N N1 N2 b hb l3 l1 l2
  have wf1 : N1.WF := withSrc_wf bs z _ s1 wf
  have wf2 : N2.WF := withSrc_wf bs z _ s2 wf
  have hids : (bs.map (·.id)).Nodup := by
    have := wf.ids_nodup
    simpa [Net.ids, withSrc_ids] using this
  obtain ⟨_, sb1, c1⟩ := C01_sound N1 x1 wf1 hx1 h1
  obtain ⟨_, sb2, c2⟩ := C01_sound N2 x2 wf2 hx2 h2
  obtain ⟨_, sb, _⟩ := C01_sound N x wf hx h
  have e1 := (circuitEqsAll_iff N1 _).mpr c1
  have e2 := (circuitEqsAll_iff N2 _).mpr c2
  obtain ⟨S, hS, _, _, hi⟩ := C04_superpose bs z hids s1 s2 _ _ e1 e2
  have hS' : CircuitEqs N S := (circuitEqsAll_iff N S).mp hS
  obtain ⟨_, ab⟩ := C01_reported_is_the_solution N wf hw x hx h S hS'
  have q1 := (sb1 _ (mem_withSrc s1 hb)).2
  have q2 := (sb2 _ (mem_withSrc s2 hb)).2
  have q := (sb _ (mem_withSrc (fun id => s1 id + s2 id) hb)).2
  have r := (ab _ (mem_withSrc (fun id => s1 id + s2 id) hb)).2
  simp only at q1 q2 q r
  exact ⟨_, _, q1, q2, by rw [q, r, hi b hb l3 l1 l2]⟩

/-! ### non-vacuity: the example network of C01 meets every hypothesis -/

/-- `exampleNet` (V = 10 V, R1 = 5 Ω, R2 = 1/5 S) is well-posed -/
theorem exampleNet_wellPosed : WellPosed exampleNet := by
  intro R hR
  have hz : exampleNet.zeroSources = ({ zero := "0", branches := [
      { n1 := "1", n2 := "0", id := "V", e := .norton 0 0 },
      { n1 := "1", n2 := "2", id := "R1", e := .norton 5 0 },
      { n1 := "2", n2 := "0", id := "R2", e := .thevenin (1/5) 0 } ] } : Net String ℚ) := by
    simp [Net.zeroSources, exampleNet, Elem.zeroSources]
  rw [hz] at hR
  have h0 : R.pot "0" = 0 := hR.ref_zero
  have v1 := hR.volt ⟨"1", "0", "V", "", .norton 0 0⟩ (by simp)
  have v2 := hR.volt ⟨"1", "2", "R1", "", .norton 5 0⟩ (by simp)
  have v3 := hR.volt ⟨"2", "0", "R2", "", .thevenin (1/5) 0⟩ (by simp)
  have l1 := hR.law ⟨"1", "0", "V", "", .norton 0 0⟩ (by simp)
  have l2 := hR.law ⟨"1", "2", "R1", "", .norton 5 0⟩ (by simp)
  have l3 := hR.law ⟨"2", "0", "R2", "", .thevenin (1/5) 0⟩ (by simp)
  have k1 := hR.kcl "1" (by simp [Net.allLabels])
  have k2 := hR.kcl "2" (by simp [Net.allLabels])
  simp [voltResidual] at v1 v2 v3
  simp [Elem.lawResidual] at l1 l2 l3
  simp [kclResidual, incidence, Elem.physCurrent, Elem.isLossy, Elem.kind] at k1 k2
  have p1 : R.pot "1" = 0 := by linear_combination l1 - v1 + h0
  have p2 : R.pot "2" = 0 := by
    linear_combination (5/2) * k2 + (1/2) * (v2 - l2) + (1/2) * p1 - (5/2) * l3 - (1/2) * v3 + (1/2) * h0
  have i2 : R.i "R2" = 0 := by linear_combination l3 + (1/5) * v3 + (1/5) * p2 - (1/5) * h0
  have i1 : R.i "R1" = 0 := by linear_combination (1/5) * (v2 - l2) + (1/5) * p1 - (1/5) * p2
  have iV : R.i "V" = 0 := by linear_combination k1 - i1
  constructor
  · intro n hn
    simp only [exampleNet, Net.allLabels, List.map_cons, List.map_nil, List.cons_append,
      List.nil_append, List.mem_cons, List.mem_nil_iff, or_false] at hn
    rcases hn with rfl | rfl | rfl | rfl | rfl | rfl | rfl <;> simp [Report.zeroRep, h0, p1, p2]
  · intro b hb
    simp only [exampleNet, List.mem_cons, List.mem_nil_iff, or_false] at hb
    rcases hb with rfl | rfl | rfl <;> simp only [Report.zeroRep]
    · exact ⟨l1, iV⟩
    · exact ⟨by linear_combination l2 + 5 * i1, i1⟩
    · exact ⟨by linear_combination v3 + p2 - h0, i2⟩

/-- the source assignment of `exampleNet` over its own skeleton -/
def exampleSrc : String → ℚ := fun id => if id = "V" then 10 else 0

theorem exampleNet_withSrc : (⟨withSrc exampleNet.branches exampleSrc, "0"⟩ : Net String ℚ) = exampleNet := by
  simp [withSrc, exampleNet, exampleSrc, Elem.setSrc]

/-- the hypotheses of `C04_reported_scale` are met by `exampleNet`, scale factor `-3`: both
matrix equations have solution vectors of the right length -/
example : ∃ x1 x : List ℚ,
    (⟨withSrc exampleNet.branches exampleSrc, "0"⟩ : Net String ℚ).WF ∧
    WellPosed (⟨withSrc exampleNet.branches exampleSrc, "0"⟩ : Net String ℚ) ∧
    x1.length = (⟨withSrc exampleNet.branches exampleSrc, "0"⟩ : Net String ℚ).nodes.length
      + (⟨withSrc exampleNet.branches exampleSrc, "0"⟩ : Net String ℚ).vsIds.length ∧
    x.length = (⟨withSrc exampleNet.branches fun id => -3 * exampleSrc id, "0"⟩ : Net String ℚ).nodes.length
      + (⟨withSrc exampleNet.branches fun id => -3 * exampleSrc id, "0"⟩ : Net String ℚ).vsIds.length ∧
    matVec (⟨withSrc exampleNet.branches exampleSrc, "0"⟩ : Net String ℚ).mnaA x1
      = (⟨withSrc exampleNet.branches exampleSrc, "0"⟩ : Net String ℚ).mnaB ∧
    matVec (⟨withSrc exampleNet.branches fun id => -3 * exampleSrc id, "0"⟩ : Net String ℚ).mnaA x
      = (⟨withSrc exampleNet.branches fun id => -3 * exampleSrc id, "0"⟩ : Net String ℚ).mnaB := by
  have wf1 : (⟨withSrc exampleNet.branches exampleSrc, "0"⟩ : Net String ℚ).WF := by
    rw [exampleNet_withSrc]; exact exampleNet_wf
  have hw1 : WellPosed (⟨withSrc exampleNet.branches exampleSrc, "0"⟩ : Net String ℚ) := by
    rw [exampleNet_withSrc]; exact exampleNet_wellPosed
  obtain ⟨x1, hx1, h1, _⟩ := C01_exists _ wf1 hw1
  obtain ⟨x, hx, h, _⟩ := C01_exists _ (withSrc_wf _ _ _ (fun id => -3 * exampleSrc id) wf1)
    (withSrc_wellPosed _ _ _ (fun id => -3 * exampleSrc id) hw1)
  exact ⟨x1, x, wf1, hw1, hx1, hx, h1, h⟩

/-- the hypotheses of `C04_reported_zero_all` and `C04_reported_superpose_current` are met likewise
(any source assignment over the skeleton of `exampleNet`; the resistor branches are not lossy) -/
example (s : String → ℚ) : (⟨withSrc exampleNet.branches s, "0"⟩ : Net String ℚ).WF ∧
    WellPosed (⟨withSrc exampleNet.branches s, "0"⟩ : Net String ℚ) ∧
    ∃ x : List ℚ, x.length = (⟨withSrc exampleNet.branches s, "0"⟩ : Net String ℚ).nodes.length
      + (⟨withSrc exampleNet.branches s, "0"⟩ : Net String ℚ).vsIds.length ∧
      matVec (⟨withSrc exampleNet.branches s, "0"⟩ : Net String ℚ).mnaA x
        = (⟨withSrc exampleNet.branches s, "0"⟩ : Net String ℚ).mnaB := by
  have wf : (⟨withSrc exampleNet.branches s, "0"⟩ : Net String ℚ).WF :=
    withSrc_wf _ _ exampleSrc s (by rw [exampleNet_withSrc]; exact exampleNet_wf)
  have hw : WellPosed (⟨withSrc exampleNet.branches s, "0"⟩ : Net String ℚ) :=
    withSrc_wellPosed _ _ exampleSrc s (by rw [exampleNet_withSrc]; exact exampleNet_wellPosed)
  obtain ⟨x, hx, h, _⟩ := C01_exists _ wf hw
  exact ⟨wf, hw, x, hx, h⟩

/-- the three non-lossy hypotheses of `C04_reported_superpose_current` hold for the resistor `R1`
of `exampleNet` under the decomposition `exampleSrc + exampleSrc` (and fail, rightly, for a branch
that carries both an impedance and a non-zero source value) -/
example : let b : Branch String ℚ := { n1 := "1", n2 := "2", id := "R1", e := .norton 5 0 }
    b ∈ exampleNet.branches ∧ (b.e.setSrc (exampleSrc b.id + exampleSrc b.id)).isLossy = false ∧
      (b.e.setSrc (exampleSrc b.id)).isLossy = false := by
  refine ⟨by simp [exampleNet], ?_, ?_⟩ <;> simp [exampleSrc, Elem.setSrc, Elem.isLossy, Elem.kind]

/-! ### the lossy exclusion is necessary: a kernel-checked counterexample (open finding C04) -/

/-- skeleton of the finding's input: `Vq` (internal impedance 2 Ω) and `Iq` (internal admittance
1/2 S), both between nodes `1` and `0` -/
def lossySkeleton : List (Branch String ℚ) :=
  [ { n1 := "1", n2 := "0", id := "Vq", e := .norton 2 0 },
    { n1 := "1", n2 := "0", id := "Iq", e := .thevenin (1/2) 0 } ]

/-- part 1: `Vq = 8 V` alone (`Iq` deactivated into its admittance) -/
def lossyS1 : String → ℚ := fun id => if id = "Vq" then 8 else 0
/-- part 2: `Iq = 1 A` alone (`Vq` deactivated into its impedance) -/
def lossyS2 : String → ℚ := fun id => if id = "Iq" then 1 else 0

def lossyR1 : Report String ℚ :=
  { pot := fun n => if n = "1" then -4 else 0, v := fun _ => -4, i := fun _ => -2 }
def lossyR2 : Report String ℚ :=
  { pot := fun n => if n = "1" then -1 else 0, v := fun _ => -1, i := fun _ => -1/2 }
def lossyR : Report String ℚ :=
  { pot := fun n => if n = "1" then -5 else 0, v := fun _ => -5, i := fun id => if id = "Vq" then -3/2 else 3/2 }

theorem lossy_net1 : withSrc lossySkeleton lossyS1 =
    [ { n1 := "1", n2 := "0", id := "Vq", e := .norton 2 8 },
      { n1 := "1", n2 := "0", id := "Iq", e := .thevenin (1/2) 0 } ] := by
  simp [withSrc, lossySkeleton, lossyS1, Elem.setSrc]

theorem lossy_net2 : withSrc lossySkeleton lossyS2 =
    [ { n1 := "1", n2 := "0", id := "Vq", e := .norton 2 0 },
      { n1 := "1", n2 := "0", id := "Iq", e := .thevenin (1/2) 1 } ] := by
  simp [withSrc, lossySkeleton, lossyS2, Elem.setSrc]

theorem lossy_net : (withSrc lossySkeleton fun id => lossyS1 id + lossyS2 id) =
    [ { n1 := "1", n2 := "0", id := "Vq", e := .norton 2 8 },
      { n1 := "1", n2 := "0", id := "Iq", e := .thevenin (1/2) 1 } ] := by
  simp [withSrc, lossySkeleton, lossyS1, lossyS2, Elem.setSrc]

theorem lossyR1_solves : CircuitEqsAll (withSrc lossySkeleton lossyS1) "0" lossyR1 := by
  rw [lossy_net1]
  refine ⟨by decide, ?_, ?_, ?_⟩
  · intro b hb
    simp only [List.mem_cons, List.mem_nil_iff, or_false] at hb
    rcases hb with rfl | rfl <;> simp [voltResidual, lossyR1]
  · intro b hb
    simp only [List.mem_cons, List.mem_nil_iff, or_false] at hb
    rcases hb with rfl | rfl <;> simp [Elem.lawResidual, lossyR1] <;> norm_num
  · intro n
    by_cases h : "1" = n <;>
      simp [kclResidual, incidence, Elem.physCurrent, Elem.isLossy, Elem.kind, lossyR1, h]

theorem lossyR2_solves : CircuitEqsAll (withSrc lossySkeleton lossyS2) "0" lossyR2 := by
  rw [lossy_net2]
  refine ⟨by decide, ?_, ?_, ?_⟩
  · intro b hb
    simp only [List.mem_cons, List.mem_nil_iff, or_false] at hb
    rcases hb with rfl | rfl <;> simp [voltResidual, lossyR2]
  · intro b hb
    simp only [List.mem_cons, List.mem_nil_iff, or_false] at hb
    rcases hb with rfl | rfl <;> simp [Elem.lawResidual, lossyR2] <;> norm_num
  · intro n
    by_cases h : "1" = n <;>
      simp [kclResidual, incidence, Elem.physCurrent, Elem.isLossy, Elem.kind, lossyR2, h]

theorem lossyR_solves :
    CircuitEqsAll (withSrc lossySkeleton fun id => lossyS1 id + lossyS2 id) "0" lossyR := by
  rw [lossy_net]
  refine ⟨by decide, ?_, ?_, ?_⟩
  · intro b hb
    simp only [List.mem_cons, List.mem_nil_iff, or_false] at hb
    rcases hb with rfl | rfl <;> simp [voltResidual, lossyR]
  · intro b hb
    simp only [List.mem_cons, List.mem_nil_iff, or_false] at hb
    rcases hb with rfl | rfl <;> simp [Elem.lawResidual, lossyR] <;> norm_num
  · intro n
    by_cases h : "1" = n <;>
      simp [kclResidual, incidence, Elem.physCurrent, Elem.isLossy, Elem.kind, lossyR, h] <;>
      split_ifs <;> norm_num

/-- **C04 (the lossy exclusion is necessary — Spec level).**  Superposition of the *reported*
current without the `isLossy = false` hypotheses of `C04_superpose` is FALSE: for `Vq = 8 V`
behind 2 Ω in parallel with `Iq = 1 A` beside 1/2 S, the reported current of `Vq` is −3/2 A with
both sources active, −2 A with `Vq` alone (generator direction) and −1/2 A with `Iq` alone
(passive direction, `Vq` is then a plain impedance); −3/2 ≠ −2 + −1/2.  Voltages (−5 = −4 − 1) and
physical currents (3/2 = 2 − 1/2) do superpose, as `C04_linear` says. -/
theorem C04_lossy_current_counterexample :
    ¬ ∀ (bs : List (Branch String ℚ)) (z : String) (s1 s2 : String → ℚ) (R1 R2 R : Report String ℚ),
        (bs.map (·.id)).Nodup →
        CircuitEqsAll (withSrc bs s1) z R1 → CircuitEqsAll (withSrc bs s2) z R2 →
        CircuitEqsAll (withSrc bs fun id => s1 id + s2 id) z R →
        ∀ b ∈ bs, R.i b.id = R1.i b.id + R2.i b.id := by
  intro hall
  have := hall lossySkeleton "0" lossyS1 lossyS2 lossyR1 lossyR2 lossyR (by decide)
    lossyR1_solves lossyR2_solves lossyR_solves
    { n1 := "1", n2 := "0", id := "Vq", e := .norton 2 0 } (by simp [lossySkeleton])
  simp [lossyR, lossyR1, lossyR2] at this
  norm_num at this

/-! the same at the level of the numbers the code reports -/

theorem lossy_wf (s : String → ℚ) : (⟨withSrc lossySkeleton s, "0"⟩ : Net String ℚ).WF := by
  refine ⟨?_, ?_, ?_⟩
  · simp [Net.ids, withSrc_ids, lossySkeleton]
  · rw [mem_nodeLabels]; right
    exact ⟨_, mem_withSrc s (b := { n1 := "1", n2 := "0", id := "Vq", e := .norton 2 0 })
      (by simp [lossySkeleton]), Or.inr rfl⟩
  · intro b hb
    obtain ⟨c, hc, rfl⟩ := List.mem_map.mp hb
    simp only [lossySkeleton, List.mem_cons, List.mem_nil_iff, or_false] at hc
    rcases hc with rfl | rfl <;> simp

theorem lossy_wellPosed (s : String → ℚ) : WellPosed (⟨withSrc lossySkeleton s, "0"⟩ : Net String ℚ) := by
  apply withSrc_wellPosed lossySkeleton "0" (fun _ => 0) s
  intro R hR
  have hz : (⟨withSrc lossySkeleton fun _ => 0, "0"⟩ : Net String ℚ).zeroSources
      = (⟨lossySkeleton, "0"⟩ : Net String ℚ) := by
    simp [Net.zeroSources, withSrc, lossySkeleton, Elem.zeroSources, Elem.setSrc]
  have hb : (⟨withSrc lossySkeleton fun _ => 0, "0"⟩ : Net String ℚ) = (⟨lossySkeleton, "0"⟩ : Net String ℚ) := by
    simp [withSrc, lossySkeleton, Elem.setSrc]
  rw [hz] at hR
  rw [hb]
  have h0 : R.pot "0" = 0 := hR.ref_zero
  have v1 := hR.volt ⟨"1", "0", "Vq", "", .norton 2 0⟩ (by simp [lossySkeleton])
  have v2 := hR.volt ⟨"1", "0", "Iq", "", .thevenin (1/2) 0⟩ (by simp [lossySkeleton])
  have l1 := hR.law ⟨"1", "0", "Vq", "", .norton 2 0⟩ (by simp [lossySkeleton])
  have l2 := hR.law ⟨"1", "0", "Iq", "", .thevenin (1/2) 0⟩ (by simp [lossySkeleton])
  have k1 := hR.kcl "1" (by simp [Net.allLabels, lossySkeleton])
  simp [voltResidual] at v1 v2
  simp [Elem.lawResidual] at l1 l2
  simp [kclResidual, lossySkeleton, incidence, Elem.physCurrent, Elem.isLossy, Elem.kind] at k1
  have p1 : R.pot "1" = 0 := by linear_combination k1 + (1/2) * l1 - l2 - (1/2) * v1 - (1/2) * v2 + h0
  have i1 : R.i "Vq" = 0 := by linear_combination (1/2) * (v1 - l1) + (1/2) * p1 - (1/2) * h0
  have i2 : R.i "Iq" = 0 := by linear_combination k1 - i1
  constructor
  · intro n hn
    simp only [lossySkeleton, Net.allLabels, List.map_cons, List.map_nil, List.cons_append,
      List.nil_append, List.mem_cons, List.mem_nil_iff, or_false] at hn
    rcases hn with rfl | rfl | rfl | rfl | rfl <;> simp [Report.zeroRep, h0, p1]
  · intro b hb
    simp only [lossySkeleton, List.mem_cons, List.mem_nil_iff, or_false] at hb
    rcases hb with rfl | rfl <;> simp only [Report.zeroRep]
    · exact ⟨by linear_combination l1 + 2 * i1, i1⟩
    · exact ⟨by linear_combination v2 + p1 - h0, i2⟩

/-- what the accessor returns for the current of `Vq`, for any source assignment over the skeleton:
the value of the (unique) solution `R` of the circuit equations -/
theorem lossy_current_Vq (s : String → ℚ) (R : Report String ℚ)
    (hR : CircuitEqsAll (withSrc lossySkeleton s) "0" R) (x : List ℚ)
    (hx : x.length = (⟨withSrc lossySkeleton s, "0"⟩ : Net String ℚ).nodes.length
        + (⟨withSrc lossySkeleton s, "0"⟩ : Net String ℚ).vsIds.length)
    (h : matVec (⟨withSrc lossySkeleton s, "0"⟩ : Net String ℚ).mnaA x
        = (⟨withSrc lossySkeleton s, "0"⟩ : Net String ℚ).mnaB) :
    (⟨withSrc lossySkeleton s, "0"⟩ : Net String ℚ).current x "Vq" = .ok (R.i "Vq") := by
  have m := mem_withSrc s (bs := lossySkeleton) (b := { n1 := "1", n2 := "0", id := "Vq", e := .norton 2 0 })
    (by simp [lossySkeleton])
  have q := ((C01_sound _ x (lossy_wf s) hx h).2.1 _ m).2
  have r := ((C01_reported_is_the_solution _ (lossy_wf s) (lossy_wellPosed s) x hx h R
    ((circuitEqsAll_iff (⟨withSrc lossySkeleton s, "0"⟩ : Net String ℚ) R).mp hR)).2 _ m).2
  simp only at q r
  rw [q, r]

/-- **C04 (the lossy exclusion is necessary — reported values).**  On the valid, well-posed
skeleton `Vq` (2 Ω) ∥ `Iq` (1/2 S): whatever vectors solve the three matrix equations the code
builds for `Vq = 8 V` alone, `Iq = 1 A` alone, and both, `get_current('Vq')` returns −2, −1/2 and
−3/2 — the full response is not the sum of the parts.  So the three `isLossy = false` hypotheses of
`C04_reported_superpose_current` cannot be dropped for the current code (open finding C04).  Such
vectors exist (`C01_exists`). -/
theorem C04_reported_lossy_current_counterexample :
    (∀ x1 x2 x : List ℚ,
      x1.length = (⟨withSrc lossySkeleton lossyS1, "0"⟩ : Net String ℚ).nodes.length
        + (⟨withSrc lossySkeleton lossyS1, "0"⟩ : Net String ℚ).vsIds.length →
      x2.length = (⟨withSrc lossySkeleton lossyS2, "0"⟩ : Net String ℚ).nodes.length
        + (⟨withSrc lossySkeleton lossyS2, "0"⟩ : Net String ℚ).vsIds.length →
      x.length = (⟨withSrc lossySkeleton fun id => lossyS1 id + lossyS2 id, "0"⟩ : Net String ℚ).nodes.length
        + (⟨withSrc lossySkeleton fun id => lossyS1 id + lossyS2 id, "0"⟩ : Net String ℚ).vsIds.length →
      matVec (⟨withSrc lossySkeleton lossyS1, "0"⟩ : Net String ℚ).mnaA x1
        = (⟨withSrc lossySkeleton lossyS1, "0"⟩ : Net String ℚ).mnaB →
      matVec (⟨withSrc lossySkeleton lossyS2, "0"⟩ : Net String ℚ).mnaA x2
        = (⟨withSrc lossySkeleton lossyS2, "0"⟩ : Net String ℚ).mnaB →
      matVec (⟨withSrc lossySkeleton fun id => lossyS1 id + lossyS2 id, "0"⟩ : Net String ℚ).mnaA x
        = (⟨withSrc lossySkeleton fun id => lossyS1 id + lossyS2 id, "0"⟩ : Net String ℚ).mnaB →
      (⟨withSrc lossySkeleton lossyS1, "0"⟩ : Net String ℚ).current x1 "Vq" = .ok (-2) ∧
      (⟨withSrc lossySkeleton lossyS2, "0"⟩ : Net String ℚ).current x2 "Vq" = .ok (-1/2) ∧
      (⟨withSrc lossySkeleton fun id => lossyS1 id + lossyS2 id, "0"⟩ : Net String ℚ).current x "Vq"
        = .ok (-3/2)) ∧
    (-3/2 : ℚ) ≠ -2 + -1/2 ∧
    (∃ x1 x2 x : List ℚ,
      (x1.length = (⟨withSrc lossySkeleton lossyS1, "0"⟩ : Net String ℚ).nodes.length
        + (⟨withSrc lossySkeleton lossyS1, "0"⟩ : Net String ℚ).vsIds.length ∧
       matVec (⟨withSrc lossySkeleton lossyS1, "0"⟩ : Net String ℚ).mnaA x1
        = (⟨withSrc lossySkeleton lossyS1, "0"⟩ : Net String ℚ).mnaB) ∧
      (x2.length = (⟨withSrc lossySkeleton lossyS2, "0"⟩ : Net String ℚ).nodes.length
        + (⟨withSrc lossySkeleton lossyS2, "0"⟩ : Net String ℚ).vsIds.length ∧
       matVec (⟨withSrc lossySkeleton lossyS2, "0"⟩ : Net String ℚ).mnaA x2
        = (⟨withSrc lossySkeleton lossyS2, "0"⟩ : Net String ℚ).mnaB) ∧
      (x.length = (⟨withSrc lossySkeleton fun id => lossyS1 id + lossyS2 id, "0"⟩ : Net String ℚ).nodes.length
        + (⟨withSrc lossySkeleton fun id => lossyS1 id + lossyS2 id, "0"⟩ : Net String ℚ).vsIds.length ∧
       matVec (⟨withSrc lossySkeleton fun id => lossyS1 id + lossyS2 id, "0"⟩ : Net String ℚ).mnaA x
        = (⟨withSrc lossySkeleton fun id => lossyS1 id + lossyS2 id, "0"⟩ : Net String ℚ).mnaB)) := by
  refine ⟨?_, by norm_num, ?_⟩
  · intro x1 x2 x hx1 hx2 hx h1 h2 h
    refine ⟨?_, ?_, ?_⟩
    · rw [lossy_current_Vq lossyS1 lossyR1 lossyR1_solves x1 hx1 h1]; rfl
    · rw [lossy_current_Vq lossyS2 lossyR2 lossyR2_solves x2 hx2 h2]; rfl
    · rw [lossy_current_Vq _ lossyR lossyR_solves x hx h]; rfl
  · obtain ⟨x1, hx1, h1, _⟩ := C01_exists _ (lossy_wf lossyS1) (lossy_wellPosed lossyS1)
    obtain ⟨x2, hx2, h2, _⟩ := C01_exists _ (lossy_wf lossyS2) (lossy_wellPosed lossyS2)
    obtain ⟨x, hx, h, _⟩ := C01_exists _ (lossy_wf fun id => lossyS1 id + lossyS2 id)
      (lossy_wellPosed fun id => lossyS1 id + lossyS2 id)
    exact ⟨x1, x2, x, ⟨hx1, h1⟩, ⟨hx2, h2⟩, ⟨hx, h⟩⟩

/-! ### the power factor over the driver's complex numbers -/

/-- complex conjugation of the driver's Gaussian rationals, as a ring endomorphism -/
def GQ.conjHom : GQ →+* GQ where
  toFun := GQ.conj
  map_one' := by apply GQ.ext' <;> simp [GQ.conj]
  map_mul' := by intro a b; apply GQ.ext' <;> simp [GQ.conj] <;> ring
  map_zero' := by apply GQ.ext' <;> simp [GQ.conj]
  map_add' := by intro a b; apply GQ.ext' <;> simp [GQ.conj] <;> ring

/-- **C04 (|a|²).**  For the exact complex numbers of the driver the power factor `a · conj a` of
`C04_reported_scale` (taken with `conj := GQ.conjHom`, the conjugation `get_power` uses) is the
real number `|a|² = re² + im²`. -/
theorem C04_scale_factor_is_abs_sq (a : GQ) : a * GQ.conjHom a = GQ.ofRat (a.re * a.re + a.im * a.im) := by
  apply GQ.ext' <;> simp [GQ.conjHom, GQ.conj, GQ.ofRat] <;> ring


end CC

