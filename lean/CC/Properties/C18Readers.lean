/-
  C18 (round 5b) — verified readers for the remaining composite texts: Cartesian complex (`parseCartesian` of
  `CC.Spec.Fmt`, the reader the oracle runs), time function (`parseSinusoid`) and `P`/`Q` (`parsePQ`, both of
  `CC.Spec.FmtReaders`), on the texts of the model `CC.Model.Fmt`; and what a time-function text denotes, over the reals.

  As in `CC.Properties.C18Polar`: `abs(value)`, `cmath.phase(value)` (+ quarter turn), `math.degrees`, `w/2/pi` are
  parameters — the read-back theorems are about the numbers handed to the formatter; `C18_sinusoid_denotes` bounds the
  distance of *any* wave from `Re(X·e^{jwt})` in terms of the distances of its three numbers from `‖X‖`, `w`, `arg X`.
  All read-back statements inherit the real-path domain (`InDomain`, `CfgOK`).
-/
import Mathlib.Analysis.SpecialFunctions.Trigonometric.Bounds
import CC.Properties.C18Polar
import CC.Proofs.FmtReaders

namespace CC
open CC.Fmt CC.Gen.Fmt

/-! ## helpers -/

/-- a text that satisfies `RealOK` is readable, and what is read satisfies the clauses -/
theorem RealOK.parse {v : ℚ} {p : ℕ} {m : ℤ} {u s : List Char} (h : RealOK v p m u s) :
    ∃ t, parseBack u s = some t ∧ realFailures v p m (some t) = [] := by
  unfold RealOK at h
  cases hp : parseBack u s with
  | none => rw [hp] at h; simp [realFailures] at h
  | some t => rw [hp] at h; exact ⟨t, rfl, h⟩

theorem withNeg_false_of_isNeg {t : Text} (h : t.isNeg = false) : t.withNeg false = t := by
  cases t with
  | inf n => simp only [Text.isNeg] at h; subst h; rfl
  | num q => simp only [Text.isNeg] at h; show Text.num { q with neg := false } = _; rw [← h]

/-- the real-part text with its sign, as the Cartesian reader reads it -/
theorem parseSignedC_signed (unit T : List Char) (compact : Bool) (re : ℚ) {t : Text}
    (h : parseBack unit T = some t) (hn : t.isNeg = false) :
    parseSignedC unit ((if 0 ≤ re then [] else if compact then ['-'] else ['-', ' ']) ++ T)
      = some (t.withNeg (decide (re < 0))) := by
  by_cases hre : 0 ≤ re
  · have : decide (re < 0) = false := by simp [hre]
    rw [if_pos hre, this, withNeg_false_of_isNeg hn, List.nil_append]
    exact parseSignedC_pos h hn
  · have : decide (re < 0) = true := by simp [not_le.mp hre]
    rw [if_neg hre, this]
    cases compact
    · exact parseSignedC_neg_wide h
    · exact parseSignedC_neg h

/-! ## Cartesian complex text -/

/-- **C18_cartesian_reads_back** (text level) — the Cartesian reader `parseCartesian` of the Spec (the reader the oracle
runs) applied to the model text of `ScientificComplex.__str__`, for every `CfgOK` configuration whose unit and prefix
letters contain neither `j` nor a space, compact or not, and every value both of whose parts are in the domain:
there are part texts `tr`, `ti` that satisfy **every clause of `RealOK` with respect to the signed parts `re`, `im`**
(half a unit of the `p`-th digit, engineering form, saturation, and the sign: `neg` is the sign read off the `-` / `+`
character), and the reader returns exactly the parts `C18_complex_shown_parts` names: `(tr, absent)` when `|im|`
`is_zero`; `(absent, ti)` when `|re|` `is_zero` and `|im|` does not; `(tr, ti)` otherwise.

Not claimed: that a part reported absent is negligible (`is_zero` drops parts the prefixes can express: open finding 2,
`C18_complex_suppression_counterexample`). -/
theorem C18_cartesian_reads_back (c : SCCfg) (re im absV angle : ℚ) (hpol : c.polar = false) (hcfg : CfgOK c.toSFCfg)
    (hre : InDomain re c.precision) (him : InDomain im c.precision)
    (hj : Foreign 'j' c.toSFCfg) (hsp : Foreign ' ' c.toSFCfg) :
    ∃ tr ti : Text,
      realFailures re c.precision (c.toSFCfg.value3 (qabs re)).maxExp (some tr) = []
      ∧ realFailures im c.precision (c.toSFCfg.value3 (qabs im)).maxExp (some ti) = []
      ∧ ((c.toSFCfg.value3 (qabs im)).isZero = true →
          parseCartesian c.unit (c.str re im absV angle) = some (some tr, none))
      ∧ ((c.toSFCfg.value3 (qabs im)).isZero = false → (c.toSFCfg.value3 (qabs re)).isZero = true →
          parseCartesian c.unit (c.str re im absV angle) = some (none, some ti))
      ∧ ((c.toSFCfg.value3 (qabs im)).isZero = false → (c.toSFCfg.value3 (qabs re)).isZero = false →
          parseCartesian c.unit (c.str re im absV angle) = some (some tr, some ti)) := by
  obtain ⟨e1, e2, e3, e4, okr, oki⟩ := C18_complex_shown_parts c re im absV angle hpol hcfg hre him
  obtain ⟨t_r, pr, fr⟩ := RealOK.parse okr
  obtain ⟨t_i, pi, fi⟩ := RealOK.parse oki
  have hrpos : 0 < qabs re := by rw [qabs_eq_abs]; exact abs_pos.mpr hre.1
  have hipos : 0 < qabs im := by rw [qabs_eq_abs]; exact abs_pos.mpr him.1
  have nr := isNeg_of_realFailures_pos fr hrpos
  have ni := isNeg_of_realFailures_pos fi hipos
  have jr : 'j' ∉ c.toSFCfg.str (qabs re) := not_mem_str hj _
  have sr : ' ' ∉ c.toSFCfg.str (qabs re) := not_mem_str hsp _
  have ner : c.toSFCfg.str (qabs re) ≠ [] := by
    intro e; rw [e, parseBack_nil] at pr; cases pr
  set SR : List Char := (if 0 ≤ re then [] else if c.compact then ['-'] else ['-', ' ']) with hSR
  have jSR : 'j' ∉ SR := by
    rw [hSR]; split_ifs <;> decide
  have jX : 'j' ∉ SR ++ c.toSFCfg.str (qabs re) := by
    intro h; rcases List.mem_append.mp h with h | h
    · exact jSR h
    · exact jr h
  have hsigned := parseSignedC_signed c.unit (c.toSFCfg.str (qabs re)) c.compact re pr nr
  rw [← hSR] at hsigned
  refine ⟨t_r.withNeg (decide (re < 0)), t_i.withNeg (decide (im < 0)),
    realFailures_withNeg fr hre.1, realFailures_withNeg fi him.1, ?_, ?_, ?_⟩
  · intro hz
    rw [e1 hz, parseCartesian_re _ _ jX, hsigned]; rfl
  · intro hz1 hz2
    by_cases hneg : im < 0
    · rw [e2 hz1 hz2 hneg]
      have hd : decide (im < 0) = true := by simp [hneg]
      have := parseCartesian_full c.unit [] (c.toSFCfg.str (qabs im)) '-' (Or.inr rfl) (!c.compact) (by simp) dts_nil pi
      rw [if_neg (not_le.mpr hneg), hd]
      cases hc : c.compact <;> simpa [hc] using this
    · rw [e3 hz1 hz2 hneg]
      have hd : decide (im < 0) = false := by simp [hneg]
      rw [hd, withNeg_false_of_isNeg ni]
      exact parseCartesian_im_pos _ _ pi
  · intro hz1 hz2
    rw [e4 hz1 hz2]
    have hX : dropTrailingSpaces (SR ++ c.toSFCfg.str (qabs re)) = SR ++ c.toSFCfg.str (qabs re) :=
      dts_append _ ner sr
    have hXne : SR ++ c.toSFCfg.str (qabs re) ≠ [] := by simp [ner]
    by_cases hpos : 0 ≤ im
    · have hd : decide (im < 0) = false := by simp [hpos]
      have := parseCartesian_full c.unit _ (c.toSFCfg.str (qabs im)) '+' (Or.inl rfl) (!c.compact) jX hX pi
      rw [if_neg hXne, hsigned] at this
      rw [if_pos hpos, hd]
      cases hc : c.compact <;> simpa [hc] using this
    · have hd : decide (im < 0) = true := by simp [not_le.mp hpos]
      have := parseCartesian_full c.unit _ (c.toSFCfg.str (qabs im)) '-' (Or.inr rfl) (!c.compact) jX hX pi
      rw [if_neg hXne, hsigned] at this
      rw [if_neg hpos, hd]
      cases hc : c.compact <;> simpa [hc] using this


/-- **C18_cartesian_zero_part_reads_back** — values with an exactly zero part (excluded by `InDomain` above): a purely
real value reads as `(tr, absent)`, a purely imaginary value whose imaginary part is not suppressed as `(absent, ti)`,
the part shown satisfying every clause of `RealOK` w.r.t. the signed part. -/
theorem C18_cartesian_zero_part_reads_back (c : SCCfg) (absV angle : ℚ) (hpol : c.polar = false)
    (hcfg : CfgOK c.toSFCfg) (hj : Foreign 'j' c.toSFCfg) :
    (∀ re, InDomain re c.precision → ∃ tr : Text,
        realFailures re c.precision (c.toSFCfg.value3 (qabs re)).maxExp (some tr) = []
        ∧ parseCartesian c.unit (c.str re 0 absV angle) = some (some tr, none))
    ∧ (∀ im, InDomain im c.precision → (c.toSFCfg.value3 (qabs im)).isZero = false → ∃ ti : Text,
        realFailures im c.precision (c.toSFCfg.value3 (qabs im)).maxExp (some ti) = []
        ∧ parseCartesian c.unit (c.str 0 im absV angle) = some (none, some ti)) := by
  obtain ⟨z1, z2⟩ := C18_zero_part_read_back c hcfg
  constructor
  · intro re hre
    obtain ⟨t_r, pr, fr⟩ := RealOK.parse (z1 re hre)
    have hrpos : 0 < qabs re := by rw [qabs_eq_abs]; exact abs_pos.mpr hre.1
    have nr := isNeg_of_realFailures_pos fr hrpos
    have jr : 'j' ∉ c.toSFCfg.str (qabs re) := not_mem_str hj _
    have jX : 'j' ∉ (if 0 ≤ re then [] else if c.compact then ['-'] else ['-', ' ']) ++ c.toSFCfg.str (qabs re) := by
      intro h; rcases List.mem_append.mp h with h | h
      · revert h; split_ifs <;> decide
      · exact jr h
    refine ⟨t_r.withNeg (decide (re < 0)), realFailures_withNeg fr hre.1, ?_⟩
    rw [C18_cartesian_zero_im c re absV angle hpol, parseCartesian_re _ _ jX,
      parseSignedC_signed c.unit _ c.compact re pr nr]
    rfl
  · intro im him hz
    obtain ⟨t_i, pi, fi⟩ := RealOK.parse (z2 im him)
    have hipos : 0 < qabs im := by rw [qabs_eq_abs]; exact abs_pos.mpr him.1
    have ni := isNeg_of_realFailures_pos fi hipos
    refine ⟨t_i.withNeg (decide (im < 0)), realFailures_withNeg fi him.1, ?_⟩
    rw [(C18_cartesian_zero_re c im absV angle hpol).1 hz]
    by_cases hneg : im < 0
    · have hd : decide (im < 0) = true := by simp [hneg]
      have := parseCartesian_full c.unit [] (c.toSFCfg.str (qabs im)) '-' (Or.inr rfl) (!c.compact) (by simp) dts_nil pi
      rw [if_pos hneg, hd]
      cases hc : c.compact <;> simpa [hc] using this
    · have hd : decide (im < 0) = false := by simp [hneg]
      rw [if_neg hneg, hd, withNeg_false_of_isNeg ni]
      exact parseCartesian_im_pos _ _ pi

/-- `j` and the space are foreign to every `print_complex` configuration whose unit contains neither -/
theorem foreign_print_complex (ch : Char) (hn : ¬ NumCh ch) (he : ch ≠ 'e') (hi : ch ≠ '∞')
    (ht : ∀ q ∈ print_complex_call0.table, ch ∉ q.2) (unit : List Char) (p : ℕ) (polar deg : Bool) (hu : ch ∉ unit) :
    Foreign ch (scOfCall print_complex_call0 unit p polar deg).toSFCfg :=
  ⟨hn, he, hi, hu, ht⟩

theorem not_numCh_j : ¬ NumCh 'j' := by unfold NumCh; decide
theorem not_numCh_space : ¬ NumCh ' ' := by unfold NumCh; decide

/-- the hypotheses of `C18_cartesian_reads_back` are met by `print_complex(3-4j, 'V')`, and the reader returns both parts -/
example : ∃ tr ti : Text, realFailures 3 3 3 (some tr) = [] ∧ realFailures (-4) 3 3 (some ti) = []
    ∧ parseCartesian ['V'] (printComplex 3 (-4) 5 0 ['V'] 3 false false) = some (some tr, some ti) := by
  have hd : ∀ x : ℚ, 1 ≤ |x| → |x| < 10 → InDomain x 3 := by
    intro x h1 h2
    refine ⟨by intro e; rw [e] at h1; norm_num at h1, by linarith, ?_⟩
    unfold RoundsUpToOne; intro h; linarith [h.2]
  obtain ⟨tr, ti, h1, h2, _, _, h5⟩ := C18_cartesian_reads_back (scOfCall print_complex_call0 ['V'] 3 false false)
    3 (-4) 5 0 rfl (cfgOK_print_complex ['V'] 3 false false (by decide) (by decide))
    (hd 3 (by norm_num) (by norm_num)) (hd (-4) (by norm_num) (by norm_num))
    (foreign_print_complex 'j' not_numCh_j (by decide) (by decide) (by decide) _ _ _ _ (by decide))
    (foreign_print_complex ' ' not_numCh_space (by decide) (by decide) (by decide) _ _ _ _ (by decide))
  exact ⟨tr, ti, h1, h2, h5 (by decide +kernel) (by decide +kernel)⟩

example : printComplex 3 (-4) 5 0 ['V'] 3 false false = ['3', '.', '0', '0', 'V', '-', 'j', '4', '.', '0', '0', 'V'] := by
  decide +kernel


/-! ## saturation inside the domain -/

/-- a value of the domain that does not reach the end of the range after rounding is shown as a finite text -/
theorem not_saturated (c : SFCfg) (v : ℚ) (hcfg : CfgOK c) (hd : InDomain v c.precision)
    (hb : ¬ BeyondRounded v c.precision (c.value3 v).maxExp) : (c.value3 v).isInf = false := by
  cases h : (c.value3 v).isInf with
  | false => rfl
  | true => exact absurd ((C18_saturate_domain c v hcfg.1 hd.1 hd.2.1 hd.2.2).2 h).1 hb

/-- half a unit of the `p`-th digit is at most half the value -/
theorem halfUnit_le_half (v : ℚ) (p : ℕ) (hp : 1 ≤ p) (hv : v ≠ 0) : halfUnit v p ≤ |v| / 2 := by
  have hpos : 0 < qabs v := by rw [qabs_eq_abs]; exact abs_pos.mpr hv
  obtain ⟨h1, _⟩ := decade_spec hpos
  unfold halfUnit
  have hp' : (1 : ℤ) ≤ p := by exact_mod_cast hp
  have : pow10 (decade (qabs v) - (p : ℤ) + 1) ≤ pow10 (decade (qabs v)) := pow10_le_pow10 (by omega)
  rw [qabs_eq_abs] at h1 this
  rw [qabs_eq_abs]
  linarith

/-- without prefixes (exponent range 16) no value of the domain saturates -/
theorem not_beyond_16 (v : ℚ) (p : ℕ) (hp : 1 ≤ p) (hd : InDomain v p) : ¬ BeyondRounded v p 16 := by
  unfold BeyondRounded
  have h := halfUnit_le_half v p hp hd.1
  have h16 := hd.2.1
  have e : pow10 (16 + 3) = 10000000000000000000 := by decide +kernel
  rw [e, qabs_eq_abs]
  intro hle
  linarith

/-- a finite text is what a non-saturating value reads back to -/
theorem realFailures_finite {v : ℚ} {p : ℕ} {m : ℤ} {t : Text} (h : realFailures v p m (some t) = [])
    (hb : ¬ BeyondRounded v p m) : ∃ q : Parsed, t = .num q := by
  cases t with
  | inf n => rw [realFailures_inf] at h; exact absurd h.1 hb
  | num q => exact ⟨q, rfl⟩

/-- the sign convention with an explicit sign flag: a magnitude text that reads back to `|x|`, with the sign `b`, reads
back to `±|x|` -/
theorem realFailures_withNeg_flag {x : ℚ} {p : ℕ} {m : ℤ} {t : Text} (b : Bool)
    (h : realFailures (qabs x) p m (some t) = []) (hx : x ≠ 0) :
    realFailures ((if b then -1 else 1) * qabs x) p m (some (t.withNeg b)) = [] := by
  have hpos : 0 < qabs x := by rw [qabs_eq_abs]; exact abs_pos.mpr hx
  set v' : ℚ := (if b then -1 else 1) * qabs x with hv'
  have hq : qabs v' = qabs x := by
    rw [hv', qabs_eq_abs, qabs_eq_abs, abs_mul, abs_abs]
    cases b <;> simp
  have hb : decide (v' < 0) = b := by
    rw [hv']; cases b
    · simp [le_of_lt hpos]
    · simp [hpos]
  have hne : v' ≠ 0 := by
    rw [hv']; cases b <;> simp [hpos.ne']
  have := realFailures_withNeg (v := v') (by rw [hq]; exact h) hne
  rwa [hb] at this

/-! ## time function -/

/-- a character foreign to a configuration built from a constructor call -/
theorem foreign_of_call (ch : Char) (k : CallCfg) (unit : List Char) (p : ℕ) (hn : ¬ NumCh ch) (he : ch ≠ 'e')
    (hi : ch ≠ '∞') (hu : ch ∉ k.unit.getD unit) (ht : ∀ q ∈ k.table, ch ∉ q.2) : Foreign ch (cfgOfCall k unit p) :=
  ⟨hn, he, hi, hu, ht⟩

theorem not_numCh_dot : ¬ NumCh '·' := by unfold NumCh; decide
theorem not_numCh_pi : ¬ NumCh 'π' := by unfold NumCh; decide
theorem not_numCh_deg : ¬ NumCh '°' := by unfold NumCh; decide
theorem not_numCh_nl : ¬ NumCh '\n' := by unfold NumCh; decide

/-- the phase the text denotes: the magnitude handed to the formatter (`|phase|`, or `|degrees(phase)|` in degree mode)
with the sign of the phase in radians (the sign character is chosen on it) -/
def shownPhase (phase phaseDeg : ℚ) (deg : Bool) : ℚ :=
  (if decide (phase < 0) then -1 else 1) * qabs (if deg then phaseDeg else phase)

theorem shownPhase_rad (phase phaseDeg : ℚ) : shownPhase phase phaseDeg false = phase := by
  unfold shownPhase
  simp only [Bool.false_eq_true, ↓reduceIte, decide_eq_true_eq, qabs_eq_abs]
  by_cases h : phase < 0
  · rw [if_pos h, abs_of_neg h]; ring
  · rw [if_neg h, abs_of_nonneg (not_lt.mp h)]; ring

/-- **C18_sinusoid_reads_back** (text level) — the reader `parseSinusoid` of the Spec applied to the model text of
`print_sinosoidal` for `w ≠ 0`, for every precision `p ≥ 1`, every readable unit that does not contain `·`, all four
combinations of `sin` / `hertz`, `deg` or not: the reader returns a wave whose
* amplitude satisfies every clause of `RealOK` w.r.t. `absV` (range `u…k`),
* frequency satisfies every clause of `RealOK` w.r.t. `w` (`/s`, range 16) or, with the hertz flag, w.r.t. `wHz` (`Hz`, `m…T`),
* phase is absent exactly when `|phase| ≤` the generated threshold (binary64 `1e-4`) and otherwise satisfies every clause
  of `RealOK` (p digits, range 16) w.r.t. `shownPhase`: the magnitude handed to the formatter with the sign of the phase —
  the phase itself in radian mode (`shownPhase_rad`),
* flags are `sin`, `hertz`, and `deg` when a phase is shown.
`absV`, `phase` (in the sine form already including the generated quarter turn, `C18_sine_shift`), `phaseDeg`, `wHz` are
the numbers handed to the formatter (parameters). -/
theorem C18_sinusoid_reads_back (re absV phase phaseDeg w wHz : ℚ) (unit : List Char) (p : ℕ) (sin deg hertz : Bool)
    (hp : 1 ≤ p) (hunit : UnitOK unit) (hdot : '·' ∉ unit) (hw : w ≠ 0) (habs : InDomain absV p)
    (hfreq : InDomain (if hertz then wHz else w) p)
    (hph : |phase| > print_sinosoidal_phase_threshold → InDomain (if deg then phaseDeg else phase) p) :
    ∃ (ta tf : Text) (tp : Option Text),
      parseSinusoid unit (printSinusoidal re absV phase phaseDeg w wHz unit p sin deg hertz)
        = some (.wave { amplitude := ta, sine := sin, hertz := hertz, freq := tf, phase := tp,
                        deg := decide (|phase| > print_sinosoidal_phase_threshold) && deg })
      ∧ realFailures absV p 3 (some ta) = []
      ∧ realFailures (if hertz then wHz else w) p (if hertz then 12 else 16) (some tf) = []
      ∧ (|phase| ≤ print_sinosoidal_phase_threshold → tp = none)
      ∧ (|phase| > print_sinosoidal_phase_threshold →
          ∃ t, tp = some t ∧ realFailures (shownPhase phase phaseDeg deg) p 16 (some t) = []) := by
  obtain ⟨r1, r2, r3, r4, r5, _⟩ := C18_time_parts_read_back unit p hp hunit
  obtain ⟨ta, pa, fa⟩ := RealOK.parse (r1 absV habs)
  -- frequency
  set F : List Char := if hertz then (cfgOfCall print_sinosoidal_call4 [] p).str wHz
    else (cfgOfCall print_sinosoidal_call5 [] p).str w with hF
  have hFdot : '·' ∉ F := by
    rw [hF]; split_ifs
    · exact not_mem_str (foreign_of_call '·' _ _ _ not_numCh_dot (by decide) (by decide) (by decide) (by decide)) _
    · exact not_mem_str (foreign_of_call '·' _ _ _ not_numCh_dot (by decide) (by decide) (by decide) (by decide)) _
  have hFpi : 'π' ∉ F := by
    rw [hF]; split_ifs
    · exact not_mem_str (foreign_of_call 'π' _ _ _ not_numCh_pi (by decide) (by decide) (by decide) (by decide)) _
    · exact not_mem_str (foreign_of_call 'π' _ _ _ not_numCh_pi (by decide) (by decide) (by decide) (by decide)) _
  obtain ⟨tf, pf, ff⟩ : ∃ tf, parseBack (if hertz then ['H', 'z'] else ['/', 's']) F = some tf
      ∧ realFailures (if hertz then wHz else w) p (if hertz then 12 else 16) (some tf) = [] := by
    cases hertz
    · simp only [Bool.false_eq_true, ↓reduceIte] at hfreq ⊢
      exact RealOK.parse (r4 w hfreq)
    · simp only [↓reduceIte] at hfreq ⊢
      exact RealOK.parse (r5 wHz hfreq)
  -- amplitude
  have hAdot : '·' ∉ printAbs absV unit p :=
    not_mem_str (foreign_of_call '·' print_abs_call0 unit p not_numCh_dot (by decide) (by decide) hdot (by decide)) _
  -- phase
  obtain ⟨tp, hpp, hp1, hp2⟩ : ∃ tp : Option Text,
      parsePhase (timePhasePart phase phaseDeg p deg)
        = some (tp, decide (|phase| > print_sinosoidal_phase_threshold) && deg)
      ∧ (|phase| ≤ print_sinosoidal_phase_threshold → tp = none)
      ∧ (|phase| > print_sinosoidal_phase_threshold →
          ∃ t, tp = some t ∧ realFailures (shownPhase phase phaseDeg deg) p 16 (some t) = []) := by
    by_cases hgt : |phase| > print_sinosoidal_phase_threshold
    · have hd := hph hgt
      have hthr : (0 : ℚ) ≤ print_sinosoidal_phase_threshold := by unfold print_sinosoidal_phase_threshold; norm_num
      have hne : phase ≠ 0 := by intro e; rw [e, abs_zero] at hgt; linarith
      have hsgn : timePhasePart phase phaseDeg p deg
          = (if phase > 0 then '+' else '-') :: (if deg then (cfgOfCall print_sinosoidal_call1 [] p).str (qabs phaseDeg)
              else (cfgOfCall print_sinosoidal_call2 [] p).str (qabs phase)) := by
        unfold timePhasePart; rw [if_pos hgt]; split_ifs <;> rfl
      have hsg : (if phase > 0 then '+' else '-') = '+' ∨ (if phase > 0 then '+' else '-') = '-' := by
        split_ifs <;> simp
      have hdec : decide ((if phase > 0 then '+' else '-') = '-') = decide (phase < 0) := by
        rcases lt_or_gt_of_ne hne with h | h
        · have : ¬ phase > 0 := not_lt.mpr (le_of_lt h)
          simp [this, h]
        · have : ¬ phase < 0 := not_lt.mpr (le_of_lt h)
          simp [h, this]
      rw [hsgn]
      cases deg
      · simp only [Bool.false_eq_true, ↓reduceIte] at hd ⊢
        obtain ⟨t, pt, ft⟩ := RealOK.parse (r2 phase hd)
        have hdeg : '°' ∉ (cfgOfCall print_sinosoidal_call2 [] p).str (qabs phase) :=
          not_mem_str (foreign_of_call '°' _ _ _ not_numCh_deg (by decide) (by decide) (by decide) (by decide)) _
        refine ⟨some (t.withNeg (decide (phase < 0))), ?_, fun h => absurd hgt (not_lt.mpr h), fun _ => ⟨_, rfl, ?_⟩⟩
        · rw [parsePhase_rad _ hsg hdeg pt, hdec]; simp [hgt]
        · exact realFailures_withNeg_flag (decide (phase < 0)) ft hd.1
      · simp only [↓reduceIte] at hd ⊢
        obtain ⟨t, pt, ft⟩ := RealOK.parse (r3 phaseDeg hd)
        have c1 : CfgOK (cfgOfCall print_sinosoidal_call1 [] p) :=
          cfgOK_of_call _ _ _ hp (by decide) ⟨by decide, by decide, by decide, by decide⟩
        have hfin := not_saturated (cfgOfCall print_sinosoidal_call1 [] p) (qabs phaseDeg) c1 hd.magnitude
          (not_beyond_16 _ p hp hd.magnitude)
        have hstr := str_of_not_inf _ _ hfin
        have hT : ∃ T', (cfgOfCall print_sinosoidal_call1 [] p).str (qabs phaseDeg) = T' ++ ['°'] := by
          rw [hstr]; exact ⟨_, by simp only [← List.append_assoc]; rfl⟩
        obtain ⟨T', hT'⟩ := hT
        refine ⟨some (t.withNeg (decide (phase < 0))), ?_, fun h => absurd hgt (not_lt.mpr h), fun _ => ⟨_, rfl, ?_⟩⟩
        · rw [hT'] at pt ⊢
          rw [parsePhase_deg _ hsg pt, hdec]; simp [hgt]
        · exact realFailures_withNeg_flag (decide (phase < 0)) ft hd.1
    · have hle := not_lt.mp hgt
      refine ⟨none, ?_, fun _ => rfl, fun h => absurd h hgt⟩
      have : timePhasePart phase phaseDeg p deg = [] := by unfold timePhasePart; rw [if_neg hgt]
      rw [this, parsePhase_nil]; simp [hgt]
  refine ⟨ta, tf, tp, ?_, fa, ff, hp1, hp2⟩
  rw [C18_time_text _ _ _ _ _ _ _ _ _ _ _ hw]
  have hshape := parseWaveArg_shape ta sin hertz F (timePhasePart phase phaseDeg p deg) hFdot hFpi pf hpp
  have hre : printAbs absV unit p ++ ['·'] ++ (if sin then ['s', 'i', 'n'] else ['c', 'o', 's']) ++ ['(']
        ++ (if hertz then ['2', 'π', '·'] ++ (cfgOfCall print_sinosoidal_call4 [] p).str wHz
            else (cfgOfCall print_sinosoidal_call5 [] p).str w)
        ++ ['·', 't'] ++ timePhasePart phase phaseDeg p deg ++ [')']
      = printAbs absV unit p ++ '·' :: ((if sin then ['s', 'i', 'n'] else ['c', 'o', 's']) ++ ['(']
        ++ (if hertz then ['2', 'π', '·'] ++ F else F) ++ ['·', 't'] ++ timePhasePart phase phaseDeg p deg ++ [')']) := by
    rw [hF]; cases hertz <;> simp
  rw [hre, parseSinusoid_wave _ _ _ hAdot pa, hshape]

/-- at `w = 0` the time-function text is a plain real quantity: the reader returns the constant, which satisfies every
clause of `RealOK` w.r.t. `Re(X)` -/
theorem C18_sinusoid_const_reads_back (re absV phase phaseDeg wHz : ℚ) (unit : List Char) (p : ℕ) (sin deg hertz : Bool)
    (hp : 1 ≤ p) (hunit : UnitOK unit) (hdot : '·' ∉ unit) (hre : InDomain re p) :
    ∃ t : Text, parseSinusoid unit (printSinusoidal re absV phase phaseDeg 0 wHz unit p sin deg hertz) = some (.const t)
      ∧ realFailures re p 3 (some t) = [] := by
  obtain ⟨_, _, _, _, _, r6⟩ := C18_time_parts_read_back unit p hp hunit
  obtain ⟨t, pt, ft⟩ := RealOK.parse (r6 re hre)
  have hdot' : '·' ∉ printReal re unit p :=
    not_mem_str (foreign_of_call '·' print_real_call0 unit p not_numCh_dot (by decide) (by decide) hdot (by decide)) _
  refine ⟨t, ?_, ft⟩
  rw [C18_time_w_zero, parseSinusoid_const _ _ hdot', pt]; rfl


/-! ## active / reactive power -/

/-- **C18_pq_reads_back** (text level) — the reader `parsePQ` of the Spec applied to the model text of
`print_active_reactive_power`, every precision `p ≥ 1`, `Re S` in the domain (and `Im S` when it is shown): the reader
returns the arrow of `P` (`↓` exactly for `Re S > 0`), a magnitude that satisfies every clause of `RealOK` w.r.t.
`|Re S|` in `W` (prefixes `p…T`), and — exactly when `|Im S|` exceeds the generated absolute threshold (binary64 `1e-4`
var: open finding 4) — the arrow of `Q` (`↓` exactly for `Im S > 0`) and a magnitude `RealOK` w.r.t. `|Im S|` in `var`. -/
theorem C18_pq_reads_back (re im : ℚ) (p : ℕ) (hp : 1 ≤ p) (hre : InDomain re p)
    (him : |im| > print_active_reactive_power_q_threshold → InDomain im p) :
    ∃ (tP : Text) (q : Option (Bool × Text)),
      parsePQ (printActiveReactivePower re im p) = some { pDown := decide (re > 0), p := tP, q := q }
      ∧ realFailures (qabs re) p 12 (some tP) = []
      ∧ (|im| ≤ print_active_reactive_power_q_threshold → q = none)
      ∧ (|im| > print_active_reactive_power_q_threshold →
          ∃ tQ, q = some (decide (im > 0), tQ) ∧ realFailures (qabs im) p 12 (some tQ) = []) := by
  obtain ⟨htxt, okP, okQ, _⟩ := C18_active_reactive_text re im p hp
  obtain ⟨tP, pP, fP⟩ := RealOK.parse (okP hre)
  have hnl : '\n' ∉ (cfgOfCall print_active_reactive_power_call0 [] p).str (qabs re) :=
    not_mem_str (foreign_of_call '\n' _ _ _ not_numCh_nl (by decide) (by decide) (by decide) (by decide)) _
  have harrow : ∀ x : ℚ, (if x > 0 then ['↓'] else ['↑']) = (if decide (x > 0) then ['↓'] else ['↑']) := by
    intro x; by_cases h : x > 0 <;> simp [h]
  rw [htxt, harrow re, harrow im]
  by_cases hgt : |im| > print_active_reactive_power_q_threshold
  · obtain ⟨tQ, pQ, fQ⟩ := RealOK.parse (okQ (him hgt))
    refine ⟨tP, some (decide (im > 0), tQ), ?_, fP, fun h => absurd hgt (not_lt.mpr h), fun _ => ⟨tQ, rfl, fQ⟩⟩
    rw [if_pos hgt]
    exact parsePQ_pq _ _ _ _ hnl pP pQ
  · refine ⟨tP, none, ?_, fP, fun _ => rfl, fun h => absurd h hgt⟩
    rw [if_neg hgt, List.append_nil]
    exact parsePQ_p _ _ hnl pP

example : ∃ tP tQ, parsePQ (printActiveReactivePower 3 (-4) 3) = some { pDown := true, p := tP, q := some (false, tQ) }
    ∧ realFailures 3 3 12 (some tP) = [] ∧ realFailures 4 3 12 (some tQ) = [] := by
  have hd : ∀ x : ℚ, 1 ≤ |x| → |x| < 10 → InDomain x 3 := by
    intro x h1 h2
    refine ⟨by intro e; rw [e] at h1; norm_num at h1, by linarith, ?_⟩
    unfold RoundsUpToOne; intro h; linarith [h.2]
  obtain ⟨tP, q, h1, h2, _, h4⟩ := C18_pq_reads_back 3 (-4) 3 (by decide) (hd 3 (by norm_num) (by norm_num))
    (fun _ => hd (-4) (by norm_num) (by norm_num))
  have hgt : |(-4 : ℚ)| > print_active_reactive_power_q_threshold := by
    unfold print_active_reactive_power_q_threshold; norm_num
  obtain ⟨tQ, hq, h5⟩ := h4 hgt
  refine ⟨tP, tQ, ?_, ?_, ?_⟩
  · rw [h1, hq]; simp
  · simpa [qabs_eq_abs] using h2
  · have : qabs (-4 : ℚ) = 4 := by rw [qabs_eq_abs]; norm_num
    rwa [this] at h5


/-! ## what the time-function text denotes -/

/-- the function a wave text denotes: `t ↦ A·cos(ω·t + φ)` (resp. `sin`) -/
noncomputable def waveFn (sine : Bool) (A ω φ t : ℝ) : ℝ :=
  A * (if sine then Real.sin (ω * t + φ) else Real.cos (ω * t + φ))

/-- **C18_wave_lipschitz** — two waves of the same kind whose amplitude, angular frequency and phase differ by
`|A−A'|`, `|ω−ω'|`, `|φ−φ'|` differ on the window `|t| ≤ T` by at most `|A−A'| + |A|·(|ω−ω'|·T + |φ−φ'|)`
(`cos`, `sin` are 1-Lipschitz).  Pure real analysis; all reals. -/
theorem C18_wave_lipschitz (sine : Bool) (A ω φ A' ω' φ' T t : ℝ) (ht : |t| ≤ T) :
    |waveFn sine A ω φ t - waveFn sine A' ω' φ' t| ≤ |A - A'| + |A| * (|ω - ω'| * T + |φ - φ'|) := by
  have harg : |(ω * t + φ) - (ω' * t + φ')| ≤ |ω - ω'| * T + |φ - φ'| := by
    have : (ω * t + φ) - (ω' * t + φ') = (ω - ω') * t + (φ - φ') := by ring
    rw [this]
    calc |(ω - ω') * t + (φ - φ')| ≤ |(ω - ω') * t| + |φ - φ'| := abs_add_le _ _
      _ = |ω - ω'| * |t| + |φ - φ'| := by rw [abs_mul]
      _ ≤ |ω - ω'| * T + |φ - φ'| := by
          have := mul_le_mul_of_nonneg_left ht (abs_nonneg (ω - ω')); linarith
  have key : ∀ (f : ℝ → ℝ), (∀ x y, |f x - f y| ≤ |x - y|) → (∀ x, |f x| ≤ 1) →
      |A * f (ω * t + φ) - A' * f (ω' * t + φ')| ≤ |A - A'| + |A| * (|ω - ω'| * T + |φ - φ'|) := by
    intro f hl hb
    have : A * f (ω * t + φ) - A' * f (ω' * t + φ')
        = A * (f (ω * t + φ) - f (ω' * t + φ')) + (A - A') * f (ω' * t + φ') := by ring
    rw [this]
    calc _ ≤ |A * (f (ω * t + φ) - f (ω' * t + φ'))| + |(A - A') * f (ω' * t + φ')| := abs_add_le _ _
      _ = |A| * |f (ω * t + φ) - f (ω' * t + φ')| + |A - A'| * |f (ω' * t + φ')| := by rw [abs_mul, abs_mul]
      _ ≤ |A| * (|ω - ω'| * T + |φ - φ'|) + |A - A'| * 1 := by
          have h1 := mul_le_mul_of_nonneg_left ((hl _ _).trans harg) (abs_nonneg A)
          have h2 := mul_le_mul_of_nonneg_left (hb (ω' * t + φ')) (abs_nonneg (A - A'))
          linarith
      _ = _ := by ring
  unfold waveFn
  cases sine
  · simpa using key Real.cos Real.abs_cos_sub_cos_le Real.abs_cos_le_one
  · simpa using key Real.sin Real.abs_sin_sub_sin_le Real.abs_sin_le_one

/-- **C18_sinusoid_denotes** — the denotation of a time-function text against the quantity: for a phasor `X` at angular
frequency `w`, any wave `t ↦ A'·cos(w'·t + φ')` differs from `Re(X·e^{jwt})` on the window `|t| ≤ T` by at most
`|‖X‖−A'| + ‖X‖·(|w−w'|·T + |arg X − φ'|)`; and any sine wave `t ↦ A'·sin(w'·t + φ')` by at most the same bound with
`arg X +` the **generated** number of quarter turns (`print_sinosoidal_sin_shift`·π/2) in place of `arg X`.  With `A'`,
`w'`, `φ'` the numbers read off the text (`C18_sinusoid_reads_back`: each within half a unit of its `p`-th digit of the
number handed to the formatter) this bounds the error of the displayed function by the three display tolerances plus
the distance of the numbers handed to the formatter (libm `abs`, `phase`: parameters) from `‖X‖`, `arg X`. -/
theorem C18_sinusoid_denotes (X : ℂ) (w A' w' φ' T t : ℝ) (ht : |t| ≤ T) :
    |(X * Complex.exp (Complex.I * ((w * t : ℝ) : ℂ))).re - waveFn false A' w' φ' t|
        ≤ |‖X‖ - A'| + ‖X‖ * (|w - w'| * T + |X.arg - φ'|)
    ∧ |(X * Complex.exp (Complex.I * ((w * t : ℝ) : ℂ))).re - waveFn true A' w' φ' t|
        ≤ |‖X‖ - A'| + ‖X‖ * (|w - w'| * T
            + |X.arg + ((print_sinosoidal_sin_shift : ℤ) : ℝ) * (Real.pi / 2) - φ'|) := by
  obtain ⟨h1, h2⟩ := C18_time_function_denotes X w t
  have hn : |‖X‖| = ‖X‖ := abs_of_nonneg (norm_nonneg X)
  constructor
  · have := C18_wave_lipschitz false ‖X‖ w X.arg A' w' φ' T t ht
    rw [hn] at this
    rw [h1]
    simpa [waveFn] using this
  · have := C18_wave_lipschitz true ‖X‖ w (X.arg + ((print_sinosoidal_sin_shift : ℤ) : ℝ) * (Real.pi / 2)) A' w' φ' T t ht
    rw [hn] at this
    rw [h1, h2]
    simpa [waveFn] using this

end CC
