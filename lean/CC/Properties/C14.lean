/-
  C14 — numbers written on a schematic are the true circuit quantities.

  Theorems about the model `CC.Model.Annot` over the *generated* `CC.Gen.Annot` (adapters,
  label factories, constructors, the `solutions` table of the declarative front end),
  against `CC.Spec.Annot` and, for the text, `CC.Spec.Fmt` (C18).
-/
import CC.Model.Annot
import CC.Spec.Annot
import CC.Properties.C18

namespace CC
open CC.Fmt CC.Annot CC.Gen.Annot

/-- the translator accepted `DiagramSolution.py` / `schematic.py` (and `Utils.py` / `Display.py`) -/
theorem C14_translator_accepts :
    CC.Gen.FmtGuard.annot_tables_refusal = none ∧ CC.Gen.FmtGuard.fmt_tables_refusal = none := by decide

/-! ## adapters: which value, which sign, which unit, which printer -/

/-- **C14_adapters** — for every kind of solution and every annotated quantity there is an
adapter method; it reads the solution's accessor of the same quantity, multiplies by the
sign exactly for directed quantities, carries the specified unit and calls the specified
display helper. -/
theorem C14_adapters (k : Kind) (qt : Quantity) :
    ∃ a, findAdapter k qt = some a ∧ a.accessor = methodOf qt ∧ a.signed = specDirected qt
      ∧ a.printer = specPrinter k qt
      ∧ (a.unit = some (specUnit qt)
          ∨ (a.printer = "print_active_power" ∧ a.unit = none
              ∧ CC.Gen.Fmt.print_active_power_call0.unit = some (specUnit qt))) := by
  cases k <;> cases qt <;> exact ⟨_, rfl, by decide, by decide, by decide, by decide⟩

/-- (pin: restates the generated definition) the sign line of every adapter: `-1 if reverse else 1` -/
theorem C14_sign (reverse : Bool) : adapter_sign reverse = if reverse then -1 else 1 := by
  cases reverse <;> rfl

theorem GQ.ofInt_neg_one_mul (q : GQ) : GQ.ofInt (-1) * q = -q := by
  rw [GQ.mul_def, GQ.neg_def]; simp [GQ.ofInt]

theorem GQ.ofInt_one_mul (q : GQ) : GQ.ofInt 1 * q = q := by
  rw [GQ.mul_def]; simp [GQ.ofInt]

/-- **C14_denotes** (value) — the number handed to the display helper is the solution's
value in the element's reference direction, negated exactly when the annotation is
requested in reverse; for every kind, quantity and value. -/
theorem C14_denotes_value (k : Kind) (qt : Quantity) (reverse : Bool) (q : GQ) :
    ∃ a, findAdapter k qt = some a ∧ signedValue a reverse q = specValue qt reverse q := by
  obtain ⟨a, ha, _, hs, _⟩ := C14_adapters k qt
  refine ⟨a, ha, ?_⟩
  unfold signedValue specValue
  rw [hs, C14_sign]
  cases hd : specDirected qt <;> cases reverse <;> simp [GQ.ofInt_neg_one_mul, GQ.ofInt_one_mul]

/-- **C14_reverse_neg** — the text requested in reverse is the text of the negated quantity
(the runtime parameters `abs`, `angle`, `phase` being those of the signed value in both
cases); potentials ignore the flag. -/
theorem C14_reverse_neg (k : Kind) (qt : Quantity) (q : GQ) (d : Derived) (o : Opts) :
    annotText k qt true q d o =
      if specDirected qt then annotText k qt false (-q) d o else annotText k qt false q d o := by
  obtain ⟨a, ha, _, hs, _⟩ := C14_adapters k qt
  unfold annotText
  rw [ha]
  simp only [signedValue, hs, C14_sign]
  cases hd : specDirected qt <;> simp [GQ.ofInt_neg_one_mul, GQ.ofInt_one_mul]

/-! ## label factories -/

/-- **C14_arrow** — the arrow of a voltage / current label is drawn reversed iff exactly one
of "requested in reverse" and "element drawn in reverse" holds; power and potential labels
carry no direction. -/
theorem C14_arrow (reverse elementReversed : Bool) :
    arrowReversed .voltage reverse elementReversed = some (specArrowReversed reverse elementReversed)
    ∧ arrowReversed .current reverse elementReversed = some (specArrowReversed reverse elementReversed)
    ∧ arrowReversed .power reverse elementReversed = none
    ∧ arrowReversed .potential reverse elementReversed = none := by
  cases reverse <;> cases elementReversed <;> decide

/-- **C14_factories** — each `draw_<quantity>` asks the adapter for the same quantity and
puts the text on the label symbol of that quantity; the declarative front end draws the four
annotation lists with the matching factory. -/
theorem C14_factories :
    (factories.map fun f => (f.method, f.solutionMethod, f.labelClass, f.textKw)) =
      [("draw_voltage", "get_voltage", "VoltageLabel", "vlabel"), ("draw_current", "get_current", "CurrentLabel", "ilabel"),
       ("draw_power", "get_power", "PowerLabel", "plabel"), ("draw_potential", "get_potential", "LabelNode", "name")]
    ∧ annotation_loops = [("voltages", "draw_voltage"), ("currents", "draw_current"), ("potentials", "draw_potential"),
                          ("powers", "draw_power")] := by
  decide

/-! ## declarative solution section -/

/-- **C14_ctors** — each solution constructor builds the adapter of its kind on the circuit
translated from the schematic, with the `Circuit.solution` class of that kind, forwarding its
display options unchanged. -/
theorem C14_ctors :
    (ctors.map fun c => (c.name, c.adapterCls, c.solutionCls, c.solutionArgs)) =
      [("empty_solution", "EmptyDiagramSolution", "", []),
       ("single_frequency_time_domain_steady_state_solution", "TimeDomainSteadyStateDiagramSolution", "ComplexSolution", ["w"]),
       ("single_frequency_complex_solution", "ComplexNetworkDiagramSolution", "ComplexSolution", ["w"]),
       ("complex_solution", "ComplexNetworkDiagramSolution", "ComplexSolution", []),
       ("real_solution", "RealNetworkDiagramSolution", "DCSolution", [])]
    ∧ (ctors.map fun c => c.solutionLits) = [[], [("peak_values", true)], [], [], []]
    ∧ solution_type_key = "type" ∧ solution_fallback = "empty_solution"
    ∧ solutions.map (·.1) = ["dc", "real", "complex", "single_frequency_time_domain"] := by
  decide

/-- **C14_lookup** — every declared solution type selects the adapter kind the specification
names, with peak values exactly for the time function; an undeclared type falls back to empty
labels.  (Formerly refuted: `'single_frequency_time_domain'` selected the complex adapter and
the time function carried the RMS amplitude; repaired in /repo 7e88190, 2346ca0.) -/
theorem C14_lookup :
    (∀ ty k, specKind ty = some k → declaredKind ty = some k ∧ declaredPeak ty = specPeak k)
    ∧ (∀ ty, ty ∉ solutions.map (·.1) → ctorNameOfType ty = "empty_solution") := by
  constructor
  · intro ty k h
    unfold specKind at h
    split at h
    · cases h; decide
    · cases h; decide
    · cases h; decide
    · cases h; decide
    · exact absurd h (by simp)
  · intro ty hty
    unfold ctorNameOfType
    have : solutions.lookup ty = none := by
      rw [List.lookup_eq_none_iff]
      intro p hp
      simp only [bne_iff_ne, ne_eq]
      intro heq
      apply hty
      rw [List.mem_map]
      exact ⟨p, hp, heq.symm⟩
    rw [this]; rfl

/-- the parameters of the description that reach the time-domain constructor -/
theorem C14_lookup_params :
    filterParams "single_frequency_time_domain" ["w", "sin", "deg", "hertz", "precision", "polar"]
      = ["w", "sin", "deg", "hertz"] := by
  decide

/-! ## the text denotes the quantity (composition with C18) -/

/-- **C14_denotes** (real annotations, unconditional) — the text of a DC voltage, current or
potential annotation (**not power**: `|P|` plus an arrow is a different text, judged by the oracle only; **not the value 0**) reads back (`parseBack`) to a number within half a unit of the `p`-th
digit of the solution's value in the element's reference direction, negated exactly when the
annotation is requested in reverse, in engineering form and with the unit of the quantity;
every non-zero value below `1e16` outside the rounds-up-to-one region (open finding 1). -/
theorem annotText_eq {k : Kind} {qt : Quantity} {a : Adapter} (ha : findAdapter k qt = some a) (reverse : Bool)
    (q : GQ) (d : Derived) (o : Opts) : annotText k qt reverse q d o = textOf a (signedValue a reverse q) d o := by
  unfold annotText; rw [ha]

theorem C14_denotes_real (qt : Quantity) (hqt : qt ≠ .power) (reverse : Bool)
    (q : GQ) (d : Derived) (o : Opts) (hp : 1 ≤ o.precision) (h0 : (specValue qt reverse q).re ≠ 0)
    (hn : ¬ RoundsUpToOne (specValue qt reverse q).re o.precision)
    (h16 : |(specValue qt reverse q).re| < 10000000000000000) :
    ∃ s, annotText .real qt reverse q d o = some s
      ∧ RealOK (specValue qt reverse q).re o.precision 3 (specUnit qt) s := by
  obtain ⟨a, ha, _, hs, hpr, hu⟩ := C14_adapters .real qt
  obtain ⟨a', ha', hv⟩ := C14_denotes_value .real qt reverse q
  have haa : a' = a := by rw [ha] at ha'; exact (Option.some.inj ha').symm
  subst haa
  have hprinter : a'.printer = "print_real" := by
    rw [hpr]; cases qt <;> first | rfl | exact absurd rfl hqt
  have hunit : a'.unit = some (specUnit qt) := by
    rcases hu with h | ⟨h, _, _⟩
    · exact h
    · rw [hprinter] at h; exact absurd h (by decide)
  have hcfg : CfgOK (cfgOfCall CC.Gen.Fmt.print_real_call0 (specUnit qt) o.precision) := by
    refine ⟨hp, ?_, fun _ => ⟨?_, ?_⟩⟩
    · cases qt <;> first | (show UnitOK ['V']; decide) | (show UnitOK ['A']; decide) | (show UnitOK ['W']; decide)
    · show CC.Gen.Fmt.print_real_call0.table.Admissible
      exact Table.admissible_sound (by decide)
    · refine ⟨?_, ?_, ?_⟩
      · show CC.Gen.Fmt.print_real_call0.table.si = true
        decide
      · show CC.Gen.Fmt.print_real_call0.table.minKey % 3 = 0
        decide
      · show CC.Gen.Fmt.print_real_call0.table.maxKey % 3 = 0
        decide
  have key := C18_real_domain (cfgOfCall CC.Gen.Fmt.print_real_call0 (specUnit qt) o.precision)
    (specValue qt reverse q).re h0 hcfg hn h16
  refine ⟨_, ?_, key⟩
  rw [annotText_eq ha, hv]
  unfold textOf
  simp only [hprinter, hunit, ↓reduceIte, Option.getD_some]
  rfl

/-- **C14_denotes_complex_shown_parts** (complex Cartesian annotations) — for a solution value *both of whose parts are
non-zero and in the domain*: which parts of the compact Cartesian text appear is decided by `is_zero` of `|im|`, `|re|`
(each branch with its condition), the signs are those of the real and imaginary part of the solution's value with the
sign rule, and the part texts read back (`parseBack`) to the magnitude of their parts within half a unit of the `p`-th
digit, in engineering form, with the unit of the quantity.

Not claimed: that the *right* parts appear (open finding: parts the prefixes can express are dropped — then the text
does not denote the quantity), nor anything about purely real / purely imaginary values (`InDomain` excludes a zero
part); a part text that is not shown in the branch taken is still covered by its `RealOK` conjunct. -/
theorem C14_denotes_complex_shown_parts (qt : Quantity) (reverse : Bool) (q : GQ) (d : Derived) (o : Opts)
    (hpol : o.polar = false) (hp : 1 ≤ o.precision)
    (hre : InDomain (specValue qt reverse q).re o.precision) (him : InDomain (specValue qt reverse q).im o.precision) :
    ∃ Tre Tim : List Char, ∃ Zre Zim : Bool,
      (let sr : List Char := if 0 ≤ (specValue qt reverse q).re then [] else ['-']
       let si : List Char := if 0 ≤ (specValue qt reverse q).im then ['+'] else ['-']
       (Zim = true → annotText .complex qt reverse q d o = some (sr ++ Tre))
        ∧ (Zim = false → Zre = true → (specValue qt reverse q).im < 0 → annotText .complex qt reverse q d o = some (si ++ ['j'] ++ Tim))
        ∧ (Zim = false → Zre = true → ¬ (specValue qt reverse q).im < 0 → annotText .complex qt reverse q d o = some (['j'] ++ Tim))
        ∧ (Zim = false → Zre = false → annotText .complex qt reverse q d o = some (sr ++ Tre ++ si ++ ['j'] ++ Tim)))
      ∧ Zre = ((scOfCall CC.Gen.Fmt.print_complex_call0 (specUnit qt) o.precision o.polar o.deg).toSFCfg.value3
                (qabs (specValue qt reverse q).re)).isZero
      ∧ Zim = ((scOfCall CC.Gen.Fmt.print_complex_call0 (specUnit qt) o.precision o.polar o.deg).toSFCfg.value3
                (qabs (specValue qt reverse q).im)).isZero
      ∧ RealOK (qabs (specValue qt reverse q).re) o.precision 3 (specUnit qt) Tre
      ∧ RealOK (qabs (specValue qt reverse q).im) o.precision 3 (specUnit qt) Tim := by
  obtain ⟨a, ha, _, hs, hpr, hu⟩ := C14_adapters .complex qt
  obtain ⟨a', ha', hv⟩ := C14_denotes_value .complex qt reverse q
  have haa : a' = a := by rw [ha] at ha'; exact (Option.some.inj ha').symm
  subst haa
  have hprinter : a'.printer = "print_complex" := by rw [hpr]; cases qt <;> rfl
  have hunit : a'.unit = some (specUnit qt) := by
    rcases hu with h | ⟨h, _, _⟩
    · exact h
    · rw [hprinter] at h; exact absurd h (by decide)
  have hcfg : CfgOK (scOfCall CC.Gen.Fmt.print_complex_call0 (specUnit qt) o.precision o.polar o.deg).toSFCfg := by
    refine ⟨hp, ?_, fun _ => ⟨?_, ?_, ?_, ?_⟩⟩
    · cases qt <;> first | (show UnitOK ['V']; decide) | (show UnitOK ['A']; decide) | (show UnitOK ['W']; decide)
    · show CC.Gen.Fmt.print_complex_call0.table.Admissible
      exact Table.admissible_sound (by decide)
    · show CC.Gen.Fmt.print_complex_call0.table.si = true
      decide
    · show CC.Gen.Fmt.print_complex_call0.table.minKey % 3 = 0
      decide
    · show CC.Gen.Fmt.print_complex_call0.table.maxKey % 3 = 0
      decide
  have hpolar : (scOfCall CC.Gen.Fmt.print_complex_call0 (specUnit qt) o.precision o.polar o.deg).polar = false := by
    show (CC.Gen.Fmt.print_complex_call0.polar.getD o.polar) = false
    rw [hpol]; rfl
  have key := C18_complex_shown_parts (scOfCall CC.Gen.Fmt.print_complex_call0 (specUnit qt) o.precision o.polar o.deg)
    (specValue qt reverse q).re (specValue qt reverse q).im d.absV d.angle hpolar hcfg hre him
  have htext : annotText .complex qt reverse q d o
      = some ((scOfCall CC.Gen.Fmt.print_complex_call0 (specUnit qt) o.precision o.polar o.deg).str
          (specValue qt reverse q).re (specValue qt reverse q).im d.absV d.angle) := by
    rw [annotText_eq ha, hv]
    unfold textOf
    simp only [hprinter, hunit, Option.getD_some]
    rfl
  obtain ⟨k1, k2, k3, k4, k5, k6⟩ := key
  refine ⟨_, _, _, _, ⟨?_, ?_, ?_, ?_⟩, rfl, rfl, k5, k6⟩
  · intro h; rw [htext]; exact congrArg some (k1 h)
  · intro h1 h2 h3; rw [htext]; exact congrArg some (k2 h1 h2 h3)
  · intro h1 h2 h3; rw [htext]; exact congrArg some (k3 h1 h2 h3)
  · intro h1 h2; rw [htext]; exact congrArg some (k4 h1 h2)

/-! ## agreement between the kinds of annotation -/

/-- **C14_agree** (real ↔ Cartesian) — the Cartesian complex annotation of a **non-negative**
real quantity is literally the real annotation (negative real quantities — `'-'` prepended to the text of the
magnitude versus the signed real text — are not covered). -/
theorem C14_agree_real_cartesian (re absV angle : ℚ) (unit : List Char) (p : ℕ) (deg : Bool) (h : 0 ≤ re) :
    printComplex re 0 absV angle unit p false deg = printReal re unit p := by
  unfold printComplex printReal
  rw [C18_complex _ _ _ _ _ rfl]
  have hz : ((scOfCall CC.Gen.Fmt.print_complex_call0 unit p false deg).toSFCfg.value3 (qabs 0)).isZero = true := by
    unfold F3.isZero; rw [C18_is_zero_iff]; left; rfl
  have hq : qabs re = re := by rw [qabs_eq_abs, abs_of_nonneg h]
  simp only [hz, ↓reduceIte, h, hq, List.nil_append]
  rfl

/-- **C14_agree** (polar ↔ time function ↔ magnitude) — the polar annotation and, for `w ≠ 0`,
the sinusoidal annotation of one quantity both start with the text of its magnitude
(`print_abs`) **of the `absV` handed to them** — for annotations that is the RMS magnitude in the polar text and the
peak magnitude in the time-function text, two different arguments, so this is a statement about the shape of the two
texts, not about their agreeing on a number; at `w = 0` the time-function annotation is literally the
real annotation of `Re X` (with its sign; repaired in /repo 7cf4bc4). -/
theorem C14_agree_magnitude (re im absV angle phase phaseDeg w wHz : ℚ) (unit : List Char) (p : ℕ)
    (deg sin hertz : Bool) :
    (∃ t, printComplex re im absV angle unit p true deg = printAbs absV unit p ++ t)
    ∧ (w ≠ 0 → ∃ t, printSinusoidal re absV phase phaseDeg w wHz unit p sin deg hertz = printAbs absV unit p ++ t)
    ∧ (w = 0 → printSinusoidal re absV phase phaseDeg w wHz unit p sin deg hertz = printReal re unit p) := by
  constructor
  · unfold printComplex
    rw [C18_complex_polar _ _ _ _ _ rfl]
    have e : (scOfCall CC.Gen.Fmt.print_complex_call0 unit p true deg).toSFCfg.str absV = printAbs absV unit p := rfl
    rw [e]
    split_ifs
    · exact ⟨[], by simp⟩
    · exact ⟨_, by simp only [List.append_assoc]; rfl⟩
    · exact ⟨[], by simp⟩
    · exact ⟨_, by simp only [List.append_assoc]; rfl⟩
  · constructor
    · intro hw
      unfold printSinusoidal
      have e : (cfgOfCall CC.Gen.Fmt.print_sinosoidal_call0 unit p).str absV = printAbs absV unit p := rfl
      simp only [e, hw, ↓reduceIte, List.append_assoc]
      exact ⟨_, rfl⟩
    · intro hw
      unfold printSinusoidal
      simp only [hw, ↓reduceIte]
      rfl

example : annotText .real .voltage true ⟨10, 0⟩ {} {} = some ['-', '1', '0', '.', '0', 'V'] := by decide +kernel
example : ∃ a, findAdapter .complex .current = some a ∧ signedValue a true ⟨1, 2⟩ = ⟨-1, -2⟩ := by
  obtain ⟨a, ha, hv⟩ := C14_denotes_value .complex .current true ⟨1, 2⟩
  exact ⟨a, ha, by rw [hv]; decide⟩

end CC
