/-
  C13 — the reference node of a translated drawing.

  `Circuit.ground_node` of `circuit_translator(schematic)` (model: `groundNode` of
  `circuitTranslator`, computed by `mkCircuit` = `Circuit.__post_init__` from the translated
  *components*) and `parser.ground_label` (model: `groundLabel`, computed from the ground *symbols*,
  tied to the code by `C13_gen_ground` / `C13_gen_ground_label`) are two different computations.
  This file proves, for every symbol list and every valid set-iteration order:

  * exactly one ground symbol (`C13_ground`): both are the name the parser gives to the electrical
    node (class of `Joined`) that contains the ground symbol's terminal; a terminal carries that
    name iff it is joined to the ground terminal by wires (so every joined terminal gets it, a
    terminal that is not joined gets another name); `C13_ground_name`: the name is the ground
    symbol's own `node_id` (default `'0'`) unless a later node symbol sits on the same node;
  * two or more ground symbols, on the same or on different electrical nodes
    (`C13_two_grounds`): never a circuit — `ground_label` raises `MultipleGroundNodes`, and when
    every symbol translates, `circuit_translator` raises `MultipleGroundNodes` (not "first wins");
  * no ground symbol (`C13_no_ground`): the reference node of the circuit is the first listed
    terminal of the first component (`''` for an empty circuit), while `ground_label` is the name of
    the first element of `unique_nodes` in set order — `C13_no_ground_differ`: a concrete drawing
    on which the two disagree.

  "Ground symbol" = a symbol whose class is exactly `Ground` (`C13_isGround_iff`: the generated
  class table has no subclass of `Ground`, so `isinstance(e, elm.Ground)` and the translator-map
  key coincide).
-/
import CC.Properties.C13
import CC.Proofs.DrawInvariance
set_option linter.unusedSectionVars false
set_option linter.unusedSimpArgs false
set_option linter.unusedVariables false
namespace CC
open CC.Draw

namespace Draw

/-! ### class facts from the generated table -/

/-- no class of the table derives from `Ground` -/
def noGroundSubclass : Bool := Gen.elemClasses.all fun c => !c.ancestors.contains "Ground"

theorem isGround_iff (s : Sym) : s.isGround = true ↔ s.cls = "Ground" := by
  unfold Sym.isGround isA
  constructor
  · intro h
    simp only [Bool.or_eq_true, decide_eq_true_eq] at h
    rcases h with h | h
    · exact h
    · exfalso
      cases hc : classInfo s.cls with
      | none => simp [hc] at h
      | some c =>
        have hmem : c ∈ Gen.elemClasses := List.mem_of_find?_eq_some hc
        have hT : noGroundSubclass = true := by decide
        unfold noGroundSubclass at hT
        rw [List.all_eq_true] at hT
        have := hT c hmem
        simp only [hc, decide_eq_true_eq] at h
        simp [h] at this
  · intro h; simp [h]

theorem isNode_of_ground {s : Sym} (h : s.cls = "Ground") : s.isNode = true := by
  unfold Sym.isNode; rw [h]; decide

theorem hasName_of_ground {s : Sym} (h : s.cls = "Ground") : s.hasName = true := by
  unfold Sym.hasName; rw [h]; decide

/-- `[n for n in node_elements if isinstance(n, elm.Ground)]`, as start points -/
theorem groundSymsOf_eq (syms : List Sym) :
    groundSymsOf syms = (syms.filter fun s => decide (s.cls = "Ground")).map (·.n1) := by
  unfold groundSymsOf
  rw [List.filter_filter]
  congr 1
  apply List.filter_congr
  intro s _
  by_cases h : s.cls = "Ground"
  · simp [h, (isGround_iff s).mpr h, isNode_of_ground h]
  · have : s.isGround = false := by
      cases hg : s.isGround with
      | false => rfl
      | true => exact absurd ((isGround_iff s).mp hg) h
    simp [h, this]

/-! ### what a translator produces -/

theorem applyCtor_type {c : CtorSpec} {id : String} {nodes : List String} {args : List (String × Val)}
    {k : Component} (h : applyCtor c id nodes args = .ok k) : k.type = c.kind := by
  unfold applyCtor at h
  cases hv : ctorValue c args with
  | error e => rw [hv] at h; cases h
  | ok v => rw [hv] at h; cases h; rfl

/-- the constructor kinds a list of translator cases can produce -/
def kindsOf (cases : List TrCase) : List String :=
  cases.filterMap fun c => match c.ctor with
    | none => none
    | some cn => (Gen.ctors.find? (·.name = cn)).map (·.kind)

theorem runCase_kind {π : Rat} {s : Sym} {nodes : List String} {c : TrCase} {k : Component}
    (h : runCase π s nodes c = .ok (some k)) : k.type ∈ kindsOf [c] := by
  rw [runCase_eq] at h
  cases hc : c.ctor with
  | none => rw [hc] at h; cases h
  | some cn =>
    rw [hc] at h
    simp only at h
    cases hn : nodeTuple c.nodes s.rev nodes with
    | error e => rw [hn] at h; cases h
    | ok ns =>
      rw [hn] at h
      simp only at h
      cases ha : argsOf π s c with
      | error e => rw [ha] at h; cases h
      | ok args =>
        rw [ha] at h
        simp only at h
        unfold ctorStep at h
        cases hf : Gen.ctors.find? (·.name = cn) with
        | none => rw [hf] at h; cases h
        | some spec =>
          rw [hf] at h
          simp only at h
          cases hk : applyCtor spec s.name ns args with
          | error e => rw [hk] at h; cases h
          | ok k' =>
            rw [hk] at h
            cases h
            rw [applyCtor_type hk]
            simp [kindsOf, hc, hf]

theorem kindsOf_cons (c : TrCase) (cs : List TrCase) : kindsOf (c :: cs) = kindsOf [c] ++ kindsOf cs := by
  unfold kindsOf
  rw [← List.filterMap_append]; rfl

theorem runCases_kind {π : Rat} {s : Sym} {nodes : List String} {k : Component} :
    ∀ {cases : List TrCase}, runCases π s nodes cases = .ok (some k) → k.type ∈ kindsOf cases
  | [], h => by cases h
  | c :: cs, h => by
    rw [kindsOf_cons]
    unfold runCases at h
    cases hg : c.guard with
    | none => rw [hg] at h; exact List.mem_append_left _ (runCase_kind h)
    | some am =>
      obtain ⟨a, m⟩ := am
      rw [hg] at h
      simp only [bind, Except.bind] at h
      cases hv : s.getAttr a with
      | error e => rw [hv] at h; cases h
      | ok v =>
        rw [hv] at h
        simp only at h
        by_cases hvm : v = .str m
        · simp only [hvm, if_true] at h; exact List.mem_append_left _ (runCase_kind h)
        · simp only [hvm, if_false] at h; exact List.mem_append_right _ (runCases_kind h)

/-- only the class `Ground` is mapped to a translator that can produce a `ground` component
(decided on the generated translator map, translator bodies and constructor table) -/
def onlyGroundMakesGround : Bool :=
  Gen.translatorMap.all fun kv => kv.1 == "Ground" ||
    match Gen.translators.lookup kv.2 with
    | none => true
    | some cases => !(kindsOf cases).contains "ground"

theorem lookup_mem {α β : Type} [BEq α] [LawfulBEq α] {l : List (α × β)} {a : α} {b : β}
    (h : l.lookup a = some b) : (a, b) ∈ l := by
  induction l with
  | nil => cases h
  | cons kv l ih =>
    obtain ⟨k, v⟩ := kv
    by_cases hk : a = k
    · subst hk; simp [List.lookup] at h; subst h; exact List.mem_cons_self
    · have hb : (a == k) = false := by simp [hk]
      simp only [List.lookup, hb] at h
      exact List.mem_cons_of_mem _ (ih h)

theorem compOfSym_not_ground {π : Rat} {s : Sym} {nodes : List String} {k : Component}
    (hs : s.cls ≠ "Ground") (h : compOfSym π s nodes = .ok (some k)) : k.type ≠ "ground" := by
  unfold compOfSym at h
  cases h1 : Gen.translatorMap.lookup s.cls with
  | none => rw [h1] at h; cases h
  | some f =>
    rw [h1] at h
    simp only at h
    cases h2 : Gen.translators.lookup f with
    | none => rw [h2] at h; cases h
    | some cases =>
      rw [h2] at h
      have hk := runCases_kind h
      have hT : onlyGroundMakesGround = true := by decide
      unfold onlyGroundMakesGround at hT
      rw [List.all_eq_true] at hT
      have := hT (s.cls, f) (lookup_mem h1)
      simp only [h2, Bool.or_eq_true, beq_iff_eq, Bool.not_eq_true', List.contains_eq_mem,
        decide_eq_false_iff_not] at this
      rcases this with h' | h'
      · exact absurd h' hs
      · intro hkt; exact h' (hkt ▸ hk)

theorem translateSym_not_ground {π : Rat} {L : Pt → Except Err String} {s : Sym} {k : Component}
    (hs : s.cls ≠ "Ground") (h : translateSym π L s = .ok (some k)) : k.type ≠ "ground" := by
  unfold translateSym at h
  rw [mapM_pair'] at h
  cases hl : Gen.translatorMap.lookup s.cls with
  | none => rw [hl] at h; cases h
  | some f =>
    rw [hl] at h
    simp only at h
    have h := remapKE_ok' h
    cases h1 : L s.n1 with
    | error e => simp [h1, bind, Except.bind] at h
    | ok la =>
      cases h2 : L s.n2 with
      | error e => simp [h1, h2, bind, Except.bind] at h
      | ok lb =>
        simp only [h1, h2, bind, Except.bind, pure, Except.pure] at h
        exact compOfSym_not_ground hs h

/-- `ground_translator`: the component of a ground symbol, for any two terminal names -/
theorem compOfSym_ground (π : Rat) {s : Sym} (hs : s.cls = "Ground") (a b : String) :
    compOfSym π s [a, b] = .ok (some { type := "ground", id := s.name, nodes := [a], value := [] }) := by
  unfold compOfSym
  rw [hs]
  have h1 : Gen.translatorMap.lookup "Ground" = some "ground_translator" := by decide
  have h2 : Gen.translators.lookup "ground_translator" =
      some [{ guard := none, ctor := some "ground", nodes := .single, args := [] }] := by decide
  rw [h1]
  simp only [h2]
  unfold runCases
  simp only
  rw [runCase_eq]
  simp only [nodeTuple, argsOf, List.mapM_nil, pure, Except.pure]
  unfold ctorStep
  have h3 : Gen.ctors.find? (·.name = "ground") =
      some { name := "ground", kind := "ground", params := [], guards := [], guardsLE := [],
             wavetypeChecks := [], values := [] } := by decide
  rw [h3]
  rfl

/-- a ground symbol translates (when both of its anchors have a name) to a `ground` component on
the name of its start anchor; in every other case its translation raises -/
theorem translateSym_ground {π : Rat} {L : Pt → Except Err String} {s : Sym} (hs : s.cls = "Ground")
    {x : Option Component} (h : translateSym π L s = .ok x) :
    ∃ a, L s.n1 = .ok a ∧ x = some { type := "ground", id := s.name, nodes := [a], value := [] } := by
  unfold translateSym at h
  rw [mapM_pair'] at h
  cases hl : Gen.translatorMap.lookup s.cls with
  | none => rw [hl] at h; cases h
  | some f =>
    rw [hl] at h
    simp only at h
    have h := remapKE_ok' h
    cases h1 : L s.n1 with
    | error e => simp [h1, bind, Except.bind] at h
    | ok la =>
      cases h2 : L s.n2 with
      | error e => simp [h1, h2, bind, Except.bind] at h
      | ok lb =>
        simp only [h1, h2, bind, Except.bind, pure, Except.pure] at h
        rw [compOfSym_ground π hs] at h
        cases h
        exact ⟨la, rfl, rfl⟩

/-! ### the ground components of a translated symbol list -/

theorem groundsOf_cons_ground (k : Component) (cs : List Component) (h : k.type = "ground") :
    groundsOf (k :: cs) = k.nodes.headD "" :: groundsOf cs := by
  unfold groundsOf; simp [List.filter_cons, h]

theorem groundsOf_cons_other (k : Component) (cs : List Component) (h : k.type ≠ "ground") :
    groundsOf (k :: cs) = groundsOf cs := by
  unfold groundsOf; simp [List.filter_cons, h]

/-- **the `ground` components of the translated list are, in order, the ground symbols**: their
node is the name of the symbol's start anchor -/
theorem mapM_grounds {π : Rat} {L : Pt → Except Err String} :
    ∀ {syms : List Sym} {r : List (Option Component)}, syms.mapM (translateSym π L) = .ok r →
      List.Forall₂ (fun (s : Sym) (a : String) => L s.n1 = .ok a)
        (syms.filter fun s => decide (s.cls = "Ground")) (groundsOf (r.filterMap id))
  | [], r, h => by
    have : r = [] := by cases h; rfl
    subst this; exact .nil
  | s :: syms, r, h => by
    rw [mapM_cons'] at h
    cases h1 : translateSym π L s with
    | error e => rw [h1] at h; cases h
    | ok x =>
      rw [h1] at h
      simp only at h
      cases h2 : syms.mapM (translateSym π L) with
      | error e => rw [h2] at h; cases h
      | ok rs =>
        rw [h2] at h
        cases h
        have ih := mapM_grounds h2
        by_cases hs : s.cls = "Ground"
        · obtain ⟨a, ha, rfl⟩ := translateSym_ground hs h1
          simp only [List.filter_cons, hs, decide_true, if_true, List.filterMap_cons, id]
          rw [groundsOf_cons_ground _ _ rfl]
          exact .cons ha ih
        · simp only [List.filter_cons, hs, decide_false, Bool.false_eq_true, if_false]
          cases x with
          | none => simpa using ih
          | some k =>
            simp only [List.filterMap_cons, id]
            rw [groundsOf_cons_other _ _ (translateSym_not_ground hs h1)]
            exact ih

/-! ### `Circuit.__post_init__` by the number of ground components -/

theorem mkCircuit_one_ground {cs : List Component} {C : Circuit} {a : String}
    (hg : groundsOf cs = [a]) (h : mkCircuit cs = .ok C) : C.groundNode = a := by
  cases cs with
  | nil => cases hg
  | cons c0 rest =>
    rw [mkCircuit_cons, hg] at h
    obtain ⟨_, _, h3⟩ := finishCircuit_ok h
    rcases h3 with ⟨h3, _⟩ | ⟨g, h3, h4⟩
    · cases h3
    · cases h3; exact h4

theorem mkCircuit_many_grounds {cs : List Component} (hg : 2 ≤ (groundsOf cs).length) :
    mkCircuit cs = .error Err.multipleGrounds := by
  cases cs with
  | nil => simp [groundsOf] at hg
  | cons c0 rest =>
    rw [mkCircuit_cons]
    rcases hgs : groundsOf (c0 :: rest) with _ | ⟨g, _ | ⟨g', t⟩⟩
    · rw [hgs] at hg; simp at hg
    · rw [hgs] at hg; simp at hg
    · rfl

/-- the first listed terminal of the first component (`''` for an empty list) -/
def firstTerminal : List Component → String
  | [] => ""
  | c0 :: _ => c0.nodes.headD ""

theorem mkCircuit_no_ground {cs : List Component} {C : Circuit}
    (hg : groundsOf cs = []) (h : mkCircuit cs = .ok C) :
    C.components = cs ∧ C.groundNode = firstTerminal cs := by
  cases cs with
  | nil => cases h; exact ⟨rfl, rfl⟩
  | cons c0 rest =>
    rw [mkCircuit_cons, hg] at h
    obtain ⟨h1, _, h3⟩ := finishCircuit_ok h
    rcases h3 with ⟨_, h3⟩ | ⟨g, h3, _⟩
    · exact ⟨h1, h3⟩
    · cases h3

theorem filter_ground_split {pre post : List Sym} {g : Sym} (hg : g.cls = "Ground")
    (hpre : ∀ s ∈ pre, s.cls ≠ "Ground") (hpost : ∀ s ∈ post, s.cls ≠ "Ground") :
    ((pre ++ g :: post).filter fun s => decide (s.cls = "Ground")) = [g] := by
  have h1 : (pre.filter fun s => decide (s.cls = "Ground")) = [] :=
    List.filter_eq_nil_iff.mpr fun s hs => by simpa using hpre s hs
  have h2 : (post.filter fun s => decide (s.cls = "Ground")) = [] :=
    List.filter_eq_nil_iff.mpr fun s hs => by simpa using hpost s hs
  rw [List.filter_append, List.filter_cons, h1, h2]
  simp [hg]

end Draw

/-! ## the theorems -/

/-- `isinstance(e, elm.Ground)` (the parser's test) holds exactly for the symbols of class
`Ground` (the translator map's key): the generated class table has no subclass of `Ground`. -/
theorem C13_isGround_iff (s : Sym) : s.isGround = true ↔ s.cls = "Ground" := isGround_iff s

/-- **Reference node, one ground symbol.**  For every drawing `pre ++ g :: post` whose only symbol
of class `Ground` is `g`, every valid set-iteration order and every well-formed naming
(`C13_DrawingWF`: no node name on two different electrical nodes) there is a naming `lab` of the
parser nodes with
* `lab` realises the wire partition and is the naming `labelOf` (`_get_node_index`) of the parser;
* the ground symbol's (rounded start) terminal `g.n1` is a parser node;
* `parser.ground_label` is `lab g.n1`;
* IF `circuit_translator` returns a circuit, its `ground_node` is `lab g.n1`;
* a parser node carries the reference name iff it is joined to the ground terminal by wires —
  every joined terminal gets that same name, every terminal that is not joined gets another one.
NOT said: that `circuit_translator` succeeds (another symbol may raise, ids may clash), and which
string the name is (`C13_ground_name`). -/
theorem C13_ground (π : Rat) (ord : SetOrd Pt) (hord : ord.Valid) (pre post : List Sym) (g : Sym)
    (hwf : C13_DrawingWF (pre ++ g :: post)) (hg : g.cls = "Ground")
    (hpre : ∀ s ∈ pre, s.cls ≠ "Ground") (hpost : ∀ s ∈ post, s.cls ≠ "Ground") :
    ∃ lab : Pt → String,
      Realises (wiresOf (pre ++ g :: post)) (allNodes (pre ++ g :: post)) lab ∧
      (∀ p ∈ allNodes (pre ++ g :: post), labelOf ord (pre ++ g :: post) p = .ok (lab p)) ∧
      g.n1 ∈ allNodes (pre ++ g :: post) ∧
      groundLabel ord (pre ++ g :: post) = .ok (lab g.n1) ∧
      (∀ C, circuitTranslator π ord (pre ++ g :: post) = .ok C → C.groundNode = lab g.n1) ∧
      (∀ p ∈ allNodes (pre ++ g :: post),
        (lab p = lab g.n1 ↔ Joined (wiresOf (pre ++ g :: post)) g.n1 p)) := by
  obtain ⟨lab, h1, _, h3⟩ := labelOf_spec hord (pre ++ g :: post) hwf
  have hgmem : g ∈ pre ++ g :: post := by simp
  have hgn : g.n1 ∈ allNodes (pre ++ g :: post) := (mem_allNodes_of_named hgmem (hasName_of_ground hg)).1
  have hfil := filter_ground_split hg hpre hpost
  refine ⟨lab, h3, h1, hgn, ?_, ?_, ?_⟩
  · unfold groundLabel
    rw [groundSymsOf_eq, hfil]
    show labelOf ord (pre ++ g :: post) g.n1 = _
    exact h1 _ hgn
  · intro C hC
    rw [circuitTranslator_eq] at hC
    cases hr : (pre ++ g :: post).mapM (translateSym π (labelOf ord (pre ++ g :: post))) with
    | error e => rw [hr] at hC; cases hC
    | ok r =>
      rw [hr] at hC
      simp only at hC
      have hG := mapM_grounds hr
      rw [hfil] at hG
      generalize hgs : groundsOf (r.filterMap id) = gs at hG
      cases hG with
      | cons ha htl =>
        cases htl
        rw [h1 _ hgn] at ha
        cases ha
        exact mkCircuit_one_ground hgs hC
  · intro p hp
    rw [h3 p hp g.n1 hgn]
    exact ⟨Joined.symm, Joined.symm⟩

/-- **The reference name.**  With the hypotheses of `C13_ground`, if no node symbol *after* the
ground symbol sits on the ground's electrical node, the parser calls that node by the ground
symbol's own `node_id` (the `name=` of `Ground`, default `'0'`); `C13_ground` then says that this is
`ground_label` and the `ground_node` of the translated circuit.  (A later label or node symbol on
the same electrical node overwrites the name — the reference *node* stays the same, `C13_ground`.) -/
theorem C13_ground_name (ord : SetOrd Pt) (hord : ord.Valid) (pre post : List Sym) (g : Sym)
    (hwf : C13_DrawingWF (pre ++ g :: post)) (hg : g.cls = "Ground")
    (hlast : ∀ s ∈ post, s.isNode = true → ¬ Joined (wiresOf (pre ++ g :: post)) g.n1 s.n1) :
    labelOf ord (pre ++ g :: post) g.n1 = .ok g.nodeId := by
  have hT : nodeClassesNamed = true := by decide
  have hns : nodeSymsOf (pre ++ g :: post) = nodeSymsOf pre ++ (g.n1, g.nodeId) :: nodeSymsOf post := by
    unfold nodeSymsOf
    simp [List.filter_append, List.filter_cons, isNode_of_ground hg]
  have hW : NodeSymsWF (wiresOf (pre ++ g :: post)) (allNodes (pre ++ g :: post))
      (nodeSymsOf pre ++ (g.n1, g.nodeId) :: nodeSymsOf post) := by
    rw [← hns]; exact ⟨nodeSyms_on_terminal hT _, hwf⟩
  unfold labelOf
  rw [hns]
  refine getNodeIndex_named (ps := (g.n1, g.nodeId)) _ hord (nodup_allNodes _) hW ?_
  intro ps' hps'
  unfold nodeSymsOf at hps'
  obtain ⟨s, hs, rfl⟩ := List.mem_map.mp hps'
  obtain ⟨hs, hn⟩ := List.mem_filter.mp hs
  exact hlast s hs hn

/-- **Two ground symbols** (at least two symbols of class `Ground`, on the same or on different
electrical nodes): the model never returns a circuit and never lets the first one win —
`parser.ground_label` raises `MultipleGroundNodes`; `circuit_translator` raises; and when every
symbol translates (no other error comes first) the error of `circuit_translator` is
`MultipleGroundNodes` (raised by `Circuit.__post_init__`). -/
theorem C13_two_grounds (π : Rat) (ord : SetOrd Pt) (syms : List Sym)
    (h : 2 ≤ (syms.filter fun s => decide (s.cls = "Ground")).length) :
    groundLabel ord syms = .error Err.multipleGrounds ∧
    (∀ C, circuitTranslator π ord syms ≠ .ok C) ∧
    (∀ r, syms.mapM (translateSym π (labelOf ord syms)) = .ok r →
      circuitTranslator π ord syms = .error Err.multipleGrounds) := by
  have key : ∀ r, syms.mapM (translateSym π (labelOf ord syms)) = .ok r →
      circuitTranslator π ord syms = .error Err.multipleGrounds := by
    intro r hr
    rw [circuitTranslator_eq, hr]
    simp only
    apply mkCircuit_many_grounds
    rw [← (mapM_grounds hr).length_eq]
    exact h
  refine ⟨?_, ?_, key⟩
  · unfold groundLabel
    rw [groundSymsOf_eq]
    rcases hf : (syms.filter fun s => decide (s.cls = "Ground")) with _ | ⟨g, _ | ⟨g', t⟩⟩
    · rw [hf] at h; simp at h
    · rw [hf] at h; simp at h
    · rw [hf]; rfl
  · intro C hC
    cases hr : syms.mapM (translateSym π (labelOf ord syms)) with
    | error e => rw [circuitTranslator_eq, hr] at hC; cases hC
    | ok r => rw [key r hr] at hC; cases hC

/-- **No ground symbol** — the documented default of `Circuit`: the reference node of the
translated circuit is the first listed terminal of its first component (`firstTerminal`; by the
terminal-order theorems of C13Symbols this is the `start` terminal of the first symbol that yields
a component, its `end` terminal when that symbol is reversed), `''` when nothing yields a
component; `parser.ground_label` is instead the name of the first element of
`unique_nodes` in set-iteration order (`KeyError` for `IndexError` on a drawing without nodes).
The two need not agree: `C13_no_ground_differ`. -/
theorem C13_no_ground (π : Rat) (ord : SetOrd Pt) (syms : List Sym)
    (h : ∀ s ∈ syms, s.cls ≠ "Ground") :
    (∀ C, circuitTranslator π ord syms = .ok C →
      C.groundNode = firstTerminal C.components) ∧
    groundLabel ord syms =
      (match ord.uniq (uniqueNodes (wiresOf syms) ord (allNodes syms)) with
        | [] => .error Err.keyError
        | p :: _ => labelOf ord syms p) := by
  have hfil : (syms.filter fun s => decide (s.cls = "Ground")) = [] :=
    List.filter_eq_nil_iff.mpr fun s hs => by simpa using h s hs
  constructor
  · intro C hC
    rw [circuitTranslator_eq] at hC
    cases hr : syms.mapM (translateSym π (labelOf ord syms)) with
    | error e => rw [hr] at hC; cases hC
    | ok r =>
      rw [hr] at hC
      simp only at hC
      have hG := mapM_grounds hr
      rw [hfil] at hG
      generalize hgs : groundsOf (r.filterMap id) = gs at hG
      cases hG
      obtain ⟨h1, h2⟩ := mkCircuit_no_ground hgs hC
      rw [h1]; exact h2
  · unfold groundLabel
    rw [groundSymsOf_eq, hfil]
    simp only [List.map_nil, groundPoint]
    cases ord.uniq (uniqueNodes (wiresOf syms) ord (allNodes syms)) <;> rfl

/-! ## non-vacuity and concrete behaviour -/

/-- divider V1–R1–R2 with the ground symbol on the bottom rail, a wire on the rail -/
def C13_exGround : List Sym :=
  [{ cls := "VoltageSource", name := "V1", attrs := [("V", .num ⟨5, 0⟩)], start := ⟨0, 1⟩, stop := ⟨0, 0⟩ },
   { cls := "Resistor", name := "R1", attrs := [("R", .num ⟨2, 0⟩)], start := ⟨0, 1⟩, stop := ⟨1, 1⟩ },
   { cls := "Resistor", name := "R2", attrs := [("R", .num ⟨3, 0⟩)], start := ⟨1, 1⟩, stop := ⟨1, 0⟩ },
   { cls := "Line", start := ⟨1, 0⟩, stop := ⟨0, 0⟩ },
   { cls := "Ground", name := "0", nodeId := "0", start := ⟨1, 0⟩, stop := ⟨1, 0⟩ }]

/-- the hypotheses of `C13_ground` / `C13_ground_name` are met by a concrete drawing … -/
example : C13_DrawingWF C13_exGround ∧ (∀ s ∈ C13_exGround.take 4, s.cls ≠ "Ground") := by
  refine ⟨?_, by decide⟩
  intro ps hps ps' hps' _
  have h1 : nodeSymsOf C13_exGround = [(⟨1, 0⟩, "0")] := by decide +kernel
  rw [h1] at hps hps'
  simp only [List.mem_singleton] at hps hps'
  subst hps; subst hps'
  exact Joined.refl _

/-- … on which the translation succeeds and the reference node is the ground's node `'0'`, which is
also the name of the wire-joined terminal (0,0) of V1 -/
example :
    (circuitTranslator 3 ⟨id, id⟩ C13_exGround).toOption.map (·.groundNode) = some "0" ∧
    groundLabel ⟨id, id⟩ C13_exGround = .ok "0" ∧
    labelOf ⟨id, id⟩ C13_exGround ⟨0, 0⟩ = .ok "0" ∧
    labelOf ⟨id, id⟩ C13_exGround ⟨0, 1⟩ ≠ .ok "0" := by decide +kernel

/-- two ground symbols on different electrical nodes: `MultipleGroundNodes` from both entry points -/
example :
    let syms : List Sym :=
      [{ cls := "Resistor", name := "R1", attrs := [("R", .num ⟨2, 0⟩)], start := ⟨0, 0⟩, stop := ⟨1, 0⟩ },
       { cls := "Ground", name := "0", nodeId := "0", start := ⟨0, 0⟩, stop := ⟨0, 0⟩ },
       { cls := "Ground", name := "G", nodeId := "G", start := ⟨1, 0⟩, stop := ⟨1, 0⟩ }]
    circuitTranslator 3 ⟨id, id⟩ syms = .error Err.multipleGrounds ∧
      groundLabel ⟨id, id⟩ syms = .error Err.multipleGrounds := by decide +kernel

/-- **without a ground symbol the two reference notions differ**: R1 drawn from (1,0) to (0,0);
`Circuit.ground_node` is R1's first listed terminal, `parser.ground_label` the first unique node
in (here: list) order -/
theorem C13_no_ground_differ :
    let syms : List Sym :=
      [{ cls := "Resistor", name := "R1", attrs := [("R", .num ⟨2, 0⟩)], start := ⟨1, 0⟩, stop := ⟨0, 0⟩ }]
    (circuitTranslator 3 ⟨id, List.reverse⟩ syms).toOption.map (·.groundNode) ≠
      (groundLabel ⟨id, List.reverse⟩ syms).toOption := by decide +kernel

end CC
