/-
  Property C02 — DC/AC phasor analysis of component circuits is exact at every frequency.

  Model   CC/Model/Circuit.lean (transformCircuit, dcGet, cxGet, cxPower), CC/Model/MNA.lean
  Spec    CC/Spec/Phasor.lean (`Spec.phasorNet`: the intended phasor network),
          CC/Spec/Circuit.lean (`CircuitEqs`: Kirchhoff + element laws)
  Uses    C07 (per-kind faithfulness), C01 (`C01_sound`, `C01_unique`) at `K = GQ`.
-/
import CC.Properties.C07
import CC.Properties.C01
import CC.Proofs.GQField
import CC.Gen.Solution
namespace CC
open Gen

/-! ## component level: the translated branch is the intended one -/

/-- **C02 (component).**  For every kind property C02 names (the kinds of C02 of C07: resistor,
conductance, impedance, admittance, capacitor, inductance, lamp / load, short circuit, DC / AC /
complex sources): whenever the specification defines the intended branch of a component, the
generated translator produces exactly it, at every frequency and resolution. -/
theorem C02_component_eq_spec (trig : Trig) (harm : Harm) (h0 : TrigZero trig) (c : Component) (w wres : Rat)
    (sb : Branch String GQ) (hk : c.kind ∈ exactKinds) (hdc : c.dcOK)
    (hs : Spec.branchOf trig harm c w wres = some sb) :
    ∃ br, transformComponent Gen.tables trig harm c w wres = some (.ok br) ∧ Spec.erase br = sb :=
  C07_faithful_nonperiodic trig harm h0 c w wres sb hk hdc hs

/-! ## circuit level: `transform_circuit` produces the intended phasor network -/

theorem mapM_some_forall₂ {α β : Type} (f : α → Option β) :
    ∀ (l : List α) (bs : List β), l.mapM f = some bs → List.Forall₂ (fun a b => f a = some b) l bs := by
  intro l
  induction l with
  | nil => intro bs h; simp at h; subst h; exact .nil
  | cons a l ih =>
    intro bs h
    rw [List.mapM_cons] at h
    cases hfa : f a with
    | none => simp [hfa] at h
    | some b =>
      cases hl : l.mapM f with
      | none => simp [hfa, hl] at h
      | some bs' =>
        simp [hfa, hl] at h
        subst h
        exact .cons hfa (ih bs' hl)

theorem forall₂_imp_mem {α β : Type} {R Q : α → β → Prop} :
    ∀ {l : List α} {l' : List β}, List.Forall₂ R l l' → (∀ a b, a ∈ l → R a b → Q a b) → List.Forall₂ Q l l' := by
  intro l l' h
  induction h with
  | nil => intro _; exact .nil
  | cons hab _ ih =>
    intro hq
    exact .cons (hq _ _ (List.mem_cons_self ..) hab) (ih fun a b ha => hq a b (List.mem_cons_of_mem _ ha))

theorem mapM_ok_of_forall₂ {α β γ ε : Type} (f : α → Except ε β) (g : β → γ) :
    ∀ (l : List α) (cs : List γ), List.Forall₂ (fun a c => ∃ b, f a = .ok b ∧ g b = c) l cs →
      ∃ bs, l.mapM f = .ok bs ∧ bs.map g = cs := by
  intro l cs h
  induction h with
  | nil => exact ⟨[], rfl, rfl⟩
  | cons hab _ ih =>
    obtain ⟨b, hb, hg⟩ := hab
    obtain ⟨bs, hbs, hgs⟩ := ih
    exact ⟨b :: bs, by simp [List.mapM_cons, hb, hbs, bind, Except.bind, pure, Except.pure], by simp [hg, hgs]⟩

/-- `Network.__post_init__` looks at terminals, identifiers and the reference label only -/
theorem check_erase (bs : List (Branch String GQ)) (z : String) :
    Net.check ({ branches := bs.map Spec.erase, zero := z } : Net String GQ)
      = Net.check ({ branches := bs, zero := z } : Net String GQ) := by
  have h1 : (bs.map Spec.erase).map (·.n1) = bs.map (·.n1) := by simp [List.map_map, Function.comp_def, Spec.erase]
  have h2 : (bs.map Spec.erase).map (·.n2) = bs.map (·.n2) := by simp [List.map_map, Function.comp_def, Spec.erase]
  have h3 : (bs.map Spec.erase).map (·.id) = bs.map (·.id) := by simp [List.map_map, Function.comp_def, Spec.erase]
  simp only [Net.check, Net.nodeLabels, Net.ids, h1, h2, h3, List.length_map, List.isEmpty_map]
  rfl

theorem exactKinds_translated : ∀ k ∈ exactKinds, Gen.tables.hasKind k = true := by decide

/-- the hypotheses under which C02 is proved for a component list: every entry is a ground
or a well-formed component of an exactly translated kind -/
def ExactList (cs : List Component) : Prop :=
  ∀ c ∈ cs, c.kind = "ground" ∨ (c.kind ∈ exactKinds ∧ c.dcOK)

/-- the statement: for every accepted circuit over the kinds property C02 names whose intended
phasor network `S` exists, at every frequency `w` and resolution, the comprehension of
`transform_circuit` succeeds and its branches are — entry by entry, in order — the branches of
`S`; the reference node is that of `S`; and `transform_circuit` itself succeeds whenever `S`
passes `Network`'s checks -/
def C02_transform_eq_spec_statement : Prop :=
  ∀ (trig : Trig) (harm : Harm), TrigZero trig → ∀ (cs : List Component) (C : Circuit) (w wres : Rat),
    cs ≠ [] → Circuit.mk? cs = .ok C → ExactList cs →
    ∀ S : Net String GQ, Spec.phasorNet trig harm cs w wres = some S →
    (∃ bs, transformBranches Gen.tables trig harm C.components w wres = .ok bs ∧
        bs.map Spec.erase = S.branches ∧ C.ground = S.zero) ∧
    (S.check = .ok () →
      ∃ N, transformCircuit Gen.tables trig harm C w wres = .ok N ∧
        N.branches.map Spec.erase = S.branches ∧ N.zero = S.zero)

/-- **C02 (transform = spec).** -/
theorem C02_transform_eq_spec : C02_transform_eq_spec_statement := by
  intro trig harm h0 cs C w wres hne hC hex S hS
  obtain ⟨hg, hcomp⟩ := C07_ground cs C hne hC
  unfold Spec.phasorNet at hS
  cases hbs : (Spec.nonGround cs).mapM (fun c => Spec.branchOf trig harm c w wres) with
  | none => simp [hbs] at hS
  | some sbs =>
    cases hz : Spec.groundOf cs with
    | none => simp [hbs, hz] at hS
    | some z =>
      simp [hbs, hz] at hS
      subst hS
      have hgz : C.ground = z := by rw [hz] at hg; exact Option.some.inj hg
      have hfil : translated Gen.tables cs = Spec.nonGround cs := C07_nothing_dropped cs
      have hf := mapM_some_forall₂ _ _ _ hbs
      have hf' : List.Forall₂ (fun c sb => ∃ br,
          (match transformComponent Gen.tables trig harm c w wres with
            | some r => r
            | none => Except.error Err.keyError) = .ok br ∧ Spec.erase br = sb)
          (Spec.nonGround cs) sbs := by
        refine forall₂_imp_mem hf ?_
        · intro c sb hc hcs
          have hc' : c ∈ cs := (List.mem_filter.mp hc).1
          have hkg : c.kind ≠ "ground" := by simpa [Spec.nonGround] using (List.mem_filter.mp hc).2
          rcases hex c hc' with h | ⟨hk, hdc⟩
          · exact absurd h hkg
          · obtain ⟨br, hbr, he⟩ := C02_component_eq_spec trig harm h0 c w wres sb hk hdc hcs
            exact ⟨br, by rw [hbr], he⟩
      obtain ⟨bs, hbs', hmap⟩ := mapM_ok_of_forall₂ _ _ _ _ hf'
      have htb : transformBranches Gen.tables trig harm C.components w wres = .ok bs := by
        unfold transformBranches
        rw [hcomp]
        have : cs.filter Gen.tables.selects = Spec.nonGround cs := hfil
        rw [this]; exact hbs'
      refine ⟨⟨bs, htb, hmap, hgz⟩, ?_⟩
      intro hcheck
      refine ⟨{ branches := bs, zero := C.ground }, ?_, hmap, hgz⟩
      unfold transformCircuit
      have hc2 : Net.check ({ branches := bs, zero := C.ground } : Net String GQ) = .ok () := by
        rw [← check_erase, hmap, hgz]; exact hcheck
      simp [htb, hc2, bind, Except.bind, pure, Except.pure]

/-! ## the reported quantities solve the circuit equations of the intended network -/

/-- the circuit equations do not look at the `type` string of an element -/
theorem circuitEqs_erase (bs : List (Branch String GQ)) (z : String) (R : Report String GQ)
    (h : CircuitEqs ({ branches := bs, zero := z } : Net String GQ) R) :
    CircuitEqs ({ branches := bs.map Spec.erase, zero := z } : Net String GQ) R := by
  obtain ⟨h1, h2, h3, h4⟩ := h
  refine ⟨h1, ?_, ?_, ?_⟩
  · intro b hb
    obtain ⟨b', hb', rfl⟩ := List.mem_map.mp hb
    exact h2 b' hb'
  · intro b hb
    obtain ⟨b', hb', rfl⟩ := List.mem_map.mp hb
    exact h3 b' hb'
  · intro n hn
    have hl : Net.allLabels ({ branches := bs.map Spec.erase, zero := z } : Net String GQ)
        = Net.allLabels ({ branches := bs, zero := z } : Net String GQ) := by
      simp [Net.allLabels, List.map_map, Function.comp_def, Spec.erase]
    rw [hl] at hn
    have := h4 n hn
    unfold kclResidual at this ⊢
    simp only [List.map_map]
    exact this

section Exact

/-- **C02 (exact).**  Let `S` be the intended phasor network of an accepted circuit over
the kinds of C02 at frequency `w` (inductor `jwL`, capacitor `jwC`, source at `w` ↦ its phasor,
other sources short / open), valid as a network and without self-loop branches.  Then
`transform_circuit` yields a network `N`, and for **every** vector `x` that solves the matrix
equation the code builds for `N` (whatever `numpy.linalg.solve` returns), the potentials,
voltages and currents the accessors report satisfy Kirchhoff's laws and every element law
*of `S`*.
What this theorem does **not** state: that such an `x` exists, or that it is unique — existence
(`det ≠ 0` for a well-posed network) is open in C01 (`C01_solvable_statement`), uniqueness of the
reported values for a well-posed `S` is `CC.C01_unique` / `C01_matrix_unique`, not re-derived
here; the check decides well-posedness per instance with the exact spec tableau.  Hypotheses
carried: `S` passes `Network`'s checks (`S.check = ok`) and has no self-loop branch (as C01). -/
theorem C02_exact (trig : Trig) (harm : Harm) (h0 : TrigZero trig)
    (cs : List Component) (C : Circuit) (w wres : Rat) (hne : cs ≠ [])
    (hC : Circuit.mk? cs = .ok C) (hex : ExactList cs)
    (S : Net String GQ) (hS : Spec.phasorNet trig harm cs w wres = some S)
    (hcheck : S.check = .ok ()) (hloop : ∀ b ∈ S.branches, b.n1 ≠ b.n2) :
    ∃ N, transformCircuit Gen.tables trig harm C w wres = .ok N ∧
      ∀ x : List GQ, x.length = N.nodes.length + N.vsIds.length → matVec N.mnaA x = N.mnaB →
        CircuitEqs S (N.reportOf x) ∧
        (∀ n ∈ N.allLabels, N.potential x n = .ok ((N.reportOf x).pot n)) ∧
        (∀ b ∈ N.branches, N.voltage x b.id = .ok ((N.reportOf x).v b.id) ∧
                            N.current x b.id = .ok ((N.reportOf x).i b.id)) := by
  obtain ⟨N, hN, hmap, hz⟩ := (C02_transform_eq_spec trig harm h0 cs C w wres hne hC hex S hS).2 hcheck
  refine ⟨N, hN, ?_⟩
  intro x hx hsolve
  have hNcheck : N.check = .ok () := by
    have := check_erase N.branches N.zero
    rw [hmap] at this
    show Net.check ⟨N.branches, N.zero⟩ = _
    rw [← this, hz]; exact hcheck
  obtain ⟨hzero, hids⟩ := (Net.check_ok_iff N).mp hNcheck
  have wf : N.WF := ⟨hids, hzero, by
    intro b hb
    have : Spec.erase b ∈ S.branches := by rw [← hmap]; exact List.mem_map_of_mem hb
    exact hloop (Spec.erase b) this⟩
  obtain ⟨hp, hvi, heq⟩ := C01_sound N x wf hx hsolve
  refine ⟨?_, hp, hvi⟩
  have := circuitEqs_erase N.branches N.zero _ heq
  rw [hmap, hz] at this
  exact this

end Exact

/-! ## RMS, DC, gate boundary -/

/-- complex divided by a real, the model's `GQ.divR`, is division by the embedded real in the field -/
theorem divR_eq_div (v : GQ) (r : Rat) : GQ.divR v r = v / GQ.ofRat r := by
  by_cases hr : r = 0
  · subst hr
    apply GQ.ext' <;> simp [GQ.divR, GQ.ofRat, GQ.div_def, GQ.mul_def, GQ.inv_def, GQ.normSq]
  · apply GQ.ext' <;> simp [GQ.divR, GQ.ofRat, GQ.div_def, GQ.mul_def, GQ.inv_def, GQ.normSq] <;> field_simp

/-- **link to the translator.**  The hand-written wrapper `cxGet` (CC/Model/Circuit.lean) computes
what the *generated* `Gen.Sol.cx_get_voltage / _current / _potential` (harness/extract_solution.py,
the three bodies are the same expression of their own quantity) compute at `K = GQ`, `r2` embedded. -/
theorem C02_wrappers_generated (peak : Bool) (r2 : Rat) (N : Net String GQ) (x : List GQ) (q : Quantity) (id : String) :
    cxGet peak r2 N x q id
      = (N.quantity x q id).map (fun v => Gen.Sol.cx_get_voltage GQ.conj (GQ.ofRat r2) peak v v v) ∧
    (∀ v i phi : GQ, Gen.Sol.cx_get_current GQ.conj (GQ.ofRat r2) peak v i phi
        = Gen.Sol.cx_get_voltage GQ.conj (GQ.ofRat r2) peak i i i ∧
      Gen.Sol.cx_get_potential GQ.conj (GQ.ofRat r2) peak v i phi
        = Gen.Sol.cx_get_voltage GQ.conj (GQ.ofRat r2) peak phi phi phi) := by
  constructor
  · unfold cxGet
    cases N.quantity x q id <;> cases peak <;>
      simp [bind, Except.bind, pure, Except.pure, Except.map, Gen.Sol.cx_get_voltage, divR_eq_div]
  · intro v i phi
    cases peak <;> simp [Gen.Sol.cx_get_current, Gen.Sol.cx_get_potential, Gen.Sol.cx_get_voltage]

/-- **C02 (rms).**  Every RMS potential, voltage and current is the peak phasor divided by
`√2` (whatever number the caller's `np.sqrt(2)` is).  *By definition* of the hand-written wrapper
`cxGet`, which is tied to `ComplexSolution.get_*` by the `cc_solution` correspondence and to the
generated formulas by `C02_wrappers_generated`; the statement about the generated formulas
themselves is `CC.C05_gen_rms`. -/
theorem C02_rms (r2 : Rat) (N : Net String GQ) (x : List GQ) (q : Quantity) (id : String) :
    cxGet false r2 N x q id = (cxGet true r2 N x q id).map (fun v => GQ.divR v r2) := by
  unfold cxGet
  cases N.quantity x q id <;> simp [bind, Except.bind, pure, Except.pure, Except.map]

/-- … and, with `√2·√2 = 2`, both modes report the same complex power -/
theorem C02_rms_power (r2 : Rat) (h2 : r2 * r2 = 2) (N : Net String GQ) (x : List GQ) (id : String) :
    cxPower false r2 N x id = cxPower true r2 N x id := by
  have hr : r2 ≠ 0 := by intro h; rw [h] at h2; norm_num at h2
  unfold cxPower cxGet
  cases N.quantity x .voltage id <;> cases N.quantity x .current id <;>
    simp [bind, Except.bind, pure, Except.pure]
  rename_i v i
  have h2' : r2 ^ 2 = 2 := by rw [pow_two]; exact h2
  apply GQ.ext' <;> simp [GQ.mul_def, GQ.divR, GQ.smulR, GQ.conj] <;> field_simp <;> rw [h2'] <;> ring

/-- the network `DCSolution` solves / the network `ComplexSolution(w)` solves -/
def dcNet (trig : Trig) (harm : Harm) (C : Circuit) : Except Err (Net String GQ) :=
  transformCircuit Gen.tables trig harm C 0 Gen.defaultWResTransform
def cxNet (trig : Trig) (harm : Harm) (C : Circuit) (w : Rat) : Except Err (Net String GQ) :=
  transformCircuit Gen.tables trig harm C w Gen.defaultWResTransform

/-- **C02 (dc).**  The DC analysis solves the very network of the complex analysis at `w = 0`
and reports the real parts of its peak values; in that network an inductor is a short and a
capacitor an open circuit (`C07_limits_dc`).
Conjunct 1 is `rfl` between the two definitions `dcNet` / `cxNet` above, which only transcribe
`transform(self.circuit, w=[0])` and `transform(self.circuit, w=[self.w])` of solution.py:37/59
(tied by the `cc_transform` correspondence at the default resolution, not by a translator);
conjunct 2 holds *by definition* of the hand-written `dcGet` / `cxGet` (the generated
`.real` formulas are `CC.C05_gen_dc_real`). -/
theorem C02_dc (trig : Trig) (harm : Harm) (C : Circuit) (r2 : Rat) (N : Net String GQ) (x : List GQ)
    (q : Quantity) (id : String) :
    dcNet trig harm C = cxNet trig harm C 0 ∧
    dcGet N x q id = (cxGet true r2 N x q id).map (·.re) ∧
    (∀ L Cap : Rat, (Elem.norton (⟨0, 0 * L⟩ : GQ) 0).isShort = true ∧
                    (Elem.thevenin (⟨0, 0 * Cap⟩ : GQ) 0).isOpen = true) := by
  refine ⟨rfl, ?_, fun L Cap => C07_limits_dc L Cap⟩
  unfold dcGet cxGet
  cases N.quantity x q id <;> simp [bind, Except.bind, pure, Except.pure, Except.map]

/-- **C02 (gate boundary).**  A sinusoidal source exactly `w_res` away from the analysis
frequency is still active; anything farther is replaced (short for a voltage source). -/
theorem C02_gate_boundary (trig : Trig) (harm : Harm) (h0 : TrigZero trig) (c : Component) (w wres : Rat)
    (a b : String) (V R ws phi : Rat)
    (hk : c.kind = "ac_voltage_source") (hn : c.nodes = [a, b])
    (hV : c.value.lookup "V" = some (.num V)) (hR : c.value.lookup "R" = some (.num R))
    (hw : c.value.lookup "w" = some (.num ws)) (hp : c.value.lookup "phi" = some (.num phi)) :
    (Spec.dist w ws = wres → transformComponent Gen.tables trig harm c w wres
        = some (.ok { n1 := a, n2 := b, id := c.id, ty := "voltage_source", e := .norton ⟨R, 0⟩ (Spec.phasor trig V phi) })) ∧
    (wres < Spec.dist w ws → transformComponent Gen.tables trig harm c w wres
        = some (.ok { n1 := a, n2 := b, id := c.id, ty := "short_circuit", e := .norton 0 0 })) := by
  have h := (C07_faithful_ac_voltage_source trig harm c w wres a b h0 V R ws phi hk hn hV hR hw hp).1
  constructor
  · intro he
    rw [h, if_pos (le_of_eq he)]
  · intro hlt
    rw [h, if_neg (not_le.mpr hlt)]

/-! ## non-vacuity -/

section Examples

theorem exExact : ExactList exCs := by
  intro c hc
  simp only [exCs, List.mem_cons, List.mem_nil_iff, or_false] at hc
  rcases hc with rfl | rfl | rfl
  · left; rfl
  · right; exact ⟨by decide, fun h => by rcases h with h | h <;> exact absurd h (by decide)⟩
  · right; exact ⟨by decide, fun h => by rcases h with h | h <;> exact absurd h (by decide)⟩

/-- the intended network of `exCs` at `w = 2` exists, is a valid network and has no self-loop:
the hypotheses of `C02_transform_eq_spec_partial` and `C02_exact` are met -/
theorem exSpec : Spec.phasorNet (fun _ => (1, 0)) (fun _ _ _ _ => (0, 0)) exCs 2 0
    = some ⟨[⟨"1", "0", "V", "", .norton ⟨1, 0⟩ ⟨3, 0⟩⟩, ⟨"1", "0", "C", "", .thevenin ⟨0, 8⟩ 0⟩], "0"⟩ := by
  have hb : (Spec.nonGround exCs).mapM (fun c => Spec.branchOf (fun _ => (1, 0)) (fun _ _ _ _ => (0, 0)) c 2 0)
      = some [⟨"1", "0", "V", "", .norton ⟨1, 0⟩ ⟨3, 0⟩⟩, ⟨"1", "0", "C", "", .thevenin ⟨0, 8⟩ 0⟩] := by
    decide +kernel
  have hg : Spec.groundOf exCs = some "0" := by decide
  simp [Spec.phasorNet, hb, hg]

example := C02_exact (fun _ => (1, 0)) (fun _ _ _ _ => (0, 0)) rfl exCs _ 2 0 (by decide) exCircuit exExact _ exSpec
  (by simp [Net.check, Net.nodeLabels, sortL, dedupL, Net.ids])
  (by intro b hb; simp only [List.mem_cons, List.mem_nil_iff, or_false] at hb; rcases hb with rfl | rfl <;> decide)

end Examples

end CC
