/-
  C18 (round 5) — the composite texts: polar form, time function, values with a zero part.

  Theorems about the model `CC.Model.Fmt` over the generated `CC.Gen.Fmt`, against the readers of
  `CC.Spec.Fmt` (`parseBack`, `parseFixed`, `parsePolar`).  What is a *parameter* here (computed by
  libm / numpy in the code and handed to the model as a rational): `abs(value)`, `np.angle(value, deg)`,
  `cmath.phase(value)` plus the quarter turn of the sine form, `math.degrees(phase)`, `w/2/pi`.  Every
  statement below is about the text of the number *handed to the formatter*; that this number is the
  modulus / argument of the complex value is not a statement about these definitions (correspondence
  and oracle).
-/
import Mathlib.Analysis.SpecialFunctions.Complex.Arg
import CC.Properties.C18
import CC.Proofs.FmtPolar

namespace CC
open CC.Fmt CC.Gen.Fmt

/-! ## polar form -/

/-- the generated cut-off below which `ScientificComplex.__str__` shows no angle -/
def polarCut (deg : Bool) : ℚ := pow10 (if deg then sc_deg_log10_threshold else sc_rad_log10_threshold)
/-- the generated number of decimals of the angle -/
def polarDecimals (deg : Bool) : ℕ := if deg then sc_deg_decimals else sc_rad_decimals
/-- what follows the magnitude text in the polar form -/
def polarSuffix (deg : Bool) (angle : ℚ) : List Char :=
  if |angle| ≤ polarCut deg then []
  else (if deg then sc_polar_sep_deg else sc_polar_sep_rad) ++ fixedFmt angle (polarDecimals deg)
        ++ (if deg then sc_deg_suffix else [])

/-- (pin) the generated constants of the polar form: cut-offs `10^-2` degrees / `10^-5` radians, 2 / 4 decimals,
separator `∠`, degree sign -/
theorem C18_polar_constants :
    polarCut true = 1 / 100 ∧ polarCut false = 1 / 100000 ∧ polarDecimals true = 2 ∧ polarDecimals false = 4
    ∧ sc_polar_sep_deg = ['∠'] ∧ sc_polar_sep_rad = ['∠'] ∧ sc_deg_suffix = ['°'] := by
  decide +kernel

/-- **C18_polar_text** — the polar text is the `ScientificFloat` text of the magnitude handed to the formatter
(`c.toSFCfg.str absV`: literally the real path, same unit, precision, table), followed by `polarSuffix`: nothing
when `|angle| ≤` the generated cut-off, else `∠`, the angle in fixed notation with the generated number of decimals,
and `°` in degree mode.  For every configuration and all values; `re`, `im` do not enter. -/
theorem C18_polar_text (c : SCCfg) (re im absV angle : ℚ) (hpol : c.polar = true) :
    c.str re im absV angle = c.toSFCfg.str absV ++ polarSuffix c.deg angle := by
  unfold SCCfg.str polarSuffix polarCut polarDecimals
  cases hd : c.deg <;>
    simp only [hpol, ↓reduceIte, qabs_eq_abs, Bool.false_eq_true] <;> split_ifs <;> simp

/-- **C18_polar_magnitude_real_path** — all real-path theorems transfer to the magnitude of the polar form: the
magnitude text is a prefix of the polar text and, for a `CfgOK` configuration and a magnitude in the domain, it reads
back (`parseBack`) to a number within half a unit of the `p`-th digit of `absV`, in engineering form, saturating
exactly beyond the range (`RealOK`, all clauses).  `absV` is the number handed to the formatter (a parameter). -/
theorem C18_polar_magnitude_real_path (c : SCCfg) (re im absV angle : ℚ) (hpol : c.polar = true)
    (hcfg : CfgOK c.toSFCfg) (habs : InDomain absV c.precision) :
    c.toSFCfg.str absV <+: c.str re im absV angle
    ∧ RealOK absV c.precision (c.toSFCfg.value3 absV).maxExp c.unit (c.toSFCfg.str absV) := by
  refine ⟨?_, C18_real_domain c.toSFCfg absV habs.1 hcfg habs.2.2 habs.2.1⟩
  rw [C18_polar_text c re im absV angle hpol]
  exact List.prefix_append _ _

example : InDomain (5 : ℚ) 3 := by
  refine ⟨by norm_num, by rw [abs_of_pos (by norm_num)]; norm_num, ?_⟩
  unfold RoundsUpToOne; rw [abs_of_pos (by norm_num)]; norm_num

/-- **C18_polar_omission** — the angle is left out exactly when `|angle| ≤ 10^-2` (degrees) / `10^-5` (radians):
the sign of the angle plays no role in the rule, and nothing else suppresses it. -/
theorem C18_polar_omission (c : SCCfg) (re im absV angle : ℚ) (hpol : c.polar = true) :
    (c.str re im absV angle = c.toSFCfg.str absV ↔ |angle| ≤ (if c.deg then 1 / 100 else 1 / 100000)) := by
  rw [C18_polar_text c re im absV angle hpol]
  obtain ⟨k1, k2, _, _, s1, s2, _⟩ := C18_polar_constants
  have hcut : polarCut c.deg = if c.deg then 1 / 100 else 1 / 100000 := by
    cases c.deg
    · simpa using k2
    · simpa using k1
  rw [← hcut]
  constructor
  · intro h
    have hs : polarSuffix c.deg angle = [] := by
      have := congrArg List.length h
      rw [List.length_append] at this
      exact List.eq_nil_of_length_eq_zero (by omega)
    by_contra hgt
    unfold polarSuffix at hs
    rw [if_neg hgt] at hs
    cases hd : c.deg <;> simp [hd, s1, s2] at hs
  · intro h
    unfold polarSuffix
    rw [if_pos h, List.append_nil]

/-- **C18_polar_angle_text** — the angle text `f'{angle:.4f}'` / `f'{angle:.2f}'` is read by `parseFixed` as a number
within `0.5·10^-4` rad / `0.5·10^-2` degrees of the angle handed to the formatter, never of the opposite sign, and it
starts with `-` exactly for a negative angle.  The angle itself (`np.angle`, i.e. `atan2`) is a parameter.  Not
claimed: `p` significant digits — the number of decimals is fixed whatever the precision (open finding 3). -/
theorem C18_polar_angle_text (angle : ℚ) (deg : Bool) :
    ∃ a : ℚ, parseFixed (fixedFmt angle (polarDecimals deg)) = some a
      ∧ |a - angle| ≤ (if deg then 1 / 200 else 1 / 20000)
      ∧ (0 ≤ angle → 0 ≤ a) ∧ (angle < 0 → a ≤ 0)
      ∧ ((fixedFmt angle (polarDecimals deg)).head? = some '-' ↔ angle < 0) := by
  refine ⟨fixedValue angle (polarDecimals deg), parseFixed_fixedFmt _ _, ?_, (fixedValue_sign _ _).1,
    (fixedValue_sign _ _).2, ?_⟩
  · have h := fixedValue_near angle (polarDecimals deg)
    cases deg
    · have e : (1 : ℚ) / (2 * ((10 ^ polarDecimals false : ℕ) : ℚ)) = 1 / 20000 := by
        rw [C18_polar_constants.2.2.2.1]; norm_num
      rw [e] at h; simpa using h
    · have e : (1 : ℚ) / (2 * ((10 ^ polarDecimals true : ℕ) : ℚ)) = 1 / 200 := by
        rw [C18_polar_constants.2.2.1]; norm_num
      rw [e] at h; simpa using h
  · rw [fixedFmt_eq]
    by_cases hx : angle < 0
    · simp [hx]
    · obtain ⟨ch, cs, hc, hcd⟩ := natDigits_cons (fixedK angle (polarDecimals deg) / 10 ^ polarDecimals deg)
      have hne := (isDigit_ne hcd).1
      simp [hx, hc, hne]

/-- a small angle above the cut-off is shown as zero: `2·10^-5` rad is printed `∠0.0000` (within the stated
`0.5·10^-4`, but no significant digit — part of open finding 3) -/
theorem C18_polar_small_angle_text :
    printComplex 1 (2 / 100000) 1 (2 / 100000) ['V'] 3 true false = ['1', '.', '0', '0', 'V', '∠', '0', '.', '0', '0', '0', '0'] := by
  decide +kernel

/-- `∠` is foreign to a configuration whose unit and prefixes do not contain it -/
theorem foreign_angle (c : SFCfg) (hu : '∠' ∉ c.unit) (ht : ∀ p ∈ c.table, '∠' ∉ p.2) : Foreign '∠' c :=
  ⟨fun h => numCh_ne_angle h rfl, by decide, by decide, hu, ht⟩

/-- **C18_polar_reads_back** (text level) — for a `CfgOK` configuration whose unit and prefix letters do not contain
`∠`, and a magnitude in the domain: the polar reader `parsePolar` splits the text into a magnitude that satisfies every
clause of `RealOK` with respect to `absV`, and — exactly when `|angle|` exceeds the cut-off — an angle within
`0.5·10^-4` rad / `0.5·10^-2` degrees of `angle`, with the degree flag of the configuration. -/
theorem C18_polar_reads_back (c : SCCfg) (re im absV angle : ℚ) (hpol : c.polar = true)
    (hcfg : CfgOK c.toSFCfg) (habs : InDomain absV c.precision)
    (hu : '∠' ∉ c.unit) (ht : ∀ p ∈ c.table, '∠' ∉ p.2) :
    ∃ t : Text, realFailures absV c.precision (c.toSFCfg.value3 absV).maxExp (some t) = []
      ∧ (|angle| ≤ polarCut c.deg → parsePolar c.unit (c.str re im absV angle) = some (t, none, false))
      ∧ (¬ |angle| ≤ polarCut c.deg →
          ∃ a : ℚ, parsePolar c.unit (c.str re im absV angle) = some (t, some a, c.deg)
            ∧ |a - angle| ≤ (if c.deg then 1 / 200 else 1 / 20000)
            ∧ (0 ≤ angle → 0 ≤ a) ∧ (angle < 0 → a ≤ 0)) := by
  have hreal := C18_real_domain c.toSFCfg absV habs.1 hcfg habs.2.2 habs.2.1
  unfold RealOK at hreal
  have hfor : '∠' ∉ c.toSFCfg.str absV := not_mem_str (foreign_angle c.toSFCfg hu ht) absV
  obtain ⟨_, _, _, _, s1, s2, s3⟩ := C18_polar_constants
  cases hpb : parseBack c.unit (c.toSFCfg.str absV) with
  | none => rw [hpb] at hreal; simp [realFailures] at hreal
  | some t =>
    rw [hpb] at hreal
    refine ⟨t, hreal, ?_, ?_⟩
    · intro hle
      rw [C18_polar_text c re im absV angle hpol]
      unfold polarSuffix
      rw [if_pos hle, List.append_nil]
      exact parsePolar_bare _ _ _ hfor hpb
    · intro hgt
      obtain ⟨a, _, hnear, hs1, hs2, _⟩ := C18_polar_angle_text angle c.deg
      refine ⟨fixedValue angle (polarDecimals c.deg), ?_, ?_, (fixedValue_sign _ _).1, (fixedValue_sign _ _).2⟩
      · rw [C18_polar_text c re im absV angle hpol]
        unfold polarSuffix
        rw [if_neg hgt]
        cases hd : c.deg
        · simp only [Bool.false_eq_true, ↓reduceIte, s2, List.append_nil, ← List.append_assoc]
          exact parsePolar_rad _ _ _ hfor hpb _ _
        · simp only [↓reduceIte, s1, s3, ← List.append_assoc]
          exact parsePolar_deg _ _ _ hfor hpb _ _
      · have h := C18_polar_angle_text angle c.deg
        obtain ⟨a', ha', hn', _⟩ := h
        rw [parseFixed_fixedFmt] at ha'
        rw [Option.some.inj ha']; exact hn'

/-! ## time function -/

/-- a configuration built from a constructor call of a display helper is `CfgOK` when its unit is readable and its
table qualifies (every table of the code does: `C18_tables_admissible`, `C18_tables_si`, `C18_tables_ends`) -/
theorem cfgOK_of_call (k : CallCfg) (unit : List Char) (p : ℕ) (hp : 1 ≤ p) (hu : UnitOK (k.unit.getD unit))
    (ht : k.table.admissible = true ∧ k.table.si = true ∧ k.table.minKey % 3 = 0 ∧ k.table.maxKey % 3 = 0) :
    CfgOK (cfgOfCall k unit p) :=
  ⟨hp, hu, fun _ => ⟨Table.admissible_sound ht.1, ht.2.1, ht.2.2.1, ht.2.2.2⟩⟩

/-- (pin) the `ScientificFloat` objects `print_sinosoidal` builds: amplitude and `w = 0` value with the caller's unit
and the `u/m/k` prefixes; phase without unit (radians) or with `°`, no prefixes; frequency in `/s` without prefixes
or in `Hz` with the `m…T` prefixes — all with the caller's precision.  The generated threshold is binary64 `1e-4`. -/
theorem C18_time_configs (unit : List Char) (p : ℕ) :
    cfgOfCall print_sinosoidal_call0 unit p = cfgOfCall print_abs_call0 unit p
    ∧ cfgOfCall print_sinosoidal_call3 unit p = cfgOfCall print_real_call0 unit p
    ∧ cfgOfCall print_sinosoidal_call1 [] p = { unit := ['°'], precision := p, usePrefix := false }
    ∧ cfgOfCall print_sinosoidal_call2 [] p = { unit := [], precision := p, usePrefix := false }
    ∧ cfgOfCall print_sinosoidal_call5 [] p = { unit := ['/', 's'], precision := p, usePrefix := false }
    ∧ cfgOfCall print_sinosoidal_call4 [] p
        = { unit := ['H', 'z'], precision := p, usePrefix := true, table := [(-3, ['m']), (3, ['k']), (6, ['M']), (9, ['G']), (12, ['T'])] }
    ∧ |print_sinosoidal_phase_threshold - 1 / 10000| < 1 / 100000000000000000000 := by
  refine ⟨rfl, rfl, rfl, rfl, rfl, rfl, ?_⟩
  unfold print_sinosoidal_phase_threshold
  rw [abs_lt]; constructor <;> norm_num

/-- **C18_time_w_zero** — at `w = 0` the time-function text is the real-path text of `Re(X)` (with its sign), for
every value, unit, precision and option (the generated formula after /repo 7cf4bc4; formerly `|X|`). -/
theorem C18_time_w_zero (re absV phase phaseDeg wHz : ℚ) (unit : List Char) (p : ℕ) (sin deg hertz : Bool) :
    printSinusoidal re absV phase phaseDeg 0 wHz unit p sin deg hertz = printReal re unit p := by
  unfold printSinusoidal
  simp only [↓reduceIte]
  rfl

/-- the phase part of the time-function text: nothing when `|phase| ≤` the generated threshold (binary64 `1e-4`, on
the phase in radians also in degree mode), else the sign character of `phase` and the `ScientificFloat` text of
`|phase|` (radians, no unit) or of `|degrees(phase)|` (unit `°`), with the caller's precision, without prefixes -/
def timePhasePart (phase phaseDeg : ℚ) (p : ℕ) (deg : Bool) : List Char :=
  if |phase| > print_sinosoidal_phase_threshold then
    (if phase > 0 then ['+'] else ['-'])
      ++ (if deg then (cfgOfCall print_sinosoidal_call1 [] p).str (qabs phaseDeg)
          else (cfgOfCall print_sinosoidal_call2 [] p).str (qabs phase))
  else []

/-- **C18_time_text** — for `w ≠ 0` the time-function text is: the real-path text of the amplitude handed to the
formatter (`print_abs`: same unit, precision, table), `·`, `sin` or `cos`, `(`, the frequency (`2π·` and `w/2/π` in Hz,
or `w` in `/s`), `·t`, the phase part (`timePhasePart`), `)`.  `absV`, `phase` (which in the sine form already contains
the quarter turn, `C18_sine_shift`), `phaseDeg`, `wHz` are parameters. -/
theorem C18_time_text (re absV phase phaseDeg w wHz : ℚ) (unit : List Char) (p : ℕ) (sin deg hertz : Bool)
    (hw : w ≠ 0) :
    printSinusoidal re absV phase phaseDeg w wHz unit p sin deg hertz =
      printAbs absV unit p ++ ['·'] ++ (if sin then ['s', 'i', 'n'] else ['c', 'o', 's']) ++ ['(']
        ++ (if hertz then ['2', 'π', '·'] ++ (cfgOfCall print_sinosoidal_call4 [] p).str wHz
            else (cfgOfCall print_sinosoidal_call5 [] p).str w)
        ++ ['·', 't'] ++ timePhasePart phase phaseDeg p deg ++ [')'] := by
  unfold printSinusoidal timePhasePart
  have e : (cfgOfCall print_sinosoidal_call0 unit p).str absV = printAbs absV unit p := rfl
  simp only [e, hw, ↓reduceIte, qabs_eq_abs, print_sinosoidal_mul, print_sinosoidal_sin, print_sinosoidal_cos,
    print_sinosoidal_open, print_sinosoidal_two_pi, print_sinosoidal_t, print_sinosoidal_plus,
    print_sinosoidal_minus, print_sinosoidal_close]
  cases sin <;> cases hertz <;> cases deg <;> simp

/-- **C18_time_parts_read_back** — every number of the time-function text is rendered by the real path with the
caller's precision `p`, and (for a value in the domain) reads back with all clauses of `RealOK`: the amplitude against
`absV` (prefixes up to `k`), the phase against `|phase|` / `|degrees(phase)|` (no prefixes: exponent range 16), the
frequency against `w` / `w/2/π`, and at `w = 0` the whole text against `Re(X)`. -/
theorem C18_time_parts_read_back (unit : List Char) (p : ℕ) (hp : 1 ≤ p) (hunit : UnitOK unit) :
    (∀ absV, InDomain absV p → RealOK absV p 3 unit (printAbs absV unit p))
    ∧ (∀ phase, InDomain phase p → RealOK (qabs phase) p 16 [] ((cfgOfCall print_sinosoidal_call2 [] p).str (qabs phase)))
    ∧ (∀ phaseDeg, InDomain phaseDeg p →
        RealOK (qabs phaseDeg) p 16 ['°'] ((cfgOfCall print_sinosoidal_call1 [] p).str (qabs phaseDeg)))
    ∧ (∀ w, InDomain w p → RealOK w p 16 ['/', 's'] ((cfgOfCall print_sinosoidal_call5 [] p).str w))
    ∧ (∀ wHz, InDomain wHz p → RealOK wHz p 12 ['H', 'z'] ((cfgOfCall print_sinosoidal_call4 [] p).str wHz))
    ∧ (∀ re, InDomain re p → RealOK re p 3 unit (printReal re unit p)) := by
  have c0 : CfgOK (cfgOfCall print_abs_call0 unit p) :=
    cfgOK_of_call _ _ _ hp hunit ⟨by decide, by decide, by decide, by decide⟩
  have c3 : CfgOK (cfgOfCall print_real_call0 unit p) :=
    cfgOK_of_call _ _ _ hp hunit ⟨by decide, by decide, by decide, by decide⟩
  have c1 : CfgOK (cfgOfCall print_sinosoidal_call1 [] p) :=
    cfgOK_of_call _ _ _ hp (by decide) ⟨by decide, by decide, by decide, by decide⟩
  have c2 : CfgOK (cfgOfCall print_sinosoidal_call2 [] p) :=
    cfgOK_of_call _ _ _ hp (by decide) ⟨by decide, by decide, by decide, by decide⟩
  have c4 : CfgOK (cfgOfCall print_sinosoidal_call4 [] p) :=
    cfgOK_of_call _ _ _ hp (by decide) ⟨by decide, by decide, by decide, by decide⟩
  have c5 : CfgOK (cfgOfCall print_sinosoidal_call5 [] p) :=
    cfgOK_of_call _ _ _ hp (by decide) ⟨by decide, by decide, by decide, by decide⟩
  refine ⟨?_, ?_, ?_, ?_, ?_, ?_⟩
  · intro v h; exact C18_real_domain _ v h.1 c0 h.2.2 h.2.1
  · intro v h; have h' := h.magnitude; exact C18_real_domain _ _ h'.1 c2 h'.2.2 h'.2.1
  · intro v h; have h' := h.magnitude; exact C18_real_domain _ _ h'.1 c1 h'.2.2 h'.2.1
  · intro v h; exact C18_real_domain _ v h.1 c5 h.2.2 h.2.1
  · intro v h; exact C18_real_domain _ v h.1 c4 h.2.2 h.2.1
  · intro v h; exact C18_real_domain _ v h.1 c3 h.2.2 h.2.1

/-- **C18_time_phase_rule** — the phase is shown exactly when `|phase|` exceeds the generated threshold, with `+`
for a positive and `-` for a negative phase (decided on the phase in radians handed to the formatter). -/
theorem C18_time_phase_rule (phase phaseDeg : ℚ) (p : ℕ) (deg : Bool) :
    (timePhasePart phase phaseDeg p deg = [] ↔ |phase| ≤ print_sinosoidal_phase_threshold)
    ∧ (|phase| > print_sinosoidal_phase_threshold →
        (timePhasePart phase phaseDeg p deg).head? = some (if phase > 0 then '+' else '-')) := by
  constructor
  · constructor
    · intro h
      by_contra hgt
      unfold timePhasePart at h
      rw [if_pos (not_le.mp hgt)] at h
      split_ifs at h <;> simp at h
    · intro h
      unfold timePhasePart
      rw [if_neg (not_lt.mpr h)]
  · intro h
    unfold timePhasePart
    rw [if_pos h]
    split_ifs <;> simp

/-! ## values with a zero part -/

theorem isZero_zero (c : SFCfg) : (c.value3 (qabs 0)).isZero = true := by
  unfold F3.isZero; rw [C18_is_zero_iff]; left; rfl

/-- **C18_cartesian_zero_im** — the Cartesian text of a value whose imaginary part is exactly zero is the sign of the
real part followed by the real-path text of `|re|`: no `j` part is shown (every configuration, every `re`, including
`re = 0`, see `C18_zero_text`). -/
theorem C18_cartesian_zero_im (c : SCCfg) (re absV angle : ℚ) (hpol : c.polar = false) :
    c.str re 0 absV angle =
      (if 0 ≤ re then [] else if c.compact then ['-'] else ['-', ' ']) ++ c.toSFCfg.str (qabs re) := by
  rw [C18_complex c re 0 absV angle hpol]
  simp only [isZero_zero, ↓reduceIte]

/-- **C18_cartesian_zero_re** — the Cartesian text of a value whose real part is exactly zero and whose imaginary part
is not suppressed (`is_zero` false) shows exactly the imaginary part: `j` and the real-path text of `|im|`, preceded by
the minus sign for a negative `im`; when the imaginary part is suppressed as well the text is that of the number `0`. -/
theorem C18_cartesian_zero_re (c : SCCfg) (im absV angle : ℚ) (hpol : c.polar = false) :
    ((c.toSFCfg.value3 (qabs im)).isZero = false →
      c.str 0 im absV angle =
        (if im < 0 then (if c.compact then ['-'] else [' ', '-', ' ']) ++ ['j'] ++ c.toSFCfg.str (qabs im)
         else ['j'] ++ c.toSFCfg.str (qabs im)))
    ∧ ((c.toSFCfg.value3 (qabs im)).isZero = true → c.str 0 im absV angle = c.toSFCfg.str 0) := by
  have hs := C18_complex c 0 im absV angle hpol
  simp only at hs
  constructor
  · intro hz
    rw [hs]
    simp only [hz, Bool.false_eq_true, ↓reduceIte, isZero_zero]
    by_cases him : im < 0
    · have : ¬ (0 ≤ im) := not_le.mpr him
      simp only [him, this, ↓reduceIte]
    · simp only [him, ↓reduceIte]
  · intro hz
    rw [hs]
    simp only [hz, ↓reduceIte, le_refl, List.nil_append]
    rfl

/-- **C18_zero_part_read_back** — a purely real / purely imaginary value in the domain: the one part shown reads back
(`RealOK`) to the magnitude of that part, its sign is the sign character shown.  Whether a non-zero imaginary part *is*
shown still depends on `is_zero` (open finding 2). -/
theorem C18_zero_part_read_back (c : SCCfg) (hcfg : CfgOK c.toSFCfg) :
    (∀ re, InDomain re c.precision →
        RealOK (qabs re) c.precision (c.toSFCfg.value3 (qabs re)).maxExp c.unit (c.toSFCfg.str (qabs re)))
    ∧ (∀ im, InDomain im c.precision →
        RealOK (qabs im) c.precision (c.toSFCfg.value3 (qabs im)).maxExp c.unit (c.toSFCfg.str (qabs im))) := by
  constructor <;>
  · intro v h; have h' := h.magnitude; exact C18_real_domain _ _ h'.1 hcfg h'.2.2 h'.2.1

theorem mantissaText_zero (p : ℕ) :
    mantissaText 0 p = [] ++ natDigits 0 ++ (if p = 0 then [] else '.' :: zeroPad p 0) := by
  have h0 : qabs 0 = 0 := by decide +kernel
  have hr : roundTo 0 p = 0 := by
    unfold roundTo; rw [zero_mul]
    have : rhe 0 = 0 := by decide +kernel
    rw [this]; simp
  unfold mantissaText
  simp only [h0, hr, Nat.sub_zero, show ((0 : ℚ) < 1) from by norm_num, ↓reduceIte]
  have e1 : trunc 0 = 0 := by decide +kernel
  have e2 : frac 0 = 0 := by decide +kernel
  have e3 : rhe 0 = 0 := by decide +kernel
  rw [e1, e2, zero_mul, e3]
  rfl

/-- **C18_zero_text** — the number `0` (a zero part, a zero annotation): for every `CfgOK` configuration the text of
`ScientificFloat(0)` is finite, unsigned, reads back (`parseBack`) to exactly `0`, with an exponent that is a multiple of
three; it is `0.` followed by `p` zeros.  (`RealOK` is not defined for `0`: there is no `p`-th significant digit.) -/
theorem C18_zero_text (c : SFCfg) (hcfg : CfgOK c) :
    ∃ q : Parsed, parseBack c.unit (c.str 0) = some (.num q) ∧ q.value = 0 ∧ q.neg = false ∧ q.exp % 3 = 0
      ∧ q.intPart = 0 ∧ q.fracNum = 0 ∧ q.fracLen = c.precision := by
  obtain ⟨hp, hunit, htab⟩ := hcfg
  have hinf := C18_zero_never_infinity c
  set e3 := (c.value3 0).exponent3 with he3def
  have h3 : e3 % 3 = 0 := C18_exp3 _ _
  have hm3 : (c.value3 0).mantissa3 = 0 := by
    show f3_mantissa3 (fp_mantissa 0 _) _ _ = 0
    unfold f3_mantissa3 fp_mantissa
    rw [zero_div]
    have : rhe 0 = 0 := by decide +kernel
    rw [this]; simp
  obtain ⟨k, hk, hsum⟩ : ∃ k : ℤ,
      ((sf_exp_prefix c.usePrefix c.table e3 = [] ∧ k = 0) ∨ ∃ ch, sf_exp_prefix c.usePrefix c.table e3 = [ch] ∧ siExp ch = some k)
      ∧ sf_rebase_exp c.usePrefix c.table e3 + k = e3 := by
    cases hu : c.usePrefix with
    | false => exact ⟨0, Or.inl ⟨rfl, rfl⟩, by simp [sf_rebase_exp]⟩
    | true =>
      obtain ⟨hadm, hsi, hmin, hmax⟩ := htab hu
      obtain ⟨k, hk3, hmem, hsum⟩ := prefix_clamp3 c.table hadm hmin hmax e3 h3
      refine ⟨k, ?_, hsum⟩
      rcases hmem with ⟨hk0, hpf⟩ | hmem
      · exact Or.inl ⟨hpf, hk0⟩
      · obtain ⟨ch, hch, hsi'⟩ := Table.si_sound hsi hmem hk3
        exact Or.inr ⟨ch, hch, hsi'⟩
  have hstr := str_of_not_inf c 0 hinf
  rw [← he3def, hm3, mantissaText_zero, exp_extension_eq] at hstr
  have hF : 0 < 10 ^ c.precision := by positivity
  have hP := parseBack_render c.unit hunit.noNum false 0 0 c.precision hF (sf_rebase_exp c.usePrefix c.table e3)
    (sf_exp_prefix c.usePrefix c.table e3) k hk
  simp only [Bool.false_eq_true, ↓reduceIte] at hP
  rw [← hstr] at hP
  refine ⟨_, hP, ?_, rfl, (by show (_ + _) % 3 = 0; rw [hsum]; exact h3), rfl, ?_, rfl⟩
  · unfold Parsed.value Parsed.mant
    simp
  · simp

example : ({ unit := ['V'], precision := 4, usePrefix := true, table := print_real_call0.table } : SFCfg).str 0
    = ['0', '.', '0', '0', '0', '0', 'k', 'V'] := by decide +kernel

/-! ## what the time-function text denotes -/

/-- **C18_time_function_denotes** — the semantics behind the sine form, over the reals: a phasor `X` at angular frequency
`w` denotes `Re(X·e^{jwt}) = |X|·cos(wt + arg X)`, and with the *generated* number of quarter turns
(`print_sinosoidal_sin_shift`, /repo 286c55c) this equals `|X|·sin(wt + (arg X + shift·π/2))`: the cosine and the sine
form of the text denote the same function when `absV = |X|`, `phase = arg X (+ shift·π/2)` exactly.  (In the code these
are libm values: parameters of the model.) -/
theorem C18_time_function_denotes (X : ℂ) (w t : ℝ) :
    (X * Complex.exp (Complex.I * ((w * t : ℝ) : ℂ))).re = ‖X‖ * Real.cos (w * t + X.arg)
    ∧ ‖X‖ * Real.cos (w * t + X.arg)
        = ‖X‖ * Real.sin (w * t + (X.arg + ((print_sinosoidal_sin_shift : ℤ) : ℝ) * (Real.pi / 2))) := by
  constructor
  · have h : X * Complex.exp (Complex.I * ((w * t : ℝ) : ℂ))
        = ((‖X‖ : ℝ) : ℂ) * Complex.exp (((w * t + X.arg : ℝ) : ℂ) * Complex.I) := by
      calc X * Complex.exp (Complex.I * ((w * t : ℝ) : ℂ))
          = (((‖X‖ : ℝ) : ℂ) * Complex.exp (X.arg * Complex.I)) * Complex.exp (Complex.I * ((w * t : ℝ) : ℂ)) := by
            rw [Complex.norm_mul_exp_arg_mul_I]
        _ = _ := by
            rw [mul_assoc, ← Complex.exp_add]; congr 2; push_cast; ring
    rw [h, Complex.re_ofReal_mul, Complex.exp_ofReal_mul_I_re]
  · have : ((print_sinosoidal_sin_shift : ℤ) : ℝ) = 1 := by simp [print_sinosoidal_sin_shift]
    rw [this, one_mul, ← add_assoc, Real.sin_add_pi_div_two]

/-- the former formula (shift `-1`, before /repo 286c55c) denoted the negative of the quantity, for every argument -/
theorem C18_sine_shift_former_sign (x : ℝ) : Real.sin (x + ((-1 : ℤ) : ℝ) * (Real.pi / 2)) = -Real.cos x := by
  push_cast
  rw [neg_one_mul, ← sub_eq_add_neg, Real.sin_sub_pi_div_two]

/-! ## power texts -/

/-- **C18_active_power_text** — `print_active_power`: the real-path text of `|P|` in `W` (prefixes `p…T`) followed by
`↓` for `P > 0` and `↑` otherwise (so also for `P = 0`); for `P` in the domain the number reads back (`RealOK`) to `|P|`. -/
theorem C18_active_power_text (v : ℚ) (p : ℕ) (hp : 1 ≤ p) :
    printActivePower v p
      = (cfgOfCall print_active_power_call0 [] p).str (qabs v) ++ (if v > 0 then ['↓'] else ['↑'])
    ∧ (InDomain v p → RealOK (qabs v) p 12 ['W'] ((cfgOfCall print_active_power_call0 [] p).str (qabs v))) := by
  have c0 : CfgOK (cfgOfCall print_active_power_call0 [] p) :=
    cfgOK_of_call _ _ _ hp (by decide) ⟨by decide, by decide, by decide, by decide⟩
  refine ⟨?_, ?_⟩
  · unfold printActivePower
    by_cases h : v > 0 <;> simp only [h, ↓reduceIte] <;> rfl
  · intro h; have h' := h.magnitude; exact C18_real_domain _ _ h'.1 c0 h'.2.2 h'.2.1

/-- **C18_active_reactive_text** — `print_active_reactive_power`: `P: `, arrow, the real-path text of `|Re S|` in `W`; then,
exactly when `|Im S|` exceeds the generated absolute threshold (binary64 `1e-4` var, whatever the scale of `P`: open
finding 4), a new line `Q: `, arrow, the real-path text of `|Im S|` in `var`.  Arrows: `↓` for a positive part, `↑`
otherwise.  Parts in the domain read back (`RealOK`) to their magnitudes. -/
theorem C18_active_reactive_text (re im : ℚ) (p : ℕ) (hp : 1 ≤ p) :
    printActiveReactivePower re im p
      = ['P', ':', ' '] ++ (if re > 0 then ['↓'] else ['↑'])
          ++ (cfgOfCall print_active_reactive_power_call0 [] p).str (qabs re)
          ++ (if |im| > print_active_reactive_power_q_threshold then
                ['\n', 'Q', ':', ' '] ++ (if im > 0 then ['↓'] else ['↑'])
                  ++ (cfgOfCall print_active_reactive_power_call1 [] p).str (qabs im)
              else [])
    ∧ (InDomain re p → RealOK (qabs re) p 12 ['W'] ((cfgOfCall print_active_reactive_power_call0 [] p).str (qabs re)))
    ∧ (InDomain im p →
        RealOK (qabs im) p 12 ['v', 'a', 'r'] ((cfgOfCall print_active_reactive_power_call1 [] p).str (qabs im)))
    ∧ |print_active_reactive_power_q_threshold - 1 / 10000| < 1 / 100000000000000000000 := by
  have c0 : CfgOK (cfgOfCall print_active_reactive_power_call0 [] p) :=
    cfgOK_of_call _ _ _ hp (by decide) ⟨by decide, by decide, by decide, by decide⟩
  have c1 : CfgOK (cfgOfCall print_active_reactive_power_call1 [] p) :=
    cfgOK_of_call _ _ _ hp (by decide) ⟨by decide, by decide, by decide, by decide⟩
  refine ⟨?_, ?_, ?_, ?_⟩
  · unfold printActiveReactivePower
    simp only [qabs_eq_abs, print_active_reactive_power_p_label, print_active_reactive_power_p_down,
      print_active_reactive_power_p_up, print_active_reactive_power_q_label, print_active_reactive_power_q_down,
      print_active_reactive_power_q_up]
  · intro h; have h' := h.magnitude; exact C18_real_domain _ _ h'.1 c0 h'.2.2 h'.2.1
  · intro h; have h' := h.magnitude; exact C18_real_domain _ _ h'.1 c1 h'.2.2 h'.2.1
  · unfold print_active_reactive_power_q_threshold
    rw [abs_lt]; constructor <;> norm_num

/-! ## non-vacuity of the hypotheses -/

theorem cfgOK_print_complex (unit : List Char) (p : ℕ) (polar deg : Bool) (hp : 1 ≤ p) (hu : UnitOK unit) :
    CfgOK (scOfCall print_complex_call0 unit p polar deg).toSFCfg :=
  ⟨hp, hu, fun _ => ⟨Table.admissible_sound (show print_complex_call0.table.admissible = true by decide),
    show print_complex_call0.table.si = true by decide, show print_complex_call0.table.minKey % 3 = 0 by decide,
    show print_complex_call0.table.maxKey % 3 = 0 by decide⟩⟩

/-- the hypotheses of `C18_polar_reads_back` are met by `print_complex(5∠0.5, 'V', polar=True)` -/
example : ∃ t : Text, realFailures 5 3 3 (some t) = []
    ∧ ∃ a : ℚ, parsePolar ['V'] (printComplex 4 3 5 (1 / 2) ['V'] 3 true false) = some (t, some a, false)
      ∧ |a - 1 / 2| ≤ 1 / 20000 := by
  have hd : InDomain (5 : ℚ) 3 := by
    refine ⟨by norm_num, by rw [abs_of_pos (by norm_num)]; norm_num, ?_⟩
    unfold RoundsUpToOne; rw [abs_of_pos (by norm_num)]; norm_num
  obtain ⟨t, h1, _, h3⟩ := C18_polar_reads_back (scOfCall print_complex_call0 ['V'] 3 true false) 4 3 5 (1 / 2) rfl
    (cfgOK_print_complex ['V'] 3 true false (by decide) (by decide)) hd (by decide) (by decide)
  have hgt : ¬ |(1 / 2 : ℚ)| ≤ polarCut false := by
    rw [C18_polar_constants.2.1, abs_of_pos (by norm_num)]; norm_num
  obtain ⟨a, ha, hn, _⟩ := h3 hgt
  have hdeg : (scOfCall print_complex_call0 ['V'] 3 true false).deg = false := rfl
  rw [hdeg] at hn
  exact ⟨t, h1, a, ha, by simpa using hn⟩

example : ((cfgOfCall print_complex_call0 ['V'] 3).value3 (qabs 5)).isZero = false := by decide +kernel
example : UnitOK ['V'] ∧ UnitOK ['v', 'a', 'r'] ∧ UnitOK ['°'] ∧ UnitOK ['/', 's'] := by decide
example : printSinusoidal 3 5 (1 / 2) 28 100 16 ['V'] 3 true false false
    = ['5', '.', '0', '0', 'V', '·', 's', 'i', 'n', '(', '1', '0', '0', '/', 's', '·', 't', '+', '5', '0', '0', 'e', '-', '3', ')'] := by
  decide +kernel

end CC
