/-
  Property C06 — port behaviour: driving-point impedance and Thevenin/Norton equivalents.

  Spec level (independent of how the code computes; `PortZ` of CC/Spec/Port.lean):
  every network, every field, any number of nodes and branches, any labels.
    C06_unique, C06_symm, C06_ref_indep, C06_same_node_zero, C06_across_ideal_vs_zero,
    C06_port_equation (V = Voc − Zth·J for *any* attached branch), C06_thevenin, C06_norton,
    C06_parallel, C06_series.
  Code level (model CC/Model/Port.lean of the repaired `open_circuit_impedance`, fix e030c44):
    C06_impl_early_correct, C06_impl_eq_spec_partial (ideal voltage sources anywhere; hypotheses: distinct
    ids, no self-loop, NO PRUNED UNKNOWN, well-posed probe network — the pruning path itself and the other
    functions of the group are covered by correspondence + oracle only), the two former failing inputs
    as positive examples; `C06_isolated_port` (fix aab1640: model answers ∞ ⇒ the Spec has no solution);
    what remains open is named precisely: `C06_floating_island_counterexample`
    (a floating group of nodes leaves the solved matrix singular although `PortZ` is defined).
-/
import CC.Proofs.PortImpl
import CC.Proofs.PortExists
import CC.Properties.C03
import CC.Model.Port
import CC.Gen.PortImports
import Mathlib.Algebra.Order.Field.Rat
set_option linter.unusedSectionVars false
set_option linter.unusedVariables false

namespace CC
variable {L K : Type} [DecidableEq L] [LabelOrd L] [Field K] [DecidableEq K]

/-! ## Spec level -/

/-- **C06 (the port impedance is well defined).**  In a well-posed probe network any two
solutions have the same port voltage; hence any one solution determines `PortZ`. -/
theorem C06_unique (N : Net L K) (pid : String) (hp : pid ∉ N.ids) (a b : L)
    (hw : WellPosed (probeNet N pid a b 1)) (R : Report L K)
    (hR : CircuitEqs (probeNet N pid a b 1) R) : PortZ N pid a b (R.pot a - R.pot b) := by
  refine ⟨⟨R, hR⟩, fun S hS => ?_⟩
  obtain ⟨h1, e1, _⟩ := (probe_iff N pid a b 1 R).mp hR
  obtain ⟨h2, e2, _⟩ := (probe_iff N pid a b 1 S).mp hS
  rw [e1] at h1; rw [e2] at h2
  exact port_unique N pid hp a b hw 1 S R h2 h1

/-- **C06 (symmetry).**  The impedance between `a` and `b` is the impedance between `b` and `a`. -/
theorem C06_symm (N : Net L K) (pid : String) (hp : pid ∉ N.ids) (a b : L) (z : K)
    (h : PortZ N pid a b z) : PortZ N pid b a z := by
  -- negating a solution for (a,b) gives a solution for (b,a), and conversely
  have flip : ∀ (a b : L) (R : Report L K), CircuitEqs (probeNet N pid a b 1) R →
      ∃ S : Report L K, CircuitEqs (probeNet N pid b a 1) S ∧ ∀ n, S.pot n = - R.pot n := by
    intro a b R hR
    obtain ⟨h1, e1, _⟩ := (probe_iff N pid a b 1 R).mp hR
    rw [e1] at h1
    have h2 := eqsInj_zs_lin N.branches N.zero (-1) 0 R R _ _ h1 h1
    have h3 : EqsInj (zs N.branches) N.zero (Report.lin (-1) 0 R R) (injAB b a 1) := by
      apply eqsInj_congr h2
      intro n; simp only [injAB]; ring
    refine ⟨_, probe_of_eqsInj N pid hp b a 1 _ h3, fun n => ?_⟩
    simp [Report.setProbe, Report.lin]
  obtain ⟨⟨R, hR⟩, hall⟩ := h
  obtain ⟨S, hS, _⟩ := flip a b R hR
  refine ⟨⟨S, hS⟩, fun T hT => ?_⟩
  obtain ⟨U, hU, hpot⟩ := flip b a T hT
  have := hall U hU
  rw [hpot a, hpot b] at this
  linear_combination this

/-- **C06 (independence of the reference node).**  Choosing another reference node does not
change the impedance between `a` and `b`. -/
theorem C06_ref_indep (N : Net L K) (pid : String) (a b g : L) (z : K)
    (h : PortZ N pid a b z) : PortZ { N with zero := g } pid a b z := by
  have move : ∀ (M : Net L K) (g : L) (R : Report L K), CircuitEqs (probeNet M pid a b 1) R →
      CircuitEqs (probeNet { M with zero := g } pid a b 1) (R.portShift (R.pot g)) := by
    intro M g R hR
    obtain ⟨h1, e1, e2⟩ := (probe_iff M pid a b 1 R).mp hR
    rw [probe_iff]
    refine ⟨?_, e1, ?_⟩
    · exact eqsInj_shift g h1
    · simp only [Report.portShift]; rw [e2]; ring
  obtain ⟨⟨R, hR⟩, hall⟩ := h
  refine ⟨⟨_, move N g R hR⟩, fun S hS => ?_⟩
  have hback := move { N with zero := g } N.zero S hS
  have : ({ ({ N with zero := g } : Net L K) with zero := N.zero } : Net L K) = N := by cases N; rfl
  rw [this] at hback
  have := hall _ hback
  simp only [Report.portShift] at this
  linear_combination this

/-- **C06 (identical nodes).**  The impedance between a node and itself is zero. -/
theorem C06_same_node_zero (N : Net L K) (pid : String) (hp : pid ∉ N.ids) (a : L) :
    PortZ N pid a a 0 := by
  refine ⟨⟨_, probe_of_eqsInj N pid hp a a 1 Report.zeroRep ?_⟩, fun R _ => sub_self _⟩
  apply eqsInj_congr (eqsInj_zero N.branches N.zero)
  intro n; simp [injAB]

/-- **C06 (across an ideal voltage source).**  If an ideal voltage source of the network lies
directly between `a` and `b`, every solution of the probe network has port voltage zero;
with solvability, `PortZ = 0`. -/
theorem C06_across_ideal_vs_zero (N : Net L K) (pid : String) (a b : L) (x : Branch L K)
    (hx : x ∈ N.branches) (hvs : x.e.isIdealVS = true)
    (hab : (x.n1 = a ∧ x.n2 = b) ∨ (x.n1 = b ∧ x.n2 = a))
    (hex : ∃ R : Report L K, CircuitEqs (probeNet N pid a b 1) R) : PortZ N pid a b 0 := by
  refine ⟨hex, fun R hR => ?_⟩
  obtain ⟨h1, _, _⟩ := (probe_iff N pid a b 1 R).mp hR
  have hmem : ({ x with e := x.e.zeroSources } : Branch L K) ∈ zs N.branches :=
    List.mem_map.mpr ⟨x, hx, rfl⟩
  have hv := h1.volt _ hmem
  have hl := h1.law _ hmem
  unfold voltResidual at hv
  cases he : x.e with
  | thevenin Y I => rw [he] at hvs; simp [Elem.isIdealVS] at hvs
  | norton Z V =>
    rw [he] at hvs hl
    have hZ : Z = 0 := by simpa [Elem.isIdealVS] using hvs
    simp only [Elem.zeroSources, Elem.lawResidual, hZ, if_true, sub_zero] at hl
    simp only at hv
    rcases hab with ⟨e1, e2⟩ | ⟨e1, e2⟩
    · rw [e1, e2] at hv; linear_combination hl - hv
    · rw [e1, e2] at hv; linear_combination -(hl - hv)

/-- **C06 (the port equation: Thevenin's theorem in full generality).**  Attach *any* branch
`x` from `a` to `b` to a network `N` (with all its sources).  If `J` is the physical current
through `x` from `a` to `b`, the port voltage of the loaded network is
`V = Voc − Zth·J`, where `Voc` is the open-circuit port voltage of `N` and `Zth` the port
voltage of the probe network (`PortZ`). -/
theorem C06_port_equation (N : Net L K) (hids : N.ids.Nodup) (pid : String) (hp : pid ∉ N.ids)
    (a b : L) (hw : WellPosed (probeNet N pid a b 1)) (x : Branch L K) (hx1 : x.n1 = a) (hx2 : x.n2 = b)
    (Roc Rl Rz : Report L K) (hoc : CircuitEqs N Roc) (hl : CircuitEqs (N.attach x) Rl)
    (hz : CircuitEqs (probeNet N pid a b 1) Rz) :
    Rl.pot a - Rl.pot b
      = (Roc.pot a - Roc.pot b) - (Rz.pot a - Rz.pot b) * x.e.physCurrent (Rl.i x.id) := by
  set J := x.e.physCurrent (Rl.i x.id) with hJ
  -- open circuit: nothing injected
  have h0 : EqsInj N.branches N.zero Roc (fun _ => 0) :=
    (circuitEqsAll_iff_eqsInj _ _ _).mp ((circuitEqsAll_iff N Roc).mpr hoc)
  -- loaded: the attached branch draws J from a and returns it to b
  have hl' : EqsInj (N.branches ++ [x]) N.zero Rl (fun _ => 0) :=
    (circuitEqsAll_iff_eqsInj _ _ _).mp ((circuitEqsAll_iff (N.attach x) Rl).mpr hl)
  obtain ⟨h1, _, _⟩ := (eqsInj_append_iff _ _ _ _ _).mp hl'
  have h1' : EqsInj N.branches N.zero Rl (injAB a b (-J)) := by
    apply eqsInj_congr h1
    intro n
    simp only [incidence, hx1, hx2, injAB, ← hJ]
    by_cases e1 : a = n <;> by_cases e2 : b = n <;> simp [e1, e2]
  -- difference: source-free network with −J injected
  have hD := eqsInj_diff N hids Rl Roc _ _ h1' h0
  have hD' : EqsInj (zs N.branches) N.zero (Report.diff N Rl Roc) (injAB a b (-J)) :=
    eqsInj_congr hD (fun n => by simp)
  -- the probe solution scaled by −J has the same injection
  obtain ⟨hz1, ez, _⟩ := (probe_iff N pid a b 1 Rz).mp hz
  rw [ez] at hz1
  have hS := eqsInj_zs_lin N.branches N.zero (-J) 0 Rz Rz _ _ hz1 hz1
  have hS' : EqsInj (zs N.branches) N.zero (Report.lin (-J) 0 Rz Rz) (injAB a b (-J)) := by
    apply eqsInj_congr hS
    intro n; simp only [injAB]
    by_cases e1 : a = n <;> by_cases e2 : b = n <;> simp [e1, e2]
  have := port_unique N pid hp a b hw (-J) _ _ hD' hS'
  simp only [Report.diff, Report.lin] at this
  linear_combination this

/-- **C06 (Thevenin).**  A load impedance `Z_L ≠ 0` attached between `a` and `b` sees
`V·(Zth + Z_L) = Voc·Z_L`, i.e. `V = Voc·Z_L/(Zth+Z_L)` whenever `Zth + Z_L ≠ 0`. -/
theorem C06_thevenin (N : Net L K) (hids : N.ids.Nodup) (pid : String) (hp : pid ∉ N.ids)
    (a b : L) (hw : WellPosed (probeNet N pid a b 1)) (lid ty : String) (ZL : K) (hZL : ZL ≠ 0)
    (Roc Rl : Report L K) (Zth : K) (hoc : CircuitEqs N Roc)
    (hl : CircuitEqs (N.attach ⟨a, b, lid, ty, .norton ZL 0⟩) Rl) (hz : PortZ N pid a b Zth) :
    (Rl.pot a - Rl.pot b) * (Zth + ZL) = (Roc.pot a - Roc.pot b) * ZL := by
  obtain ⟨⟨Rz, hRz⟩, hall⟩ := hz
  have hZ := hall Rz hRz
  have key := C06_port_equation N hids pid hp a b hw ⟨a, b, lid, ty, .norton ZL 0⟩ rfl rfl Roc Rl Rz hoc hl hRz
  have hmem : (⟨a, b, lid, ty, .norton ZL 0⟩ : Branch L K) ∈ (N.attach ⟨a, b, lid, ty, .norton ZL 0⟩).branches := by
    simp [Net.attach]
  have hv := hl.volt _ hmem
  have hlaw := hl.law _ hmem
  unfold voltResidual at hv
  simp only [Elem.lawResidual, hZL, if_false, if_true] at hlaw
  have hph : (Elem.norton ZL (0 : K)).physCurrent (Rl.i lid) = Rl.i lid := by
    simp [Elem.physCurrent, Elem.isLossy, Elem.kind, hZL]
  simp only at key hv
  rw [hph, hZ] at key
  -- V = Voc − Zth·i,  V = Z_L·i
  have hV : Rl.pot a - Rl.pot b = ZL * Rl.i lid := by linear_combination hlaw - hv
  have hi : Rl.i lid = (Rl.pot a - Rl.pot b) / ZL := by rw [hV]; field_simp
  rw [hi] at key
  field_simp at key
  linear_combination key

/-- **C06 (Norton).**  The current through a short circuit attached from `a` to `b` satisfies
`Isc·Zth = Voc`, i.e. `Isc = Voc/Zth` whenever `Zth ≠ 0`. -/
theorem C06_norton (N : Net L K) (hids : N.ids.Nodup) (pid : String) (hp : pid ∉ N.ids)
    (a b : L) (hw : WellPosed (probeNet N pid a b 1)) (sid ty : String)
    (Roc Rs : Report L K) (Zth : K) (hoc : CircuitEqs N Roc)
    (hs : CircuitEqs (N.attach ⟨a, b, sid, ty, .norton 0 0⟩) Rs) (hz : PortZ N pid a b Zth) :
    Rs.i sid * Zth = Roc.pot a - Roc.pot b := by
  obtain ⟨⟨Rz, hRz⟩, hall⟩ := hz
  have hZ := hall Rz hRz
  have key := C06_port_equation N hids pid hp a b hw ⟨a, b, sid, ty, .norton 0 0⟩ rfl rfl Roc Rs Rz hoc hs hRz
  have hmem : (⟨a, b, sid, ty, .norton 0 0⟩ : Branch L K) ∈ (N.attach ⟨a, b, sid, ty, .norton 0 0⟩).branches := by
    simp [Net.attach]
  have hv := hs.volt _ hmem
  have hlaw := hs.law _ hmem
  unfold voltResidual at hv
  simp only [Elem.lawResidual, if_true, sub_zero] at hlaw
  have hph : (Elem.norton (0 : K) 0).physCurrent (Rs.i sid) = Rs.i sid := by
    simp [Elem.physCurrent, Elem.isLossy, Elem.kind]
  simp only at key hv
  rw [hph, hZ] at key
  linear_combination key - hlaw + hv

theorem zs_append_singleton (bs : List (Branch L K)) (y : Branch L K) :
    zs (bs ++ [y]) = zs bs ++ [{ y with e := y.e.zeroSources }] := by simp [zs]

/-- **C06 (parallel composition).**  An impedance `Z₂ ≠ 0` connected between `a` and `b` in
parallel to the network changes the port impedance `Z` into `Z'` with `Z'·(Z + Z₂) = Z·Z₂`. -/
theorem C06_parallel (N : Net L K) (pid : String) (hp : pid ∉ N.ids) (a b : L)
    (hw : WellPosed (probeNet N pid a b 1)) (yid ty : String) (Z2 : K) (hZ2 : Z2 ≠ 0) (Z Z' : K)
    (hz : PortZ N pid a b Z) (hz' : PortZ (N.attach ⟨a, b, yid, ty, .norton Z2 0⟩) pid a b Z') :
    Z' * (Z + Z2) = Z * Z2 := by
  obtain ⟨⟨Rz, hRz⟩, hall⟩ := hz
  obtain ⟨⟨R, hR⟩, hall'⟩ := hz'
  have hV := hall' R hR
  have hZ := hall Rz hRz
  obtain ⟨h1, e1, _⟩ := (probe_iff _ pid a b 1 R).mp hR
  rw [e1] at h1
  have hbr : (N.attach ⟨a, b, yid, ty, .norton Z2 0⟩).branches = N.branches ++ [⟨a, b, yid, ty, .norton Z2 0⟩] := rfl
  have hzero : (N.attach ⟨a, b, yid, ty, .norton Z2 0⟩).zero = N.zero := rfl
  rw [hbr, hzero, zs_append_singleton, eqsInj_append_iff] at h1
  obtain ⟨h2, hv, hl⟩ := h1
  unfold voltResidual at hv
  simp only [Elem.zeroSources, Elem.lawResidual, hZ2, if_false, if_true] at hl hv
  have hph : (Elem.norton Z2 (0 : K)).physCurrent (R.i yid) = R.i yid := by
    simp [Elem.physCurrent, Elem.isLossy, Elem.kind, hZ2]
  have h3 : EqsInj (zs N.branches) N.zero R (injAB a b (1 - R.i yid)) := by
    apply eqsInj_congr h2
    intro n
    simp only [Elem.zeroSources, hph, incidence, injAB]
    by_cases c1 : a = n <;> by_cases c2 : b = n <;> simp [c1, c2] <;> ring
  obtain ⟨hz1, ez, _⟩ := (probe_iff N pid a b 1 Rz).mp hRz
  rw [ez] at hz1
  have hS := eqsInj_zs_lin N.branches N.zero (1 - R.i yid) 0 Rz Rz _ _ hz1 hz1
  have hS' : EqsInj (zs N.branches) N.zero (Report.lin (1 - R.i yid) 0 Rz Rz) (injAB a b (1 - R.i yid)) := by
    apply eqsInj_congr hS
    intro n; simp only [injAB]
    by_cases c1 : a = n <;> by_cases c2 : b = n <;> simp [c1, c2]
  have key := port_unique N pid hp a b hw _ _ _ h3 hS'
  simp only [Report.lin] at key
  -- V' = (1 − i)·Z,  V' = Z₂·i
  have hVi : R.pot a - R.pot b = Z2 * R.i yid := by linear_combination hl - hv
  have hi : R.i yid = Z' / Z2 := by rw [← hV, hVi]; field_simp
  have key' : Z' = (1 - R.i yid) * Z := by rw [← hV, ← hZ]; linear_combination key
  rw [hi] at key'
  field_simp at key'
  linear_combination key'

theorem kcl_zs_off_label (N : Net L K) (R : Report L K) (c : L) (hc : c ∉ N.allLabels) :
    ((zs N.branches).map fun b => incidence b c * b.e.physCurrent (R.i b.id)).sum = 0 := by
  apply List.sum_eq_zero
  intro y hy
  obtain ⟨b', hb', rfl⟩ := List.mem_map.mp hy
  obtain ⟨b, hb, rfl⟩ := List.mem_map.mp hb'
  have h1 : b.n1 ≠ c := fun e => hc (mem_allLabels_of_incident N hb (Or.inl e))
  have h2 : b.n2 ≠ c := fun e => hc (mem_allLabels_of_incident N hb (Or.inr e))
  have : incidence ({ b with e := b.e.zeroSources } : Branch L K) c = 0 := by
    simp [incidence, h1, h2]
  rw [this, zero_mul]

/-- **C06 (series composition).**  An impedance `Z₁ ≠ 0` from a new node `c` to `a` puts `Z₁`
in series: the impedance between `c` and `b` is `Z + Z₁`. -/
theorem C06_series (N : Net L K) (pid : String) (hp : pid ∉ N.ids) (a b c : L)
    (hc : c ∉ N.allLabels) (hca : c ≠ a) (hcb : c ≠ b)
    (hw : WellPosed (probeNet N pid a b 1)) (yid ty : String) (Z1 : K) (hZ1 : Z1 ≠ 0) (Z Z' : K)
    (hz : PortZ N pid a b Z) (hz' : PortZ (N.attach ⟨c, a, yid, ty, .norton Z1 0⟩) pid c b Z') :
    Z' = Z + Z1 := by
  obtain ⟨⟨Rz, hRz⟩, hall⟩ := hz
  obtain ⟨⟨R, hR⟩, hall'⟩ := hz'
  have hV := hall' R hR
  have hZ := hall Rz hRz
  obtain ⟨h1, e1, _⟩ := (probe_iff _ pid c b 1 R).mp hR
  rw [e1] at h1
  have hbr : (N.attach ⟨c, a, yid, ty, .norton Z1 0⟩).branches = N.branches ++ [⟨c, a, yid, ty, .norton Z1 0⟩] := rfl
  have hzero : (N.attach ⟨c, a, yid, ty, .norton Z1 0⟩).zero = N.zero := rfl
  rw [hbr, hzero, zs_append_singleton, eqsInj_append_iff] at h1
  obtain ⟨h2, hv, hl⟩ := h1
  unfold voltResidual at hv
  simp only [Elem.zeroSources, Elem.lawResidual, hZ1, if_false, if_true] at hl hv
  have hph : ∀ i : K, (Elem.norton Z1 (0 : K)).physCurrent i = i := by
    intro i; simp [Elem.physCurrent, Elem.isLossy, Elem.kind, hZ1]
  -- Kirchhoff at the new node: the whole test current flows through Z₁
  have hkc := h2.kcl c
  rw [kcl_zs_off_label N R c hc] at hkc
  have hac : a ≠ c := fun e => hca e.symm
  have hbc : b ≠ c := fun e => hcb e.symm
  simp only [Elem.zeroSources, hph, incidence, injAB, if_true, hac, hbc, if_false] at hkc
  have hi : R.i yid = 1 := by linear_combination hkc
  have h3 : EqsInj (zs N.branches) N.zero R (injAB a b 1) := by
    apply eqsInj_congr h2
    intro n
    simp only [Elem.zeroSources, hph, incidence, injAB, hi]
    by_cases c1 : a = n <;> by_cases c2 : b = n <;> by_cases c3 : c = n <;> simp [c1, c2, c3]
  obtain ⟨hz1, ez, _⟩ := (probe_iff N pid a b 1 Rz).mp hRz
  rw [ez] at hz1
  have key := port_unique N pid hp a b hw 1 _ _ h3 hz1
  rw [hi] at hl
  linear_combination key + hZ - hV - hv + hl

/-! ## Code level: the model of `open_circuit_impedance` (CC/Model/Port.lean, after fix e030c44) -/

/-- The early returns are right: when `open_circuit_impedance` returns through one of its
two `return 0` statements (identical nodes, or an ideal voltage source directly between the
nodes) and the probe network is solvable, `0` is the port impedance. -/
theorem C06_impl_early_correct (solve : List (List K) → List K → Option (List K)) (N : Net L K)
    (pid : String) (hp : pid ∉ N.ids) (n1 n2 : L) (hearly : N.portIsEarly n1 n2 = true)
    (hex : ∃ R : Report L K, CircuitEqs (probeNet N pid n1 n2 1) R) :
    N.openCircuitImpedance solve n1 n2 = .ok 0 ∧ PortZ N pid n1 n2 0 := by
  unfold Net.portIsEarly at hearly
  by_cases h12 : n1 = n2
  · subst h12
    exact ⟨by simp [Net.openCircuitImpedance, Net.portPre], C06_same_node_zero N pid hp n1⟩
  · simp only [h12, decide_false, Bool.false_or] at hearly
    refine ⟨by simp [Net.openCircuitImpedance, Net.portPre, h12, hearly], ?_⟩
    obtain ⟨x, hx, hvs⟩ := List.any_eq_true.mp hearly
    obtain ⟨hxm, hab⟩ := List.mem_filter.mp hx
    exact C06_across_ideal_vs_zero N pid n1 n2 x hxm hvs (by simpa using hab) hex

theorem zero_mem_probe (N : Net L K) (pid : String) (a b : L) (hz : N.zero ∈ N.nodeLabels)
    (hne : N.branches ≠ []) : N.zero ∈ (probeNet N pid a b (1 : K)).nodeLabels := by
  rw [mem_nodeLabels] at hz ⊢
  rcases hz with ⟨h, _⟩ | ⟨x, hx, hxz⟩
  · exact absurd h hne
  · refine Or.inr ⟨{ x with e := x.e.zeroSources }, ?_, hxz⟩
    exact List.mem_append_left _ (List.mem_map.mpr ⟨x, hx, rfl⟩)

/-- **C06 (existence).**  A well-posed probe network of a valid network (distinct ids, no self-loop,
reference node among the probe network's labels — `zero_mem_probe` — ) between two different nodes has a
solution: `PortZ` is defined.
(The MNA matrix of the probe network is square with trivial kernel — `C01_solvable`, `C01_square` —
hence surjective; `C01_sound` turns the solution vector into a solution of the circuit equations.) -/
theorem C06_exists (N : Net L K) (pid : String) (a b : L) (hp : pid ∉ N.ids) (hids : N.ids.Nodup)
    (hsl : ∀ x ∈ N.branches, x.n1 ≠ x.n2) (hab : a ≠ b)
    (hz : N.zero ∈ (probeNet N pid a b (1 : K)).nodeLabels)
    (hw : WellPosed (probeNet N pid a b 1)) : ∃ R : Report L K, CircuitEqs (probeNet N pid a b 1) R :=
  circuitEqs_exists_of_wellposed _ (probeNet_wf N pid a b hp hids hsl hab hz) hw

/-- **C06 (code level, PARTIAL): on networks in which nothing is pruned, the repaired
`open_circuit_impedance` computes the port impedance.**  For every network (any labels, any field,
ideal voltage sources and short circuits *anywhere*) with distinct ids and without self-loops, whose probe
network is well-posed, and in which no unknown is pruned (`keep` all true): whatever the function returns —
with any linear solver that returns solutions (`SolveOK`) — is `PortZ`.  (For the early return with an ideal
source directly across the port, solvability of the probe network comes from `C06_exists`.)

What this theorem does NOT cover (hence `_partial`): `hw` excludes every network with a node that hangs on
zero-admittance branches only (a capacitor at `w = 0`, an open circuit), and for such networks `hkeep` fails
as well — the pruning / re-indexing path of the code (`keepMask`, `subMatrix`, `countBefore`; the place of the
repaired defects C06-1 and C06-2) is exercised by NO theorem: `C06ex.exP` (`O(1,0)`, `R(2,0)`, `R2(3,2)`), the only
pruned example in this file, is outside the hypotheses.  That path, and `elementImpedance`,
`openCircuitVoltage`, `shortCircuitCurrent`, the equivalent-source records, `sweep` / `dcResistance` and the
`jwL`, `1/(jwC)` clause of the property are covered by model + correspondence + oracle only
(`harness/props/c06.py`).  For an isolated port node see `C06_isolated_port`. -/
theorem C06_impl_eq_spec_partial (N : Net L K) (solve : List (List K) → List K → Option (List K))
    (pid : String) (n1 n2 : L) (z : K) (hp : pid ∉ N.ids) (hsolve : SolveOK solve) (hids : N.ids.Nodup)
    (hsl : ∀ b ∈ N.branches, b.n1 ≠ b.n2)
    (hkeep : ∀ N' keep A e i1, N.portPre n1 n2 = .ok (.sys N' keep A e i1) → keep.all id = true)
    (hw : WellPosed (probeNet N pid n1 n2 1)) (hz : N.zero ∈ N.nodeLabels)
    (h : N.openCircuitImpedance solve n1 n2 = .ok z) : PortZ N pid n1 n2 z := by
  unfold Net.openCircuitImpedance at h
  cases hpre : N.portPre n1 n2 with
  | error e => rw [hpre] at h; cases h
  | ok pre =>
    rw [hpre] at h
    cases pre with
    | early =>
      simp only at h
      cases h
      have he := portPre_early hpre
      by_cases h12 : n1 = n2
      · subst h12; exact C06_same_node_zero N pid hp n1
      · have hne : N.branches ≠ [] := by
          intro hnil
          simp [Net.portIsEarly, Net.branchesBetween, hnil, h12] at he
        exact (C06_impl_early_correct solve N pid hp n1 n2 he
          (C06_exists N pid n1 n2 hp hids hsl h12 (zero_mem_probe N pid n1 n2 hz hne) hw)).2
    | infinite => simp only at h; cases h
    | sys N' keep A e i1 =>
      simp only at h
      obtain ⟨h12, hN', hcheck, hsys⟩ := portPre_sys hpre
      obtain ⟨_, hkeepdef, hA, ⟨i, hidx, hi1⟩, he, hlt⟩ := portSys_sys hsys
      have hall := hkeep N' keep A e i1 hpre
      have hids' : N'.ids.Nodup := by rw [hN']; exact hids
      have hp' : pid ∉ N'.ids := by rw [hN']; exact hp
      have hsl' : ∀ b ∈ N'.branches, b.n1 ≠ b.n2 := by rw [hN']; exact hsl
      have hzero : N'.zero ∈ N'.nodeLabels := ((Net.check_ok_iff N').mp hcheck).1
      have hklen : keep.length = N'.mnaA.length := by rw [hkeepdef, keepMask_length]
      have hA' : A = N'.mnaA := by rw [hA, subMatrix_all_true N' keep hall hklen]
      have hilt : i < N'.nodes.length := by
        obtain ⟨k, hk, hk2, _⟩ := idxOf?_of_mem (l := N'.nodes)
          (by by_contra hna; rw [idxOf?_none_of_not_mem hna] at hidx; cases hidx)
        rw [hk] at hidx; cases hidx; exact hk2
      have hi1' : i1 = i := by
        rw [hi1, countBefore_all_true keep hall i (by rw [hklen, mnaA_length]; omega)]
      have hAlen : A.length = N'.nodes.length + N'.vsIds.length := by
        rw [hA', mnaA_length, vsSorted_length N' hids']
      cases hs : solve A e with
      | none => rw [hs] at h; cases h
      | some x =>
        rw [hs] at h
        simp only at h
        obtain ⟨hxlen, hxsol⟩ := hsolve A e x hs
        have hxz : x.getD i 0 = z := by
          cases hxi : x[i1]? with
          | none => rw [hxi] at h; cases h
          | some w =>
            rw [hxi] at h; cases h
            rw [← hi1', List.getD_eq_getElem?_getD, hxi]; rfl
        have he' : e = unitVec (N'.nodes.length + N'.vsIds.length) i := by rw [he, hAlen, hi1']
        have hxlen' : x.length = N'.nodes.length + N'.vsIds.length := by
          rw [hxlen, he']; simp [unitVec]
        rw [hA', he'] at hxsol
        obtain ⟨R, hR, hport⟩ := impl_solution N' pid _ hids' hp' hsl' hzero i hidx x hxlen' hxsol
        rw [hxz] at hport
        -- back to the network's own reference node
        have hR2 := probe_move N' pid _ N'.zero N.zero R hR
        have hback : ({ N' with zero := N.zero } : Net L K) = N := by rw [hN']
        rw [hback] at hR2
        have hport2 : (R.portShift (R.pot N.zero)).pot (if n1 = N.zero then n2 else n1)
            - (R.portShift (R.pot N.zero)).pot N'.zero = z := by
          simp only [Report.portShift]; linear_combination hport
        by_cases hz1 : n1 = N.zero
        · have ea : (if n1 = N.zero then n2 else n1) = n2 := by simp [hz1]
          have eg : N'.zero = n1 := by rw [hN']; simp [hz1]
          rw [ea, eg] at hR2 hport2
          obtain ⟨S, hS, hpot⟩ := probe_flip N pid hp n2 n1 _ hR2
          have := C06_unique N pid hp n1 n2 hw S hS
          rw [hpot n1, hpot n2] at this
          have e2 : -(R.portShift (R.pot N.zero)).pot n1 - -(R.portShift (R.pot N.zero)).pot n2 = z := by
            linear_combination hport2
          rw [e2] at this; exact this
        · have ea : (if n1 = N.zero then n2 else n1) = n1 := by simp [hz1]
          have eg : N'.zero = n2 := by rw [hN']; simp [hz1]
          rw [ea, eg] at hR2 hport2
          have := C06_unique N pid hp n1 n2 hw _ hR2
          rw [hport2] at this; exact this

/-- **C06 (isolated port node, fix aab1640).**  When the model of `open_circuit_impedance` answers ∞ — one
port node's column of the MNA matrix referenced to the other port node is zero: the node hangs on
zero-admittance branches only, or its admittances cancel exactly — the Spec agrees that the impedance is
not finite: the unit-current problem of the probe network has NO solution (and the model reports
`Infinite`, never a number). -/
theorem C06_isolated_port (N : Net L K) (solve : List (List K) → List K → Option (List K)) (pid : String)
    (n1 n2 : L) (hp : pid ∉ N.ids) (hids : N.ids.Nodup) (hsl : ∀ b ∈ N.branches, b.n1 ≠ b.n2)
    (h : N.portPre n1 n2 = .ok .infinite) :
    N.openCircuitImpedance solve n1 n2 = .error (.other "Infinite") ∧
      ¬ ∃ R : Report L K, CircuitEqs (probeNet N pid n1 n2 1) R := by
  refine ⟨by simp [Net.openCircuitImpedance, h], ?_⟩
  obtain ⟨h12, a, g, hag, hiso⟩ := portPre_infinite h
  rintro ⟨R, hR⟩
  have back : ({ ({ N with zero := g } : Net L K) with zero := N.zero } : Net L K) = N := by cases N; rfl
  rcases hag with ⟨rfl, rfl⟩ | ⟨rfl, rfl⟩
  · exact isolated_no_solution N pid hp hids hsl a g h12 hiso _ (probe_move N pid a g g R hR)
  · obtain ⟨S, hS, _⟩ := probe_flip N pid hp g a R hR
    exact isolated_no_solution N pid hp hids hsl a g (fun e => h12 e.symm) hiso _ (probe_move N pid a g g S hS)

/-- completeness at full strength: whenever the port impedance is defined the function returns
it.  FALSE on the current code for floating groups of nodes (`C06_floating_island_counterexample`). -/
def C06_impl_complete_statement : Prop :=
  ∀ (N : Net Nat ℚ) (solve : List (List ℚ) → List ℚ → Option (List ℚ)) (pid : String) (n1 n2 : Nat) (z : ℚ),
    pid ∉ N.ids → N.ids.Nodup → PortZ N pid n1 n2 z →
    (∀ A b, (∃ x, x.length = b.length ∧ matVec A x = b ∧ ∀ y, y.length = b.length → matVec A y = b → y = x) →
      ∃ x, solve A b = some x ∧ matVec A x = b) →
    N.openCircuitImpedance solve n1 n2 = .ok z

namespace C06ex

/-- former failing input (DESIGN §6): `Vs(1,0) = 10 V`, `R1(1,2) = 10 Ω`, `R2(2,0) = 10 Ω`, reference `0` -/
def exN : Net Nat ℚ := { branches := [⟨1, 0, "Vs", "", .norton 0 10⟩, ⟨1, 2, "R1", "", .norton 10 0⟩, ⟨2, 0, "R2", "", .norton 10 0⟩], zero := 0 }
def A0 : List (List ℚ) := [[1/10, -1/10, 1], [-1/10, 1/5, 0], [1, 0, 0]]
def solve0 : List (List ℚ) → List ℚ → Option (List ℚ) := fun A b => if A = A0 ∧ b = [0, 1, 0] then some [0, 5, 1/2] else none

theorem exN_mna : ({exN with zero := 0} : Net Nat ℚ).mnaA = A0 := by
  simp [Net.mnaA, Net.nodes, Net.nodeLabels, exN, sortL, dedupL, List.mergeSort, LabelOrd.le, Net.Yentry, Net.nonVS,
    Elem.isIdealVS, Elem.Yfin, Net.vsSorted, Net.vsIds, Net.vs, Net.byIds, Net.get?, Branch.dir, A0]
  norm_num

theorem exN_sys : ({exN with zero := 0} : Net Nat ℚ).portSys 2
    = .ok (.sys {exN with zero := 0} [true, true, true] A0 [0, 1, 0] 1) := by
  have r3 : List.range 3 = [0, 1, 2] := by decide
  have hn : ({exN with zero := 0} : Net Nat ℚ).nodes = [1, 2] := by
    simp [Net.nodes, Net.nodeLabels, exN, sortL, dedupL, List.mergeSort, LabelOrd.le]
  have hk : keepMask 3 A0 = [true, true, true] := by
    simp [keepMask, A0, r3]
  have hs : subMatrix [true, true, true] A0 = A0 := by simp [subMatrix, selectL, A0]
  unfold Net.portSys
  rw [hn, exN_mna]
  have hl : A0.length = 3 := rfl
  simp only [hl, hk, hs]
  simp [idxOf?, countBefore, unitVec, r3]

theorem exN_iso1 : exN.isolated 2 0 = .ok false := by
  have hc : ({exN with zero := 0} : Net Nat ℚ).check = .ok () := by
    simp [Net.check, Net.nodeLabels, Net.ids, exN, sortL, dedupL, List.mergeSort, LabelOrd.le]
  have hn : ({exN with zero := 0} : Net Nat ℚ).nodes = [1, 2] := by
    simp [Net.nodes, Net.nodeLabels, exN, sortL, dedupL, List.mergeSort, LabelOrd.le]
  unfold Net.isolated Net.switchGround
  simp only [hc, bind, Except.bind, pure, Except.pure, hn, exN_mna]
  simp [idxOf?, colZero, A0]

theorem exN_iso2 : exN.isolated 0 2 = .ok false := by
  have hc : ({exN with zero := 2} : Net Nat ℚ).check = .ok () := by
    simp [Net.check, Net.nodeLabels, Net.ids, exN, sortL, dedupL, List.mergeSort, LabelOrd.le]
  have hn : ({exN with zero := 2} : Net Nat ℚ).nodes = [0, 1] := by
    simp [Net.nodes, Net.nodeLabels, exN, sortL, dedupL, List.mergeSort, LabelOrd.le]
  have hm : ({exN with zero := 2} : Net Nat ℚ).mnaA = [[1/10, 0, -1], [0, 1/10, 1], [-1, 1, 0]] := by
    simp [Net.mnaA, Net.nodes, Net.nodeLabels, exN, sortL, dedupL, List.mergeSort, LabelOrd.le, Net.Yentry, Net.nonVS,
      Elem.isIdealVS, Elem.Yfin, Net.vsSorted, Net.vsIds, Net.vs, Net.byIds, Net.get?, Branch.dir]
  unfold Net.isolated Net.switchGround
  simp only [hc, bind, Except.bind, pure, Except.pure, hn, hm]
  simp [idxOf?, colZero]

theorem exN_pre : exN.portPre 2 0 = .ok (.sys {exN with zero := 0} [true, true, true] A0 [0, 1, 0] 1) := by
  have hc : ({exN with zero := 0} : Net Nat ℚ).check = .ok () := by
    simp [Net.check, Net.nodeLabels, Net.ids, exN, sortL, dedupL, List.mergeSort, LabelOrd.le]
  have hb : ¬ (exN.branchesBetween 2 0).any (·.e.isIdealVS) = true := by
    simp [Net.branchesBetween, exN, Elem.isIdealVS]
  have hz : exN.zero = 0 := rfl
  rw [portPre_unfold (by decide) hb]
  simp only [hz, show ((2 : Nat) = 0) = False from by simp, if_false, exN_iso1, exN_iso2]
  simp only [Net.switchGround, hc, bind, Except.bind, pure, Except.pure]
  exact exN_sys

theorem exN_model_value : exN.openCircuitImpedance solve0 2 0 = .ok 5 := by
  unfold Net.openCircuitImpedance
  rw [exN_pre]
  simp [solve0]

def Rex : Report Nat ℚ :=
  { pot := fun n => if n = 2 then 5 else 0
    v := fun id => if id = "Vs" then 0 else if id = "R1" then -5 else if id = "R2" then 5 else -5
    i := fun id => if id = "Vs" then 1/2 else if id = "R1" then -1/2 else if id = "R2" then 1/2 else 1 }

theorem Rex_solves : CircuitEqs (probeNet exN "p" 2 0 1) Rex := by
  refine ⟨by decide, ?_, ?_, ?_⟩
  · intro b hb
    simp only [probeNet, Net.zeroSources, exN, probeBranch, List.map_cons, List.map_nil, List.cons_append,
      List.nil_append, List.mem_cons, List.mem_nil_iff, or_false] at hb
    rcases hb with rfl | rfl | rfl | rfl <;> simp [voltResidual, Rex] <;> norm_num
  · intro b hb
    simp only [probeNet, Net.zeroSources, exN, probeBranch, List.map_cons, List.map_nil, List.cons_append,
      List.nil_append, List.mem_cons, List.mem_nil_iff, or_false] at hb
    rcases hb with rfl | rfl | rfl | rfl <;> simp [Elem.lawResidual, Elem.zeroSources, Rex] <;> norm_num
  · intro n hn
    simp only [probeNet, Net.zeroSources, exN, probeBranch, Net.allLabels, List.map_cons, List.map_nil, List.cons_append,
      List.nil_append, List.mem_cons, List.mem_nil_iff, or_false, List.map_append, List.append_assoc] at hn
    rcases hn with rfl | rfl | rfl | rfl | rfl | rfl | rfl | rfl | rfl <;>
      simp [kclResidual, probeNet, Net.zeroSources, exN, probeBranch, incidence, Elem.physCurrent, Elem.isLossy, Elem.kind, Elem.zeroSources, Rex] <;>
      norm_num

theorem exN_spec_value : PortZ exN "p" 2 0 5 := by
  refine ⟨⟨Rex, Rex_solves⟩, fun R hR => ?_⟩
  obtain ⟨h, hi, _⟩ := (probe_iff exN "p" 2 0 1 R).mp hR
  have hz : zs exN.branches = [⟨1, 0, "Vs", "", .norton 0 0⟩, ⟨1, 2, "R1", "", .norton 10 0⟩, ⟨2, 0, "R2", "", .norton 10 0⟩] := by
    simp [zs, exN, Elem.zeroSources]
  rw [hz] at h
  have h0 := h.ref_zero
  have v1 := h.volt ⟨1, 0, "Vs", "", .norton 0 0⟩ (by simp)
  have v2 := h.volt ⟨1, 2, "R1", "", .norton 10 0⟩ (by simp)
  have v3 := h.volt ⟨2, 0, "R2", "", .norton 10 0⟩ (by simp)
  have l1 := h.law ⟨1, 0, "Vs", "", .norton 0 0⟩ (by simp)
  have l2 := h.law ⟨1, 2, "R1", "", .norton 10 0⟩ (by simp)
  have l3 := h.law ⟨2, 0, "R2", "", .norton 10 0⟩ (by simp)
  have k := h.kcl 2
  simp [voltResidual] at v1 v2 v3
  simp [Elem.lawResidual] at l1 l2 l3
  simp [incidence, Elem.physCurrent, Elem.isLossy, Elem.kind, injAB, hi] at k
  have e0 : R.pot exN.zero = R.pot 0 := rfl
  rw [e0] at h0
  linear_combination (1/2) * (-v3 + l3 + v2 - v1 - l2 + l1) + 5 * k

/-- former failing input: `O(1,0)` open circuit, `R(2,0) = 5 Ω`, `R2(3,2) = 7 Ω` — node `1` hangs on an
open branch and sorts before the port node `2` -/
def exP : Net Nat ℚ := { branches := [⟨1, 0, "O", "", .thevenin 0 0⟩, ⟨2, 0, "R", "", .norton 5 0⟩, ⟨3, 2, "R2", "", .norton 7 0⟩], zero := 0 }

def RexP : Report Nat ℚ :=
  { pot := fun n => if n = 2 then 5 else if n = 3 then 5 else 0
    v := fun id => if id = "O" then 0 else if id = "R" then 5 else if id = "R2" then 0 else -5
    i := fun id => if id = "O" then 0 else if id = "R" then 1 else if id = "R2" then 0 else 1 }

theorem RexP_solves : CircuitEqs (probeNet exP "p" 2 0 1) RexP := by
  refine ⟨by decide, ?_, ?_, ?_⟩
  · intro b hb
    simp only [probeNet, Net.zeroSources, exP, probeBranch, List.map_cons, List.map_nil, List.cons_append,
      List.nil_append, List.mem_cons, List.mem_nil_iff, or_false] at hb
    rcases hb with rfl | rfl | rfl | rfl <;> simp [voltResidual, RexP]
  · intro b hb
    simp only [probeNet, Net.zeroSources, exP, probeBranch, List.map_cons, List.map_nil, List.cons_append,
      List.nil_append, List.mem_cons, List.mem_nil_iff, or_false] at hb
    rcases hb with rfl | rfl | rfl | rfl <;> simp [Elem.lawResidual, Elem.zeroSources, RexP]
  · intro n hn
    simp only [probeNet, Net.zeroSources, exP, probeBranch, Net.allLabels, List.map_cons, List.map_nil, List.cons_append,
      List.nil_append, List.mem_cons, List.mem_nil_iff, or_false] at hn
    rcases hn with rfl | rfl | rfl | rfl | rfl | rfl | rfl | rfl | rfl <;>
      simp [kclResidual, probeNet, Net.zeroSources, exP, probeBranch, incidence, Elem.physCurrent, Elem.isLossy, Elem.kind, Elem.zeroSources, RexP]

theorem exP_spec_value : PortZ exP "p" 2 0 5 := by
  refine ⟨⟨RexP, RexP_solves⟩, fun R hR => ?_⟩
  obtain ⟨h, hi, _⟩ := (probe_iff exP "p" 2 0 1 R).mp hR
  have hz : zs exP.branches = [⟨1, 0, "O", "", .thevenin 0 0⟩, ⟨2, 0, "R", "", .norton 5 0⟩, ⟨3, 2, "R2", "", .norton 7 0⟩] := by
    simp [zs, exP, Elem.zeroSources]
  rw [hz] at h
  have v2 := h.volt ⟨2, 0, "R", "", .norton 5 0⟩ (by simp)
  have l2 := h.law ⟨2, 0, "R", "", .norton 5 0⟩ (by simp)
  have k2 := h.kcl 2
  have k3 := h.kcl 3
  simp [voltResidual] at v2
  simp [Elem.lawResidual] at l2
  simp [incidence, Elem.physCurrent, Elem.isLossy, Elem.kind, injAB, hi] at k2 k3
  linear_combination -v2 + l2 + 5 * k2 + 5 * k3


theorem exN_wellposed : WellPosed (probeNet exN "p" 2 0 1) := by
  intro R hR
  rw [probeNet_zeroSources] at hR
  obtain ⟨h, hi, hv⟩ := (probe_iff exN "p" 2 0 0 R).mp hR
  have hz : zs exN.branches = [⟨1, 0, "Vs", "", .norton 0 0⟩, ⟨1, 2, "R1", "", .norton 10 0⟩, ⟨2, 0, "R2", "", .norton 10 0⟩] := by
    simp [zs, exN, Elem.zeroSources]
  rw [hz] at h
  have h0 : R.pot 0 = 0 := h.ref_zero
  have v1 := h.volt ⟨1, 0, "Vs", "", .norton 0 0⟩ (by simp)
  have v2 := h.volt ⟨1, 2, "R1", "", .norton 10 0⟩ (by simp)
  have v3 := h.volt ⟨2, 0, "R2", "", .norton 10 0⟩ (by simp)
  have l1 := h.law ⟨1, 0, "Vs", "", .norton 0 0⟩ (by simp)
  have l2 := h.law ⟨1, 2, "R1", "", .norton 10 0⟩ (by simp)
  have l3 := h.law ⟨2, 0, "R2", "", .norton 10 0⟩ (by simp)
  have k1 := h.kcl 1
  have k2 := h.kcl 2
  simp [voltResidual] at v1 v2 v3
  simp [Elem.lawResidual] at l1 l2 l3
  simp [incidence, Elem.physCurrent, Elem.isLossy, Elem.kind, injAB, hi] at k1 k2
  have p1 : R.pot 1 = 0 := by linear_combination l1 - v1 + h0
  have p2 : R.pot 2 = 0 := by linear_combination (1/2) * (-v3 + l3 + v2 - v1 - l2 + l1) + 5 * k2 + h0
  have i2 : R.i "R2" = 0 := by linear_combination (1/10) * (v3 - l3) + (1/10) * p2 - (1/10) * h0
  have i1 : R.i "R1" = 0 := by linear_combination (1/10) * (v2 - l2) + (1/10) * p1 - (1/10) * p2
  have iV : R.i "Vs" = 0 := by linear_combination k1 - i1
  constructor
  · intro n hn
    simp only [probeNet, Net.zeroSources, exN, probeBranch, Net.allLabels, List.map_cons, List.map_nil, List.cons_append,
      List.nil_append, List.mem_cons, List.mem_nil_iff, or_false] at hn
    rcases hn with rfl | rfl | rfl | rfl | rfl | rfl | rfl | rfl | rfl <;> simp [Report.zeroRep, h0, p1, p2]
  · intro b hb
    simp only [probeNet, Net.zeroSources, exN, probeBranch, List.map_cons, List.map_nil, List.cons_append,
      List.nil_append, List.mem_cons, List.mem_nil_iff, or_false] at hb
    rcases hb with rfl | rfl | rfl | rfl <;> simp only [Report.zeroRep]
    · exact ⟨l1, iV⟩
    · exact ⟨by linear_combination l2 + 10 * i1, i1⟩
    · exact ⟨by linear_combination l3 + 10 * i2, i2⟩
    · exact ⟨by rw [hv, h0, p2]; ring, hi⟩


theorem solve0_ok : SolveOK solve0 := by
  intro A b x h
  simp only [solve0] at h
  split at h
  · rename_i hc; obtain ⟨rfl, rfl⟩ := hc; cases h
    refine ⟨rfl, ?_⟩
    simp [matVec, dotL, A0]; norm_num
  · cases h

theorem exN_keep : ∀ N' keep A e i1, exN.portPre 2 0 = .ok (.sys N' keep A e i1) → keep.all id = true := by
  intro N' keep A e i1 h
  rw [exN_pre] at h
  cases h
  rfl

/-- audit input: `O(1,0)` open circuit, `R(2,0) = 5 Ω` — node `1` is isolated; the repaired function answers ∞ -/
def exJ : Net Nat ℚ := { branches := [⟨1, 0, "O", "", .thevenin 0 0⟩, ⟨2, 0, "R", "", .norton 5 0⟩], zero := 0 }

theorem exJ_pre : exJ.portPre 1 0 = .ok .infinite := by
  have hc : ({exJ with zero := 0} : Net Nat ℚ).check = .ok () := by
    simp [Net.check, Net.nodeLabels, Net.ids, exJ, sortL, dedupL, List.mergeSort, LabelOrd.le]
  have hn : ({exJ with zero := 0} : Net Nat ℚ).nodes = [1, 2] := by
    simp [Net.nodes, Net.nodeLabels, exJ, sortL, dedupL, List.mergeSort, LabelOrd.le]
  have hm : ({exJ with zero := 0} : Net Nat ℚ).mnaA = [[0, 0], [0, 1/5]] := by
    simp [Net.mnaA, Net.nodes, Net.nodeLabels, exJ, sortL, dedupL, List.mergeSort, LabelOrd.le, Net.Yentry, Net.nonVS,
      Elem.isIdealVS, Elem.Yfin, Net.vsSorted, Net.vsIds, Net.vs, Net.byIds]
  have hiso : exJ.isolated 1 0 = .ok true := by
    unfold Net.isolated Net.switchGround
    simp only [hc, bind, Except.bind, pure, Except.pure, hn, hm]
    simp [idxOf?, colZero]
  have hb : ¬ (exJ.branchesBetween 1 0).any (·.e.isIdealVS) = true := by
    simp [Net.branchesBetween, exJ, Elem.isIdealVS]
  have hz : exJ.zero = 0 := rfl
  rw [portPre_unfold (by decide) hb]
  simp only [hz, show ((1 : Nat) = 0) = False from by simp, if_false, hiso]

end C06ex

/-! ### non-vacuity: the former failing inputs -/

/-- on `Vs(1,0), R1(1,2) = 10 Ω, R2(2,0) = 10 Ω` the repaired function returns 5 Ω between 2 and 0
(it returned 10 Ω before e030c44), and every hypothesis of `C06_impl_eq_spec_partial` is met -/
example : PortZ C06ex.exN "p" 2 0 5 :=
  C06_impl_eq_spec_partial C06ex.exN C06ex.solve0 "p" 2 0 5 (by decide) C06ex.solve0_ok (by decide)
    (by intro b hb; simp only [C06ex.exN, List.mem_cons, List.mem_nil_iff, or_false] at hb
        rcases hb with rfl | rfl | rfl <;> decide)
    C06ex.exN_keep C06ex.exN_wellposed
    (by rw [mem_nodeLabels]; exact Or.inr ⟨⟨1, 0, "Vs", "", .norton 0 10⟩, by simp [C06ex.exN], Or.inr rfl⟩)
    C06ex.exN_model_value

/-- the hypothesis of `C06_isolated_port` is met by the audit input: the model reports ∞ and the Spec has no solution -/
example : ¬ ∃ R : Report Nat ℚ, CircuitEqs (probeNet C06ex.exJ "p" 1 0 1) R :=
  (C06_isolated_port C06ex.exJ (fun _ _ => none) "p" 1 0 (by decide) (by decide)
    (by intro b hb; simp only [C06ex.exJ, List.mem_cons, List.mem_nil_iff, or_false] at hb
        rcases hb with rfl | rfl <;> decide) C06ex.exJ_pre).2

/-- `PortZ` is inhabited on a network with an ideal source away from the port -/
example : ∃ z : ℚ, PortZ C06ex.exN "p" 2 0 z := ⟨5, C06ex.exN_spec_value⟩

/-- … and on a network that is not well-posed as a whole (floating node) -/
example : ∃ z : ℚ, PortZ C06ex.exP "p" 2 0 z := ⟨5, C06ex.exP_spec_value⟩

/-- the hypotheses of `C06_unique`, `C06_port_equation`, `C06_thevenin`, `C06_norton`, `C06_parallel`,
`C06_series` (fresh probe id, distinct ids, well-posed probe network) are met by the example -/
example : "p" ∉ C06ex.exN.ids ∧ C06ex.exN.ids.Nodup ∧ WellPosed (probeNet C06ex.exN "p" 2 0 1) :=
  ⟨by decide, by decide, C06ex.exN_wellposed⟩

/-- the hypothesis of `C06_impl_early_correct`: an ideal source directly across the port -/
example : C06ex.exN.portIsEarly 1 0 = true := by
  simp [Net.portIsEarly, Net.branchesBetween, C06ex.exN, Elem.isIdealVS]

/-! ### what remains open: floating groups of nodes -/

namespace C06ex

/-- `R(1,0) = 5 Ω`; nodes `2`, `3` joined by `Rb(2,3) = 1 Ω` hang on the open branch `O(2,0)`:
a floating group of two nodes -/
def exI : Net Nat ℚ := { branches := [⟨1, 0, "R", "", .norton 5 0⟩, ⟨2, 0, "O", "", .thevenin 0 0⟩, ⟨2, 3, "Rb", "", .norton 1 0⟩], zero := 0 }
def AI : List (List ℚ) := [[1/5, 0, 0], [0, 1, -1], [0, -1, 1]]

theorem exI_mna : ({exI with zero := 0} : Net Nat ℚ).mnaA = AI := by
  simp [Net.mnaA, Net.nodes, Net.nodeLabels, exI, sortL, dedupL, List.mergeSort, LabelOrd.le, Net.Yentry, Net.nonVS,
    Elem.isIdealVS, Elem.Yfin, Net.vsSorted, Net.vsIds, Net.vs, Net.byIds, AI]

theorem exI_sys : ({exI with zero := 0} : Net Nat ℚ).portSys 1
    = .ok (.sys {exI with zero := 0} [true, true, true] AI [1, 0, 0] 0) := by
  have r3 : List.range 3 = [0, 1, 2] := by decide
  have hn : ({exI with zero := 0} : Net Nat ℚ).nodes = [1, 2, 3] := by
    simp [Net.nodes, Net.nodeLabels, exI, sortL, dedupL, List.mergeSort, LabelOrd.le]
  have hk : keepMask 3 AI = [true, true, true] := by simp [keepMask, AI, r3]
  have hs : subMatrix [true, true, true] AI = AI := by simp [subMatrix, selectL, AI]
  unfold Net.portSys
  rw [hn, exI_mna]
  have hl : AI.length = 3 := rfl
  simp only [hl, hk, hs]
  simp [idxOf?, countBefore, unitVec, r3]

theorem exI_iso1 : exI.isolated 1 0 = .ok false := by
  have hc : ({exI with zero := 0} : Net Nat ℚ).check = .ok () := by
    simp [Net.check, Net.nodeLabels, Net.ids, exI, sortL, dedupL, List.mergeSort, LabelOrd.le]
  have hn : ({exI with zero := 0} : Net Nat ℚ).nodes = [1, 2, 3] := by
    simp [Net.nodes, Net.nodeLabels, exI, sortL, dedupL, List.mergeSort, LabelOrd.le]
  unfold Net.isolated Net.switchGround
  simp only [hc, bind, Except.bind, pure, Except.pure, hn, exI_mna]
  simp [idxOf?, colZero, AI]

theorem exI_iso2 : exI.isolated 0 1 = .ok false := by
  have hc : ({exI with zero := 1} : Net Nat ℚ).check = .ok () := by
    simp [Net.check, Net.nodeLabels, Net.ids, exI, sortL, dedupL, List.mergeSort, LabelOrd.le]
  have hn : ({exI with zero := 1} : Net Nat ℚ).nodes = [0, 2, 3] := by
    simp [Net.nodes, Net.nodeLabels, exI, sortL, dedupL, List.mergeSort, LabelOrd.le]
  have hm : ({exI with zero := 1} : Net Nat ℚ).mnaA = [[1/5, 0, 0], [0, 1, -1], [0, -1, 1]] := by
    simp [Net.mnaA, Net.nodes, Net.nodeLabels, exI, sortL, dedupL, List.mergeSort, LabelOrd.le, Net.Yentry, Net.nonVS,
      Elem.isIdealVS, Elem.Yfin, Net.vsSorted, Net.vsIds, Net.vs, Net.byIds]
  unfold Net.isolated Net.switchGround
  simp only [hc, bind, Except.bind, pure, Except.pure, hn, hm]
  simp [idxOf?, colZero]

theorem exI_pre : exI.portPre 1 0 = .ok (.sys {exI with zero := 0} [true, true, true] AI [1, 0, 0] 0) := by
  have hc : ({exI with zero := 0} : Net Nat ℚ).check = .ok () := by
    simp [Net.check, Net.nodeLabels, Net.ids, exI, sortL, dedupL, List.mergeSort, LabelOrd.le]
  have hb : ¬ (exI.branchesBetween 1 0).any (·.e.isIdealVS) = true := by
    simp [Net.branchesBetween, exI, Elem.isIdealVS]
  have hz : exI.zero = 0 := rfl
  rw [portPre_unfold (by decide) hb]
  simp only [hz, show ((1 : Nat) = 0) = False from by simp, if_false, exI_iso1, exI_iso2]
  simp only [Net.switchGround, hc, bind, Except.bind, pure, Except.pure]
  exact exI_sys

def RexI : Report Nat ℚ :=
  { pot := fun n => if n = 1 then 5 else 0
    v := fun id => if id = "R" then 5 else if id = "p" then -5 else 0
    i := fun id => if id = "R" then 1 else if id = "p" then 1 else 0 }

theorem RexI_solves : CircuitEqs (probeNet exI "p" 1 0 1) RexI := by
  refine ⟨by decide, ?_, ?_, ?_⟩
  · intro b hb
    simp only [probeNet, Net.zeroSources, exI, probeBranch, List.map_cons, List.map_nil, List.cons_append,
      List.nil_append, List.mem_cons, List.mem_nil_iff, or_false] at hb
    rcases hb with rfl | rfl | rfl | rfl <;> simp [voltResidual, RexI]
  · intro b hb
    simp only [probeNet, Net.zeroSources, exI, probeBranch, List.map_cons, List.map_nil, List.cons_append,
      List.nil_append, List.mem_cons, List.mem_nil_iff, or_false] at hb
    rcases hb with rfl | rfl | rfl | rfl <;> simp [Elem.lawResidual, Elem.zeroSources, RexI]
  · intro n hn
    simp only [probeNet, Net.zeroSources, exI, probeBranch, Net.allLabels, List.map_cons, List.map_nil, List.cons_append,
      List.nil_append, List.mem_cons, List.mem_nil_iff, or_false] at hn
    rcases hn with rfl | rfl | rfl | rfl | rfl | rfl | rfl | rfl | rfl <;>
      simp [kclResidual, probeNet, Net.zeroSources, exI, probeBranch, incidence, Elem.physCurrent, Elem.isLossy, Elem.kind, Elem.zeroSources, RexI]

theorem exI_spec_value : PortZ exI "p" 1 0 5 := by
  refine ⟨⟨RexI, RexI_solves⟩, fun R hR => ?_⟩
  obtain ⟨h, hi, _⟩ := (probe_iff exI "p" 1 0 1 R).mp hR
  have hz : zs exI.branches = [⟨1, 0, "R", "", .norton 5 0⟩, ⟨2, 0, "O", "", .thevenin 0 0⟩, ⟨2, 3, "Rb", "", .norton 1 0⟩] := by
    simp [zs, exI, Elem.zeroSources]
  rw [hz] at h
  have v1 := h.volt ⟨1, 0, "R", "", .norton 5 0⟩ (by simp)
  have l1 := h.law ⟨1, 0, "R", "", .norton 5 0⟩ (by simp)
  have k1 := h.kcl 1
  simp [voltResidual] at v1
  simp [Elem.lawResidual] at l1
  simp [incidence, Elem.physCurrent, Elem.isLossy, Elem.kind, injAB, hi] at k1
  linear_combination -v1 + l1 + 5 * k1

/-- the solved system has two different solutions: the matrix is singular -/
theorem exI_singular : matVec AI [5, 0, 0] = [1, 0, 0] ∧ matVec AI [5, 1, 1] = [1, 0, 0] := by
  constructor <;> simp [matVec, dotL, AI]

end C06ex

open Classical in
/-- **C06 (open finding: floating group of nodes).**  Completeness fails: on `R(1,0) = 5 Ω` with two
nodes joined by a resistor that hang on an open branch, the port impedance between `1` and `0`
is defined (`PortZ = 5`), nothing is pruned, but the system handed to `solve` has more than one
solution — a solver that answers exactly the uniquely solvable systems (numpy raises
`LinAlgError` on a singular matrix) makes `open_circuit_impedance` fail. -/
theorem C06_floating_island_counterexample : ¬ C06_impl_complete_statement := by
  intro h
  let solveU : List (List ℚ) → List ℚ → Option (List ℚ) := fun A b =>
    if hu : ∃ x, x.length = b.length ∧ matVec A x = b ∧ ∀ y, y.length = b.length → matVec A y = b → y = x
    then some (Classical.choose hu) else none
  have hcontract : ∀ A b, (∃ x, x.length = b.length ∧ matVec A x = b ∧ ∀ y, y.length = b.length → matVec A y = b → y = x) →
      ∃ x, solveU A b = some x ∧ matVec A x = b := by
    intro A b hu
    exact ⟨Classical.choose hu, by simp [solveU, hu], (Classical.choose_spec hu).2.1⟩
  have hval := h C06ex.exI solveU "p" 1 0 5 (by decide) (by decide) C06ex.exI_spec_value hcontract
  unfold Net.openCircuitImpedance at hval
  rw [C06ex.exI_pre] at hval
  have hnone : solveU C06ex.AI [1, 0, 0] = none := by
    have : ¬ ∃ x : List ℚ, x.length = ([1, 0, 0] : List ℚ).length ∧ matVec C06ex.AI x = [1, 0, 0] ∧
        ∀ y : List ℚ, y.length = ([1, 0, 0] : List ℚ).length → matVec C06ex.AI y = [1, 0, 0] → y = x := by
      rintro ⟨x, _, _, hu⟩
      have e1 := hu [5, 0, 0] rfl C06ex.exI_singular.1
      have e2 := hu [5, 1, 1] rfl C06ex.exI_singular.2
      rw [← e2] at e1
      simp at e1
    exact dif_neg this
  simp [hnone] at hval
section PortInvariance
variable {L' : Type} [DecidableEq L']

/-! ## C03 for ports: the port impedance does not depend on listing order, names, terminal
order or reference node (corollaries of `C03_perm`, `C03_rename`, `C03_reverse`, `C06_ref_indep`
applied to the probe network) -/

/-- **C03/C06 (listing order).** -/
theorem C06_port_invariant_perm (N N' : Net L K) (hz : N.zero = N'.zero)
    (hp : N.branches.Perm N'.branches) (pid : String) (a b : L) (z : K) :
    PortZ N pid a b z ↔ PortZ N' pid a b z := by
  have hperm : (probeNet N pid a b (1 : K)).branches.Perm (probeNet N' pid a b (1 : K)).branches := by
    show (N.zeroSources.branches ++ _).Perm (N'.zeroSources.branches ++ _)
    exact List.Perm.append_right _ (hp.map _)
  have hzero : (probeNet N pid a b (1 : K)).zero = (probeNet N' pid a b (1 : K)).zero := hz
  have key := C03_perm (probeNet N pid a b (1 : K)) (probeNet N' pid a b 1) hzero hperm
  unfold PortZ
  constructor
  · rintro ⟨⟨R, hR⟩, hall⟩
    exact ⟨⟨R, (key R).mp hR⟩, fun S hS => hall S ((key S).mpr hS)⟩
  · rintro ⟨⟨R, hR⟩, hall⟩
    exact ⟨⟨R, (key R).mpr hR⟩, fun S hS => hall S ((key S).mp hS)⟩

/-- **C03/C06 (reference node).** -/
theorem C06_port_invariant_reref (N : Net L K) (g : L) (pid : String) (a b : L) (z : K) :
    PortZ N pid a b z ↔ PortZ { N with zero := g } pid a b z := by
  constructor
  · exact C06_ref_indep N pid a b g z
  · intro h
    have := C06_ref_indep { N with zero := g } pid a b N.zero z h
    have e : ({ ({ N with zero := g } : Net L K) with zero := N.zero } : Net L K) = N := by cases N; rfl
    rw [e] at this; exact this

theorem reversed_zeroSources (e : Elem K) : e.zeroSources.reversed = e.reversed.zeroSources := by
  cases e <;> simp [Elem.reversed, Elem.zeroSources]

theorem reversed_reversed (e : Elem K) : e.reversed.reversed = e := by
  cases e <;> simp [Elem.reversed]

theorem probeNet_flip (f : String → Bool) (N : Net L K) (pid : String) (hf : f pid = false) (a b : L) (J : K) :
    (probeNet N pid a b J).flip f = probeNet (N.flip f) pid a b J := by
  unfold probeNet Net.flip Net.zeroSources
  simp only [List.map_append, List.map_map, List.map_cons, List.map_nil]
  congr 2
  · apply List.map_congr_left
    intro x _
    simp only [Function.comp_apply, Branch.flip]
    by_cases h : f x.id = true
    · simp [h, reversed_zeroSources]
    · simp [h]
  · simp [Branch.flip, probeBranch, hf]

theorem flip_flip_net (f : String → Bool) (N : Net L K) : (N.flip f).flip f = N := by
  cases N with
  | mk bs z =>
    unfold Net.flip
    simp only [List.map_map]
    congr 1
    conv_rhs => rw [← List.map_id bs]
    apply List.map_congr_left
    intro x _
    simp only [Function.comp_apply, Branch.flip, id]
    by_cases h : f x.id = true
    · simp [h, reversed_reversed]
    · simp [h]

/-- **C03/C06 (terminal order).**  Reversing the terminals of any subset of branches (source
values negated) leaves the port impedance unchanged. -/
theorem C06_port_invariant_reverse (f : String → Bool) (N : Net L K) (pid : String) (hf : f pid = false)
    (a b : L) (z : K) : PortZ (N.flip f) pid a b z ↔ PortZ N pid a b z := by
  have fwd : ∀ (M : Net L K) (R : Report L K), CircuitEqs (probeNet M pid a b 1) R →
      CircuitEqs (probeNet (M.flip f) pid a b 1) (R.flip f) := by
    intro M R hR
    rw [← probeNet_flip f M pid hf]
    exact C03_reverse f _ R hR
  have back : ∀ (R : Report L K), CircuitEqs (probeNet (N.flip f) pid a b 1) R →
      CircuitEqs (probeNet N pid a b 1) (R.flip f) := by
    intro R hR
    have := fwd (N.flip f) R hR
    rw [flip_flip_net] at this; exact this
  unfold PortZ
  constructor
  · rintro ⟨⟨R, hR⟩, hall⟩
    exact ⟨⟨_, back R hR⟩, fun S hS => hall (S.flip f) (fwd N S hS)⟩
  · rintro ⟨⟨R, hR⟩, hall⟩
    exact ⟨⟨_, fwd N R hR⟩, fun S hS => hall (S.flip f) (back S hS)⟩

theorem probeNet_rename (σ : L → L') (τ : String → String) (N : Net L K) (pid : String) (a b : L) (J : K) :
    (probeNet N pid a b J).rename σ τ = probeNet (N.rename σ τ) (τ pid) (σ a) (σ b) J := by
  unfold probeNet Net.rename Net.zeroSources
  simp only [List.map_append, List.map_map, List.map_cons, List.map_nil]
  rfl

open Classical in
/-- a report of the original network pushed forward along an injective renaming -/
noncomputable def Report.push (σ : L → L') (τ : String → String) (R : Report L K) : Report L' K where
  pot := fun l' => if h : ∃ l, σ l = l' then R.pot h.choose else 0
  v := fun id' => if h : ∃ id, τ id = id' then R.v h.choose else 0
  i := fun id' => if h : ∃ id, τ id = id' then R.i h.choose else 0

theorem comap_push (σ : L → L') (hσ : Function.Injective σ) (τ : String → String)
    (hτ : Function.Injective τ) (R : Report L K) : (R.push σ τ).comap σ τ = R := by
  cases R with
  | mk pot v i =>
    unfold Report.push Report.comap
    congr
    · funext n
      have h : ∃ l, σ l = σ n := ⟨n, rfl⟩
      simp only [h, dif_pos]
      rw [hσ h.choose_spec]
    · funext id
      have h : ∃ j, τ j = τ id := ⟨id, rfl⟩
      simp only [h, dif_pos]
      rw [hτ h.choose_spec]
    · funext id
      have h : ∃ j, τ j = τ id := ⟨id, rfl⟩
      simp only [h, dif_pos]
      rw [hτ h.choose_spec]

/-- **C03/C06 (names).**  Renaming node labels (injectively) and identifiers (injectively)
leaves the port impedance unchanged. -/
theorem C06_port_invariant_rename (σ : L → L') (hσ : Function.Injective σ) (τ : String → String)
    (hτ : Function.Injective τ) (N : Net L K) (pid : String) (a b : L) (z : K) :
    PortZ (N.rename σ τ) (τ pid) (σ a) (σ b) z ↔ PortZ N pid a b z := by
  have key : ∀ R' : Report L' K, CircuitEqs (probeNet (N.rename σ τ) (τ pid) (σ a) (σ b) 1) R' ↔
      CircuitEqs (probeNet N pid a b 1) (R'.comap σ τ) := by
    intro R'
    rw [← probeNet_rename]
    exact C03_rename σ hσ τ _ R'
  unfold PortZ
  constructor
  · rintro ⟨⟨R', hR'⟩, hall⟩
    refine ⟨⟨_, (key R').mp hR'⟩, fun S hS => ?_⟩
    have hS' : CircuitEqs (probeNet (N.rename σ τ) (τ pid) (σ a) (σ b) 1) (S.push σ τ) := by
      rw [key, comap_push σ hσ τ hτ]; exact hS
    have := hall _ hS'
    have e : ∀ n, (S.push σ τ).pot (σ n) = S.pot n := by
      intro n
      have := congrArg (fun R => R.pot n) (comap_push σ hσ τ hτ S)
      exact this
    rw [e a, e b] at this; exact this
  · rintro ⟨⟨R, hR⟩, hall⟩
    refine ⟨⟨R.push σ τ, by rw [key, comap_push σ hσ τ hτ]; exact hR⟩, fun S' hS' => ?_⟩
    exact hall _ ((key S').mp hS')

end PortInvariance

end CC
