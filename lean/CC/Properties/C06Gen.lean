/-
  C06 (translator tie) — `open_circuit_impedance` and `element_impedance`
  (Network/NodalAnalysis/node_analysis.py), the two functions property C06 is about, as
  harness/extract_port.py regenerates them from the Python AST on every run (CC/Gen/Port.lean:
  `Gen.Port.isolated`, `Gen.Port.open_circuit_impedance`, `Gen.Port.element_impedance`), equal the
  hand-written model CC/Model/Port.lean (`Net.isolated`, `Net.openCircuitImpedance`,
  `Net.elementImpedance`) that the C06 theorems are about.  A dropped early return, a changed
  ground swap, an omitted `isolated` call, a shifted slice bound (`keep[:k+1]`), another mask in
  `np.ix_`, another right-hand side or another component of the solution changes the generated
  definition, and the corresponding equality below stops compiling.

  All statements hold for every network, all node labels / element names, every field `K` and
  EVERY solver function (`np.linalg.solve` is a parameter of both models; nothing is assumed of
  it), exceptions included (`FloatingGroundNode`, `AmbiguousBranchIDs`, `KeyError`, the
  `IndexError` of `unit_current[i1] = 1` and `…[i1]`, `LinAlgError`).
  Hypothesis: `LawfulLabelOrd L` — the label order is a total pre-order (`str` order; instances
  for `String` and `Nat`), as in C01Gen.

  Shapes.  The generated functions return the Python value: `XVal.fin z` for a number (the integer
  `0` of the early returns included), `XVal.inf` for `np.inf`.  The hand model returns a field
  element and reports `np.inf` as `Err.other "Infinite"`; `PortGen.portValue` is that reading,
  `PortGen.ofPortValue` its inverse (`C06_gen_value_lossless`).  The generated functions hand
  `np.linalg.solve` an array WITH its shape, the hand model a list of rows; the arrays that reach
  the solver are square (`C06_gen_open_circuit_impedance` states the equality for every solver on
  arrays, `C06_gen_open_circuit_impedance_rows` for every solver on row lists).

  What this does NOT prove: that the idioms of CC/Model/{CoreBase,TransformersBase,PortBase}.lean
  read numpy / Python correctly (trusted base, stated construct by construct in their docstrings);
  anything about `np.linalg.solve` itself or binary64 arithmetic; `open_circuit_voltage`,
  `short_circuit_current`, the Thevenin/Norton records and the sweep wrappers stay hand-modelled
  (tied by the run-time correspondence only).  The node mapper is fixed to its default
  (`map.default_node_mapper`), as everywhere in the generated core.
-/
import CC.Proofs.PortGen

namespace CC
open CC.Gen.Core CC.Gen.Transformers CC.Py CC.PortGen
variable {L K : Type} [DecidableEq L] [LabelOrd L] [Field K] [DecidableEq K]

/-- the numpy idioms of the pruning path are the helper functions of the hand model:
`A.any(axis=0)` is `keepMask`, `A[np.ix_(keep, keep)]` is `subMatrix` (with the shape numpy gives
it), `np.count_nonzero(keep[:k])` is `countBefore`, `np.zeros(m); u[i] = 1` is `unitVec`,
`not A[:, j].any()` is `colZero` -/
theorem C06_gen_idioms (r c : Nat) (A : List (List K)) (keep : List Bool) (k m i : Nat) :
    Py.Mat.anyAxis0 (⟨r, c, A⟩ : Py.Mat K) = keepMask c A
    ∧ Py.Mat.ix (⟨r, c, A⟩ : Py.Mat K) keep keep = ⟨Py.countNonzero keep, Py.countNonzero keep, subMatrix keep A⟩
    ∧ (keep.length = A.length → (subMatrix keep A).length = Py.countNonzero keep)
    ∧ Py.countNonzero (Py.sliceTo keep k) = countBefore keep k
    ∧ (Py.zerosVec m : List K).set i 1 = unitVec m i
    ∧ (!(Py.vecAny (Py.Mat.col (⟨r, c, A⟩ : Py.Mat K) k))) = colZero A k :=
  ⟨anyAxis0_eq_keepMask r c A, ix_eq_subMatrix r c A keep, subMatrix_length keep A, rfl,
    set_zeros_eq_unitVec m i, not_vecAny_col r c A k⟩

/-- `trf.switch_ground_node` / `trf.remove_element` as generated are the two transformer functions
of the port model (which states them independently of CC/Model/Transform.lean) -/
theorem C06_gen_transformers (N : Net L K) (g : L) (id : String) :
    switch_ground_node N g = N.switchGround g ∧ remove_element N id = N.removeElement id :=
  ⟨by rw [gen_switchGround, switchGround_eq], by rw [gen_removeElement, removeElement_eq]⟩

/-- the nested helper `isolated(node, ground)`: re-reference, look the node up, test its column of
the full MNA matrix -/
theorem C06_gen_isolated [LawfulLabelOrd L] (N : Net L K) (node ground : L) :
    Gen.Port.isolated N node ground = N.isolated node ground := gen_isolated N node ground

/-- **`open_circuit_impedance`, generated = hand model**, for every network, every pair of labels
and every solver on arrays: both early returns, the ground swap, the two `isolated` calls in
short-circuit order, re-referencing, the column mask, the index among the kept unknowns, the
pruned matrix, the unit vector, `solve`, the component read off — exceptions included. -/
theorem C06_gen_open_circuit_impedance [LawfulLabelOrd L] (solve : Py.Mat K → List K → Option (List K))
    (N : Net L K) (n1 n2 : L) :
    Gen.Port.open_circuit_impedance solve N n1 n2
      = portValue (N.openCircuitImpedance (rowsSolver solve) n1 n2) :=
  gen_open_circuit_impedance solve N n1 n2

/-- the same for every solver of the hand model (a function of the list of rows): every instance
of the hand-written function is an instance of the generated one -/
theorem C06_gen_open_circuit_impedance_rows [LawfulLabelOrd L] (solve : List (List K) → List K → Option (List K))
    (N : Net L K) (n1 n2 : L) :
    Gen.Port.open_circuit_impedance (fun M b => solve M.rows b) N n1 n2
      = portValue (N.openCircuitImpedance solve n1 n2) :=
  gen_open_circuit_impedance (fun M b => solve M.rows b) N n1 n2

/-- **`element_impedance`, generated = hand model**: `remove_element` first, then the two look-ups
`network[element]` on the ORIGINAL network, then `open_circuit_impedance` on the reduced one -/
theorem C06_gen_element_impedance [LawfulLabelOrd L] (solve : Py.Mat K → List K → Option (List K))
    (N : Net L K) (id : String) :
    Gen.Port.element_impedance solve N id = portValue (N.elementImpedance (rowsSolver solve) id) :=
  gen_element_impedance solve N id

theorem C06_gen_element_impedance_rows [LawfulLabelOrd L] (solve : List (List K) → List K → Option (List K))
    (N : Net L K) (id : String) :
    Gen.Port.element_impedance (fun M b => solve M.rows b) N id = portValue (N.elementImpedance solve id) :=
  gen_element_impedance (fun M b => solve M.rows b) N id

/-- the change of result type loses nothing: the hand model's result is recovered from the
generated function's, so every theorem about `Net.openCircuitImpedance` / `Net.elementImpedance`
is a theorem about the translated code -/
theorem C06_gen_value_lossless [LawfulLabelOrd L] (solve : List (List K) → List K → Option (List K))
    (N : Net L K) (n1 n2 : L) (id : String) :
    (∀ r : Except Err K, ofPortValue (portValue r) = r)
    ∧ N.openCircuitImpedance solve n1 n2
        = ofPortValue (Gen.Port.open_circuit_impedance (fun M b => solve M.rows b) N n1 n2)
    ∧ N.elementImpedance solve id
        = ofPortValue (Gen.Port.element_impedance (fun M b => solve M.rows b) N id) := by
  refine ⟨ofPortValue_portValue, ?_, ?_⟩
  · rw [C06_gen_open_circuit_impedance_rows, ofPortValue_portValue]
  · rw [C06_gen_element_impedance_rows, ofPortValue_portValue]

/-! ### the hypothesis is satisfiable; the generated function computes -/

example : LawfulLabelOrd String := inferInstance

/-- across an ideal voltage source the generated function takes the second early return -/
example : Gen.Port.open_circuit_impedance (fun _ _ => none)
    (⟨[⟨"1", "0", "V", "voltage_source", Elem.norton (0 : ℚ) 5⟩,
       ⟨"1", "0", "R", "resistor", Elem.norton (2 : ℚ) 0⟩], "0"⟩ : Net String ℚ) "1" "0"
    = .ok (.fin 0) := by
  rw [C06_gen_open_circuit_impedance]; decide

end CC
