-- translator refused: Circuit/components.py:97: constructor body is not guards followed by `return Component(…)`
#eval (panic! "translator refused" : Unit)
example : False := by decide
