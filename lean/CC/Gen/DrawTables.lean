-- translator refused: SimpleCircuit/Elements.py:277: augmented assignment outside the grammar: self._phi -= 90 if deg else np.pi / 2
#eval (panic! "translator refused" : Unit)
example : False := by decide
