-- translator refused: Circuit/transformers.py:105: periodic translator: inner argument R=float(source.value['R']) outside the grammar
#eval (panic! "translator refused" : Unit)
example : False := by decide
