-- translator refused: Network/loaders.py:9: to_complex: no `if degree:` branch found
#eval (panic! "translator refused" : Unit)
example : False := by decide
