import CC.Num
import CC.Model.Net
import CC.Model.MNA
